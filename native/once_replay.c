/* Replay of a once-protocol schedule against the real orc/orconce.h (no liborc needed: the header is inline code).
 * The schedule the solver reports for a double initialisation is: thread A enters first (reads the flag), is delayed
 * before it takes the once mutex; thread B runs its whole first call meanwhile.  The delay is injected in the
 * orc_once_mutex_lock() this program provides.  Prints the number of times the initialiser ran; exit 1 if != 1
 * or if a caller got a pointer that is not the (single) published one. */
#include <pthread.h>
#include <stdio.h>
#include <stdlib.h>
#include <orc/orcutils.h>
#include <orc/orconce.h>

static pthread_mutex_t mtx = PTHREAD_MUTEX_INITIALIZER;
static pthread_mutex_t sched = PTHREAD_MUTEX_INITIALIZER;
static pthread_cond_t cv = PTHREAD_COND_INITIALIZER;
static int b_done, a_entered;
static __thread int is_a, delayed;
static int inits;
static int payloads[8];

void orc_once_mutex_lock (void)
{
  if (is_a && !delayed) {
    delayed = 1;
    pthread_mutex_lock (&sched);
    a_entered = 1;
    pthread_cond_broadcast (&cv);
    while (!b_done) pthread_cond_wait (&cv, &sched);
    pthread_mutex_unlock (&sched);
  }
  pthread_mutex_lock (&mtx);
}
void orc_once_mutex_unlock (void) { pthread_mutex_unlock (&mtx); }

static OrcOnce once = ORC_ONCE_INIT;

static void *client (void)
{
  void *v;
  if (!orc_once_enter (&once, &v)) {
    int k = __sync_fetch_and_add (&inits, 1);
    payloads[k & 7] = 42;
    v = &payloads[k & 7];
    orc_once_leave (&once, v);
  }
  return v;
}

static void *thread_a (void *x) { is_a = 1; return client (); }
static void *thread_b (void *x)
{
  void *r;
  pthread_mutex_lock (&sched);
  while (!a_entered) pthread_cond_wait (&cv, &sched);
  pthread_mutex_unlock (&sched);
  r = client ();
  pthread_mutex_lock (&sched);
  b_done = 1;
  pthread_cond_broadcast (&cv);
  pthread_mutex_unlock (&sched);
  return r;
}

int main (void)
{
  pthread_t a, b;
  void *ra, *rb;
  pthread_create (&a, NULL, thread_a, NULL);
  pthread_create (&b, NULL, thread_b, NULL);
  pthread_join (a, &ra);
  pthread_join (b, &rb);
  printf ("initialiser ran %d time(s); thread A got %p, thread B got %p, published %p\n", inits, ra, rb, once.value);
  return !(inits == 1 && ra == rb && ra == once.value);
}
