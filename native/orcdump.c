/* orcdump: build Orc programs from a line-based recipe through the public construction API,
 * compile them with the freshly built liborc and dump everything the engines need as JSON lines.
 *
 *   orcdump opcodes                      -> opcode table of the "sys" set as JSON
 *   orcdump targets                      -> registered targets, default flags, executable
 *   orcdump compile <target> <flags|default> [--emitasm]  < recipes   -> one JSON line per program
 *   orcdump parse <file.orc>             -> recipes (same text format) for every function in the file
 *   orcdump run <target> <flags|default> <runspec-file>   -> JIT vs emulate on concrete data (replay)
 *
 * Recipe format (one program):
 *   program <name>
 *   2d | constn <n> | constm <m> | nmult <n> | nmin <n> | nmax <n>
 *   var <kind> <size> <name> [<hex value>]      kind: dest src temp accum const const64 param paramf param64 paramd
 *   align <name> <alignment>
 *   insn <opcode> <flags> <name0> [<name1> ...]  (up to 4 operands, dest first, "-" for unused)
 *   end
 */
#include <stdio.h>
#include <string.h>
#include <stdlib.h>
#include <unistd.h>
#include <signal.h>
#include <sys/wait.h>
#include <sys/mman.h>
#include <orc/orc.h>
#include <orc/orcinternal.h>
#include <orc/orcparse.h>
#include <orc/orcbytecode.h>

static void jstr (FILE *f, const char *s)
{
  fputc ('"', f);
  for (; s && *s; s++) {
    unsigned char c = *s;
    if (c == '"' || c == '\\') fprintf (f, "\\%c", c);
    else if (c == '\n') fputs ("\\n", f);
    else if (c == '\t') fputs ("\\t", f);
    else if (c < 32) fprintf (f, "\\u%04x", c);
    else fputc (c, f);
  }
  fputc ('"', f);
}

static int dump_opcodes (void)
{
  OrcOpcodeSet *set = orc_opcode_set_get ("sys");
  int i;
  printf ("[");
  for (i = 0; i < set->n_opcodes; i++) {
    OrcStaticOpcode *o = set->opcodes + i;
    printf ("%s{\"name\":\"%s\",\"flags\":%u,\"dest\":[%d,%d],\"src\":[%d,%d,%d,%d],\"index\":%d}", i ? ",\n" : "", o->name, o->flags,
        o->dest_size[0], o->dest_size[1], o->src_size[0], o->src_size[1], o->src_size[2], o->src_size[3], i);
  }
  printf ("]\n");
  return 0;
}

static int dump_targets (void)
{
  const char *names[] = { "c", "c64x-c", "mmx", "sse", "avx", "neon", "mips", "altivec", "arm", NULL };
  int i;
  OrcTarget *def = orc_target_get_default ();
  printf ("{\"default\":\"%s\",\"targets\":[", def ? orc_target_get_name (def) : "");
  int first = 1;
  for (i = 0; names[i]; i++) {
    OrcTarget *t = orc_target_get_by_name (names[i]);
    if (!t) continue;
    printf ("%s{\"name\":\"%s\",\"executable\":%d,\"default_flags\":%u,\"data_register_offset\":%d}", first ? "" : ",", t->name, t->executable,
        orc_target_get_default_flags (t), t->data_register_offset);
    first = 0;
  }
  printf ("]}\n");
  return 0;
}

/* ------------------------------------------------------------------------------------------------ */
#define MAXLINES 400
typedef struct { char *lines[MAXLINES]; int n; char name[128]; } Recipe;

static int read_recipe (FILE *f, Recipe *r)
{
  char buf[1024];
  r->n = 0; r->name[0] = 0;
  while (fgets (buf, sizeof buf, f)) {
    size_t l = strlen (buf);
    while (l && (buf[l-1] == '\n' || buf[l-1] == '\r')) buf[--l] = 0;
    if (!l || buf[0] == '#') continue;
    if (!strncmp (buf, "program ", 8)) { strncpy (r->name, buf + 8, sizeof r->name - 1); continue; }
    if (!strcmp (buf, "end")) return 1;
    if (r->n < MAXLINES) r->lines[r->n++] = strdup (buf);
  }
  return r->n > 0;
}

static void free_recipe (Recipe *r) { int i; for (i = 0; i < r->n; i++) free (r->lines[i]); r->n = 0; }

static OrcProgram *build (Recipe *r)
{
  OrcProgram *p = orc_program_new ();
  int i;
  orc_program_set_name (p, r->name);
  for (i = 0; i < r->n; i++) {
    char kw[32], a[64], b[64], c[64], d[64], e[64], g[64];
    int n = sscanf (r->lines[i], "%31s %63s %63s %63s %63s %63s %63s", kw, a, b, c, d, e, g);
    if (!strcmp (kw, "2d")) orc_program_set_2d (p);
    else if (!strcmp (kw, "constn")) orc_program_set_constant_n (p, atoi (a));
    else if (!strcmp (kw, "constm")) orc_program_set_constant_m (p, atoi (a));
    else if (!strcmp (kw, "nmult")) orc_program_set_n_multiple (p, atoi (a));
    else if (!strcmp (kw, "nmin")) orc_program_set_n_minimum (p, atoi (a));
    else if (!strcmp (kw, "nmax")) orc_program_set_n_maximum (p, atoi (a));
    else if (!strcmp (kw, "align")) { int v = orc_program_find_var_by_name (p, a); if (v >= 0) orc_program_set_var_alignment (p, v, atoi (b)); }
    else if (!strcmp (kw, "var")) {
      int size = atoi (b);
      unsigned long long val = n >= 5 ? strtoull (d, 0, 16) : 0;
      if (!strcmp (a, "dest")) orc_program_add_destination (p, size, c);
      else if (!strcmp (a, "src")) orc_program_add_source (p, size, c);
      else if (!strcmp (a, "temp")) orc_program_add_temporary (p, size, c);
      else if (!strcmp (a, "accum")) orc_program_add_accumulator (p, size, c);
      else if (!strcmp (a, "const")) orc_program_add_constant (p, size, (int) val, c);
      else if (!strcmp (a, "const64")) orc_program_add_constant_int64 (p, size, (orc_int64) val, c);
      else if (!strcmp (a, "param")) orc_program_add_parameter (p, size, c);
      else if (!strcmp (a, "paramf")) orc_program_add_parameter_float (p, size, c);
      else if (!strcmp (a, "param64")) orc_program_add_parameter_int64 (p, size, c);
      else if (!strcmp (a, "paramd")) orc_program_add_parameter_double (p, size, c);
      else { fprintf (stderr, "bad var kind %s\n", a); exit (3); }
    } else if (!strcmp (kw, "insn")) {
      int args[4] = { -1, -1, -1, -1 }; const char *nm[4] = { c, d, e, g }; int k;
      for (k = 0; k < 4 && k + 3 < n; k++) if (strcmp (nm[k], "-")) args[k] = orc_program_find_var_by_name (p, nm[k]);
      /* operands not used are passed as 0 like orc_program_append does */
      orc_program_append_2 (p, a, (unsigned) strtoul (b, 0, 0), args[0] < 0 ? 0 : args[0], args[1] < 0 ? 0 : args[1], args[2] < 0 ? 0 : args[2], args[3] < 0 ? 0 : args[3]);
    } else { fprintf (stderr, "bad recipe line %s\n", r->lines[i]); exit (3); }
  }
  return p;
}

static void dump_program_vars (FILE *f, OrcProgram *p)
{
  int i, first = 1;
  fprintf (f, "\"prog_vars\":[");
  for (i = 0; i < ORC_N_VARIABLES; i++) {
    OrcVariable *v = p->vars + i;
    if (!v->size) continue;
    fprintf (f, "%s{\"i\":%d,\"name\":", first ? "" : ",", i); jstr (f, v->name ? v->name : "");
    fprintf (f, ",\"vartype\":%d,\"size\":%d,\"alignment\":%d,\"param_type\":%d,\"value\":\"%016llx\"}", v->vartype, v->size, v->alignment, v->param_type,
        (unsigned long long) v->value.i);
    first = 0;
  }
  fprintf (f, "]");
}

static void dump_code (FILE *f, OrcProgram *p, int want_asm)
{
  OrcCode *c = p->orccode;
  int i, k;
  if (!c) { fprintf (f, "\"orccode\":null"); return; }
  fprintf (f, "\"orccode\":{\"is_2d\":%d,\"constant_n\":%d,\"constant_m\":%d,\"code_size\":%d,\"has_chunk\":%d,\"exec_is_code\":%d,\"exec_is_emulate\":%d,\"insns\":[",
      c->is_2d, c->constant_n, c->constant_m, c->code_size, c->chunk != NULL, c->chunk && (void *) c->exec == (void *) c->exec && c->exec != (OrcExecutorFunc) orc_executor_emulate && c->exec != NULL,
      c->exec == (OrcExecutorFunc) orc_executor_emulate);
  for (i = 0; i < c->n_insns; i++) {
    OrcInstruction *in = c->insns + i;
    fprintf (f, "%s{\"op\":\"%s\",\"flags\":%u,\"d\":[%d,%d],\"s\":[%d,%d,%d,%d]}", i ? "," : "", in->opcode->name, in->flags,
        in->dest_args[0], in->dest_args[1], in->src_args[0], in->src_args[1], in->src_args[2], in->src_args[3]);
  }
  fprintf (f, "],\"vars\":[");
  k = 0;
  for (i = 0; i < ORC_N_COMPILER_VARIABLES; i++) {
    OrcCodeVariable *v = c->vars + i;
    if (!v->size) continue;
    fprintf (f, "%s{\"i\":%d,\"vartype\":%d,\"size\":%d,\"value\":\"%016llx\"}", k ? "," : "", i, v->vartype, v->size, (unsigned long long) v->value.i);
    k++;
  }
  fprintf (f, "],\"code\":\"");
  if (c->code && c->chunk) for (i = 0; i < c->code_size; i++) fprintf (f, "%02x", c->code[i]);
  fprintf (f, "\"}");
  if (want_asm) { fprintf (f, ",\"asm\":"); jstr (f, orc_program_get_asm_code (p)); }
}

static unsigned parse_flags (OrcTarget *t, const char *s)
{
  if (!strcmp (s, "default")) return orc_target_get_default_flags (t);
  return (unsigned) strtoul (s, 0, 0);
}

static int cmd_compile (int argc, char **argv)
{
  OrcTarget *t = orc_target_get_by_name (argv[2]);
  unsigned flags;
  int want_asm = argc > 4 && !strcmp (argv[4], "--emitasm");
  Recipe r;
  if (!t) { fprintf (stderr, "no target %s\n", argv[2]); return 2; }
  flags = parse_flags (t, argv[3]);
  while (read_recipe (stdin, &r)) {
    int fds[2]; pid_t pid; int status;
    if (pipe (fds)) return 2;
    fflush (stdout);
    pid = fork ();
    if (pid == 0) {
      FILE *f = fdopen (fds[1], "w");
      OrcProgram *p; OrcCompileResult res;
      close (fds[0]);
      alarm (20);
      p = build (&r);
      res = orc_program_compile_full (p, t, flags);
      fprintf (f, "{\"name\":"); jstr (f, r.name);
      fprintf (f, ",\"target\":\"%s\",\"flags\":%u,\"result\":%d,\"successful\":%d,\"fatal\":%d,\"error\":", argv[2], flags, res,
          ORC_COMPILE_RESULT_IS_SUCCESSFUL (res), ORC_COMPILE_RESULT_IS_FATAL (res));
      jstr (f, orc_program_get_error (p));
      fprintf (f, ",\"code_exec_kind\":\"%s\",", p->code_exec == NULL ? "null" : (p->code_exec == (OrcExecutorFunc) orc_executor_emulate ? "emulate" : (p->orccode && p->code_exec == p->orccode->exec && p->orccode->chunk ? "native" : "other")));
      dump_program_vars (f, p); fprintf (f, ",");
      dump_code (f, p, want_asm);
      fprintf (f, "}\n");
      fflush (f);
      orc_program_free (p);
      _exit (0);
    }
    close (fds[1]);
    {
      char *buf = NULL; size_t cap = 0, len = 0; ssize_t n; char tmp[65536];
      while ((n = read (fds[0], tmp, sizeof tmp)) > 0) {
        if (len + n + 1 > cap) { cap = (len + n + 1) * 2; buf = realloc (buf, cap); }
        memcpy (buf + len, tmp, n); len += n;
      }
      close (fds[0]);
      waitpid (pid, &status, 0);
      if (WIFEXITED (status) && WEXITSTATUS (status) == 0 && len) { fwrite (buf, 1, len, stdout); }
      else {
        printf ("{\"name\":"); jstr (stdout, r.name);
        printf (",\"target\":\"%s\",\"flags\":%u,\"abnormal\":\"%s\",\"signal\":%d,\"exit\":%d}\n", argv[2], flags,
            WIFSIGNALED (status) ? (WTERMSIG (status) == SIGALRM ? "hang" : "crash") : "exit", WIFSIGNALED (status) ? WTERMSIG (status) : 0,
            WIFEXITED (status) ? WEXITSTATUS (status) : -1);
      }
      free (buf);
    }
    free_recipe (&r);
  }
  return 0;
}

/* print a parsed program back as recipe text */
static const char *kindname (OrcVariable *v)
{
  switch (v->vartype) {
    case ORC_VAR_TYPE_TEMP: return "temp";
    case ORC_VAR_TYPE_SRC: return "src";
    case ORC_VAR_TYPE_DEST: return "dest";
    case ORC_VAR_TYPE_CONST: return v->size == 8 ? "const64" : "const";
    case ORC_VAR_TYPE_ACCUMULATOR: return "accum";
    case ORC_VAR_TYPE_PARAM:
      switch (v->param_type) { case ORC_PARAM_TYPE_FLOAT: return "paramf"; case ORC_PARAM_TYPE_INT64: return "param64"; case ORC_PARAM_TYPE_DOUBLE: return "paramd"; default: return "param"; }
  }
  return "?";
}

static void print_recipe (OrcProgram *p)
{
  int i, k;
  printf ("program %s\n", p->name ? p->name : "anon");
  if (p->is_2d) printf ("2d\n");
  if (p->constant_n) printf ("constn %d\n", p->constant_n);
  if (p->constant_m) printf ("constm %d\n", p->constant_m);
  if (p->n_multiple) printf ("nmult %d\n", p->n_multiple);
  if (p->n_minimum) printf ("nmin %d\n", p->n_minimum);
  if (p->n_maximum) printf ("nmax %d\n", p->n_maximum);
  /* declaration order within a class is the index order */
  for (i = 0; i < ORC_N_VARIABLES; i++) {
    OrcVariable *v = p->vars + i;
    if (!v->size) continue;
    if (v->vartype == ORC_VAR_TYPE_CONST) printf ("var %s %d v%d %llx\n", kindname (v), v->size, i, (unsigned long long) v->value.i);
    else printf ("var %s %d v%d\n", kindname (v), v->size, i);
    if (v->alignment) printf ("align v%d %d\n", i, v->alignment);
  }
  for (i = 0; i < p->n_insns; i++) {
    OrcInstruction *in = p->insns + i;
    printf ("insn %s %u", in->opcode->name, in->flags & 3);
    for (k = 0; k < 2; k++) if (in->opcode->dest_size[k]) printf (" v%d", in->dest_args[k]);
    for (k = 0; k < 4; k++) if (in->opcode->src_size[k]) printf (" v%d", in->src_args[k]);
    printf ("\n");
  }
  printf ("end\n");
}

static int cmd_parse (int argc, char **argv)
{
  FILE *f = fopen (argv[2], "rb");
  char *buf; long n; OrcProgram **progs; char *log = NULL; int np, i;
  if (!f) return 2;
  fseek (f, 0, SEEK_END); n = ftell (f); fseek (f, 0, SEEK_SET);
  buf = malloc (n + 1); if (fread (buf, 1, n, f) != (size_t) n) return 2; buf[n] = 0; fclose (f);
  np = orc_parse_full (buf, &progs, &log);
  for (i = 0; i < np; i++) if (progs[i] && !progs[i]->error_msg) print_recipe (progs[i]);
  return 0;
}

/* ------------------------------------------------------------------------------------------------
 * run: execute the compiled code natively and through orc_executor_emulate on concrete data.
 * runspec (after the recipe, same stream):
 *   n <n> / m <m>
 *   array <name> <stride> <offset-in-buffer> <hex bytes of the whole buffer>
 *   paramval <name> <hex 64-bit>
 * Output: JSON with both result buffers and accumulators. */
typedef struct { char name[64]; int stride; int off; unsigned char *data; int len; } ArraySpec;

static int hexval (int c) { return c <= '9' ? c - '0' : (c | 32) - 'a' + 10; }

static int cmd_run (int argc, char **argv)
{
  OrcTarget *t = orc_target_get_by_name (argv[2]);
  unsigned flags = parse_flags (t, argv[3]);
  FILE *f = fopen (argv[4], "r");
  Recipe r; OrcProgram *p; OrcCompileResult res;
  static char line[1 << 22];
  ArraySpec arr[16]; int na = 0; int n = 0, m = 1, i, pass;
  struct { char name[64]; unsigned long long v; } pv[16]; int npv = 0;
  if (!f || !read_recipe (f, &r)) return 2;
  while (fgets (line, sizeof line, f)) {
    char kw[32], a[64]; int s1, s2, pos;
    if (sscanf (line, "%31s", kw) != 1) continue;
    if (!strcmp (kw, "n")) sscanf (line, "%*s %d", &n);
    else if (!strcmp (kw, "m")) sscanf (line, "%*s %d", &m);
    else if (!strcmp (kw, "paramval")) { sscanf (line, "%*s %63s %llx", pv[npv].name, &pv[npv].v); npv++; }
    else if (!strcmp (kw, "array")) {
      char *h;
      sscanf (line, "%*s %63s %d %d %n", a, &s1, &s2, &pos);
      h = line + pos;
      strcpy (arr[na].name, a); arr[na].stride = s1; arr[na].off = s2;
      arr[na].len = 0; arr[na].data = malloc (strlen (h) / 2 + 64);
      while (h[0] && h[1] && h[0] != '\n') { arr[na].data[arr[na].len++] = hexval (h[0]) * 16 + hexval (h[1]); h += 2; }
      na++;
    }
  }
  p = build (&r);
  res = orc_program_compile_full (p, t, flags);
  printf ("{\"result\":%d,\"native\":%d", res, p->orccode && p->orccode->chunk && ORC_COMPILE_RESULT_IS_SUCCESSFUL (res));
  for (pass = 0; pass < 2; pass++) {
    OrcExecutor *ex = orc_executor_new (p);
    unsigned char *bufs[16];
    orc_executor_set_n (ex, n);
    orc_executor_set_m (ex, m);
    for (i = 0; i < na; i++) {
      int v = orc_program_find_var_by_name (p, arr[i].name);
      /* 64-byte aligned allocation + requested offset gives every alignment residue */
      unsigned char *raw = NULL;
      if (getenv ("ORCDUMP_GUARD")) {
        /* the buffer ends flush against an inaccessible page */
        size_t pg = 4096, body = (arr[i].len + pg - 1) / pg * pg;
        unsigned char *base = mmap (NULL, body + pg, PROT_READ | PROT_WRITE, MAP_PRIVATE | MAP_ANONYMOUS, -1, 0);
        if (base == MAP_FAILED) return 2;
        mprotect (base + body, pg, PROT_NONE);
        raw = base + body - arr[i].len;
      } else if (posix_memalign ((void **) &raw, 64, arr[i].len + 128)) return 2;
      bufs[i] = raw;
      memcpy (raw, arr[i].data, arr[i].len);
      /* the element 0 of the array sits at raw + off; buffer bytes before it are guard content from the spec */
      ex->arrays[v] = raw + arr[i].off;
      ex->params[v] = arr[i].stride;
    }
    for (i = 0; i < npv; i++) {
      int v = orc_program_find_var_by_name (p, pv[i].name);
      ex->params[v] = (int) (pv[i].v & 0xffffffff);
      ex->params[v + (ORC_VAR_T1 - ORC_VAR_P1)] = (int) (pv[i].v >> 32);
    }
    if (pass == 0) orc_executor_run (ex); else orc_executor_emulate (ex);
    printf (",\"%s\":{\"acc\":[%d,%d,%d,%d],\"arrays\":{", pass == 0 ? "run" : "emulate", ex->accumulators[0], ex->accumulators[1], ex->accumulators[2], ex->accumulators[3]);
    for (i = 0; i < na; i++) {
      int k;
      printf ("%s\"%s\":\"", i ? "," : "", arr[i].name);
      for (k = 0; k < arr[i].len; k++) printf ("%02x", bufs[i][k]);
      printf ("\"");
      if (!getenv ("ORCDUMP_GUARD")) free (bufs[i]);
    }
    printf ("}}");
    orc_executor_free (ex);
  }
  printf ("}\n");
  return 0;
}

/* frombc <hex bytes>: rebuild a program from static bytecode (what a generated wrapper does on its first call) and print it as a recipe */
static int cmd_frombc (int argc, char **argv)
{
  const char *h = argv[2];
  size_t n = strlen (h) / 2, i;
  orc_uint8 *bc = calloc (n + 64, 1);
  OrcProgram *p;
  for (i = 0; i < n; i++) bc[i] = (hexval (h[2 * i]) << 4) | hexval (h[2 * i + 1]);
  p = orc_program_new_from_static_bytecode (bc);
  if (!p) { printf ("null\n"); return 0; }
  print_recipe (p);
  return 0;
}

int main (int argc, char **argv)
{
  if (argc < 2) return 2;
  orc_init ();
  if (!strcmp (argv[1], "opcodes")) return dump_opcodes ();
  if (!strcmp (argv[1], "targets")) return dump_targets ();
  if (!strcmp (argv[1], "compile") && argc >= 4) return cmd_compile (argc, argv);
  if (!strcmp (argv[1], "parse") && argc >= 3) return cmd_parse (argc, argv);
  if (!strcmp (argv[1], "run") && argc >= 5) return cmd_run (argc, argv);
  if (!strcmp (argv[1], "frombc") && argc >= 3) return cmd_frombc (argc, argv);
  return 2;
}
