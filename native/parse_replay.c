/* parse_replay <file>: feed a text to orc_parse_code the way an application does (errors enabled),
 * compile and free every returned program, free the error vector.  Built with ASan+UBSan for replays. */
#include <stdio.h>
#include <stdlib.h>
#include <string.h>
#include <orc/orc.h>
#include <orc/orcparse.h>

int main (int argc, char **argv)
{
  FILE *f = fopen (argv[1], "rb");
  int mode = argc > 2 ? atoi (argv[2]) : 0;     /* 1: also free the error vector with orc_parse_error_freev */
  long n; char *buf; OrcProgram **progs = NULL; OrcParseError **errors = NULL; int np = 0, ne = 0, i, r;
  if (!f) return 2;
  fseek (f, 0, SEEK_END); n = ftell (f); fseek (f, 0, SEEK_SET);
  buf = malloc (n + 1); if (fread (buf, 1, n, f) != (size_t) n) return 2; buf[n] = 0;
  orc_init ();
  r = orc_parse_code (buf, &progs, &np, &errors, &ne);
  printf ("ret=%d programs=%d errors=%d\n", r, np, ne);
  for (i = 0; i < ne; i++) printf ("error[%d]: line %d: %s\n", i, errors[i]->line_number, errors[i]->text);
  for (i = 0; i < np; i++) {
    OrcCompileResult cr = orc_program_compile (progs[i]);
    printf ("program[%d] %s compile=0x%x\n", i, orc_program_get_name (progs[i]), cr);
    orc_program_free (progs[i]);
  }
  if (mode == 1) orc_parse_error_freev (errors);
  free (progs);
  free (buf);
  return 0;
}
