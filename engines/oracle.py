"""Program-level emulation oracle: composes per-opcode element semantics over the instruction list of a compiled
OrcCode exactly as orc_executor_emulate() does (orc/orcexecutor.c): temporaries per element, constants and parameters
staged as 64-bit values (int parameters sign-extended, 8-byte parameters from the lo/hi slots), x2/x4 as lanes in memory
order, accumulators zeroed then summed (accw modulo 2^16, accl/accsadubl modulo 2^32), rows via strides.

The element semantics come from a `sem` mapping  name -> f(srcs) -> dests  (engines.orcref.REF, or the closed forms the
IR engine extracts from the real emulator kernels).  Everything is z3 terms; n and m are concrete here (every path of
the machine-code execution pins n).
"""
import z3

F_ACC, F_FSRC, F_FDEST, F_SCALAR, F_LOAD, F_STORE, F_INVARIANT, F_ITER = 1, 2, 4, 8, 16, 32, 64, 128
X2, X4 = 1, 2
VT_TEMP, VT_SRC, VT_DEST, VT_CONST, VT_PARAM, VT_ACC = 0, 1, 2, 3, 4, 5


class OracleUnsupported(Exception):
    pass


def lanes_of(v, w):
    """memory-order (little endian) lanes of width w"""
    return [z3.Extract(w * i + w - 1, w * i, v) for i in range(v.size() // w)]


def pack(ls):
    return z3.Concat(*reversed(ls)) if len(ls) > 1 else ls[0]


class Oracle(object):
    def __init__(self, prog, optable, sem):
        """prog: JSON of orcdump compile; optable: dict name -> opcode entry (flags, dest, src); sem: name -> function"""
        self.prog = prog
        self.code = prog['orccode']
        self.ops = optable
        self.sem = sem
        self.vars = {v['i']: v for v in self.code['vars']}
        self.reads = []       # (var, row, first_elem, last_elem) element ranges read from arrays (entitlement reference)

    def staged(self, vi, param):
        """the 64-bit value orc_executor_emulate stages for a constant/parameter operand"""
        v = self.vars[vi]
        if v['vartype'] == VT_CONST:
            return z3.BitVecVal(int(v['value'], 16), 64)
        if v['vartype'] == VT_PARAM:
            lo, hi = param(vi)
            if v['size'] == 8:
                return z3.Concat(hi, lo)
            return z3.SignExt(32, lo)
        raise OracleUnsupported('staged operand of vartype %d' % v['vartype'])

    def run(self, n, m, elem, param, acc_init=None):
        """elem(var, row, index, size) -> BitVec(8*size): *current* content of an array element (the caller's memory
        view; the oracle itself tracks stores it performed so a later load of a dest sees them);
        param(var) -> (lo32, hi32).
        Returns dict(stores={(var,row,idx): term}, acc=[4 terms 32-bit], reads=[...])"""
        stores = {}
        acc = [z3.BitVecVal(0, 32) for _ in range(4)]
        is2d = self.code.get('is_2d')
        rows = m if is2d else 1

        def rd(var, row, idx, size):
            if (var, row, idx) in stores:
                return stores[(var, row, idx)]
            self.reads.append((var, row, idx))
            return elem(var, row, idx, size)

        for row in range(rows):
            for i in range(n):
                tmp = {}
                for insn in self.code['insns']:
                    op = self.ops[insn['op']]
                    name = insn['op']
                    fl = op['flags']
                    shift = 1 if insn['flags'] & X2 else 2 if insn['flags'] & X4 else 0
                    nl = 1 << shift
                    d, s = insn['d'], insn['s']
                    if fl & F_LOAD:
                        sv = self.vars.get(s[0])
                        dsz = op['dest'][0]
                        if name.startswith('loadp'):
                            val = self.staged(s[0], param)
                            lane = z3.Extract(8 * dsz - 1, 0, val)
                            tmp[d[0]] = pack([lane] * nl)
                            continue
                        if shift:
                            raise OracleUnsupported('x2/x4 on array load ' + name)
                        ssz = op['src'][0]
                        if name in ('loadb', 'loadw', 'loadl', 'loadq'):
                            tmp[d[0]] = rd(s[0], row, i, ssz)
                        elif name.startswith('loadoff'):
                            off = self.staged(s[1], param)
                            if not z3.is_bv_value(z3.simplify(off)):
                                raise OracleUnsupported('symbolic loadoff offset')
                            o = z3.simplify(off).as_signed_long()
                            tmp[d[0]] = rd(s[0], row, i + o, ssz)
                        elif name == 'loadupdb':
                            tmp[d[0]] = rd(s[0], row, i >> 1, 1)
                        elif name == 'loadupib':
                            a = rd(s[0], row, i >> 1, 1)
                            if i & 1:
                                b = rd(s[0], row, (i >> 1) + 1, 1)
                                tmp[d[0]] = self.sem['loadupib']([a, b])[0]
                            else:
                                tmp[d[0]] = a
                        else:
                            raise OracleUnsupported('load ' + name)
                        continue
                    if fl & F_STORE:
                        if shift:
                            raise OracleUnsupported('x2/x4 on store')
                        stores[(d[0], row, i)] = tmp[s[0]]
                        continue
                    # operands
                    srcs_lanes = []
                    for k, ssz in enumerate(op['src']):
                        if not ssz:
                            continue
                        vi = s[k]
                        var = self.vars[vi]
                        if k > 0 and (fl & F_SCALAR) and var['vartype'] in (VT_CONST, VT_PARAM):
                            val = self.staged(vi, param)          # kernels read the whole staged 64-bit value
                            srcs_lanes.append([val] * nl)
                            continue
                        if k > 0 and (fl & F_SCALAR) and var['vartype'] == VT_TEMP:
                            # a loaded parameter: the kernel reads 8 bytes from the start of the temporary's buffer
                            t = tmp[vi]
                            rep = pack((lanes_of(t, 8) * 8)[:8])
                            srcs_lanes.append([rep] * nl)
                            continue
                        if var['vartype'] == VT_TEMP:
                            t = tmp[vi]
                        elif var['vartype'] in (VT_SRC, VT_DEST):
                            t = rd(vi, row, i, var['size'])
                        else:
                            raise OracleUnsupported('%s operand %d of vartype %d' % (name, k, var['vartype']))
                        if t.size() != 8 * ssz * nl:
                            raise OracleUnsupported('%s: operand width %d, expected %d' % (name, t.size(), 8 * ssz * nl))
                        srcs_lanes.append(lanes_of(t, 8 * ssz))
                    outs = [[] for _ in op['dest'] if _]
                    for l in range(nl):
                        r = self.sem[name]([sl[l] for sl in srcs_lanes])
                        for k, x in enumerate(r):
                            outs[k].append(x)
                    if fl & F_ACC:
                        k = d[0] - ACC_BASE(self)
                        for x in outs[0]:
                            if name == 'accw':
                                acc[k] = z3.ZeroExt(16, z3.Extract(15, 0, acc[k]) + x)
                            else:
                                acc[k] = acc[k] + x
                        continue
                    for k, o in enumerate(outs):
                        tmp[d[k]] = pack(o)
        return dict(stores=stores, acc=[z3.simplify(a) for a in acc], reads=self.reads)


def ACC_BASE(o):
    return 12      # ORC_VAR_A1 (checked against the executor layout by the callers)
