"""EVT - bounded interleavings of real code as an order over memory events (for C08).

Each thread body is taken from the LLVM IR (clang -O1) of a real function: every load/store/cmpxchg/atomicrmw of a global,
every call of a lock/unlock function and every other call becomes an event with an integer clock; loops are unrolled
K times (total number of back edges taken per call <= K; longer runs are outside the bound).  The SMT problem asserts
program order, read-from consistency under sequential consistency for the named locations, mutex exclusion, and then
  query 1 (functional): the negated post-condition "the initialiser body ran exactly once, every caller returns the
          pointer it published and sees its writes", or
  query 2 (race): two conflicting accesses, at least one non-atomic, not ordered by C11 happens-before
          (program order + unlock->lock + release-store->acquire-load that reads it, transitively).
Accesses through pointers (heap objects) are abstracted to one non-atomic location 'heap' whose reads return arbitrary
values: sound for the race query (more control flow, coarser conflicts), not used for functional queries.
This is the partial-order encoding CBMC uses internally; CBMC's front end refuses these programs.
"""
import re, time
import z3


def _norm(line):
    line = re.sub(r', ![\w.]+ ![0-9]+', '', line)
    line = re.sub(r' #\d+', '', line)
    line = re.sub(r', align \d+', '', line)
    # constant GEP into a global  ->  @global.i.j
    def gep(m):
        idx = re.findall(r'i\d+ (\d+)', m.group(2))
        return m.group(1) + ''.join('.' + i for i in idx[1:])
    line = re.sub(r'getelementptr inbounds \([^()@]*(@[\w.$]+)((?:, i\d+ \d+)*)\)', gep, line)
    line = re.sub(r'bitcast \([^()@]*(@[\w.$]+) to [^()]*\)', r'\1', line)
    return line


class Unsupported(Exception):
    pass


ORDERINGS = ('unordered', 'monotonic', 'acquire', 'release', 'acq_rel', 'seq_cst')


def split_top(s):
    out, depth, cur = [], 0, ''
    for ch in s:
        if ch in '([{<':
            depth += 1
        elif ch in ')]}>':
            depth -= 1
        if ch == ',' and depth == 0:
            out.append(cur.strip())
            cur = ''
        else:
            cur += ch
    out.append(cur.strip())
    return out


def parse_mem(body):
    """load/store -> (atomic, first type token, value token|None, pointer token, ordering|None)"""
    w = body.split(None, 1)[1]
    atomic = False
    while True:
        if w.startswith('atomic '):
            atomic, w = True, w[7:]
        elif w.startswith('volatile '):
            w = w[9:]
        else:
            break
    parts = split_top(w)
    last = parts[-1].split()
    order = None
    if last[-1] in ORDERINGS:
        order = last[-1]
        last = last[:-1]
    if re.match(r'^syncscope', last[-1]):
        last = last[:-1]
    ptr = last[-1]
    if body.startswith('store'):
        first = parts[0].split()
        return atomic, first[0], first[-1], ptr, order
    return atomic, parts[0].split()[0], None, ptr, order


class IRFunc(object):
    def __init__(self, ll_path, fname, text=None):
        txt = text if text is not None else open(ll_path).read()
        m = re.search(r'define [^\n]*@%s\(.*?\n\}' % re.escape(fname), txt, re.S)
        if not m:
            raise ValueError('function %s not found in %s' % (fname, ll_path))
        self.name = fname
        self.text = m.group(0)
        self.blocks = {}
        self.order = []
        cur = 'entry'
        self.blocks[cur] = []
        self.order.append(cur)
        for line in m.group(0).splitlines()[1:-1]:
            line = _norm(line)
            lm = re.match(r'^([\w.]+):', line)
            if lm:
                cur = lm.group(1)
                self.blocks[cur] = []
                self.order.append(cur)
                continue
            s = line.strip()
            if s and not s.startswith(';'):
                self.blocks[cur].append(s)
        hdr = m.group(0).splitlines()[0]
        i = hdr.index('@%s(' % fname) + len(fname) + 2
        depth, j = 1, i
        while depth:
            depth += {'(': 1, ')': -1}.get(hdr[j], 0)
            j += 1
        argtxt = hdr[i:j - 1]
        self.args = [a.split()[-1] for a in split_top(argtxt) if a.split() and a.split()[-1].startswith('%')]
        self.nargs = len([a for a in split_top(argtxt) if a.strip()])
        # clang numbers the entry block implicitly (%N after the N arguments): phis refer to it by that number
        self.entry_alias = str(self.nargs)

    def succs(self, b):
        last = self.blocks[b][-1]
        m = re.match(r'br i1 (\S+), label %([\w.]+), label %([\w.]+)', last)
        if m:
            return [(m.group(2), m.group(1), True), (m.group(3), m.group(1), False)]
        m = re.match(r'br label %([\w.]+)', last)
        if m:
            return [(m.group(1), None, None)]
        if last.startswith('switch'):
            raise Unsupported('switch')
        return []

    def back_edges(self):
        color, back = {}, set()

        def dfs(u):
            color[u] = 1
            for v, _, _ in self.succs(u):
                if color.get(v, 0) == 0:
                    dfs(v)
                elif color[v] == 1:
                    back.add((u, v))
            color[u] = 2
        dfs(self.order[0])
        return back


def thread_events(fn, tid, calls, E, default_call='body', unroll=0, payload_loc='payload', local_args=False):
    """Symbolically walk the function for thread `tid`; E(...) records an event and returns it.
    calls: name -> ('lock', m) | ('unlock', m) | ('pure',) | ('body',) | ('heap',)
    Returns dict(ret, body_guard, seq=[events in program order], payload_seen, cut=Bool (a path left the unrolling bound))."""
    TT = z3.BoolVal(True)
    back = fn.back_edges()
    if back and unroll == 0:
        raise Unsupported('function %s has loops; give an unrolling bound' % fn.name)
    nodes = [(b, k) for k in range(unroll + 1) for b in fn.order]
    succ = {}
    cutedges = []
    for (b, k) in nodes:
        out = []
        for s, c, pol in fn.succs(b):
            if (b, s) in back:
                if k < unroll:
                    out.append(((s, k + 1), c, pol))
                else:
                    cutedges.append(((b, k), c, pol))
            else:
                out.append(((s, k), c, pol))
        succ[(b, k)] = out
    start = (fn.order[0], 0)
    reach, todo = set([start]), [start]
    while todo:
        u = todo.pop()
        for s, _, _ in succ[u]:
            if s not in reach:
                reach.add(s)
                todo.append(s)
    indeg = {n: 0 for n in reach}
    for n in reach:
        for s, _, _ in succ[n]:
            indeg[s] += 1
    topo, ready = [], [start]
    while ready:
        u = ready.pop(0)
        topo.append(u)
        for s, _, _ in succ[u]:
            indeg[s] -= 1
            if indeg[s] == 0:
                ready.append(s)
    if len(topo) != len(reach):
        raise Unsupported('irreducible control flow in %s' % fn.name)
    fresh_n = [0]

    def fresh(isbool, hint='v'):
        fresh_n[0] += 1
        nm = 't%d_%s_%d' % (tid, hint, fresh_n[0])
        return z3.Bool(nm) if isbool else z3.Int(nm)
    envs, guard, edge = {}, {}, {}
    seq, body_guards, cut = [], [], []
    local, derefs = set(), []
    ret = [None]
    predmap = {}
    for n in topo:
        for s, _, _ in succ[n]:
            predmap.setdefault(s, [])
            if n not in predmap[s]:
                predmap[s].append(n)
    for n in topo:
        b, k = n
        preds = predmap.get(n, [])
        if n == start:
            guard[n] = TT
            env = {a: fresh(False, 'arg') for a in fn.args}
            if local_args:
                local.update(fn.args)        # arrays and out-pointers belong to the caller
        else:
            guard[n] = z3.simplify(z3.Or(*[edge[(p, n)] for p in preds])) if preds else z3.BoolVal(False)
            env = {}
            names = set()
            for p in preds:
                names.update(envs[p])
            for nm in names:
                t = None
                for p in preds:
                    if nm in envs[p]:
                        v = envs[p][nm]
                        if t is None or z3.eq(v, t):
                            t = v
                        elif z3.is_bool(v) == z3.is_bool(t):
                            t = z3.If(edge[(p, n)], v, t)
                env[nm] = t
        g = guard[n]

        def val(tok, want_bool=False, env_=None):
            e_ = env if env_ is None else env_
            tok = tok.strip().rstrip(',')
            if tok.startswith('%'):
                if tok not in e_:
                    e_[tok] = fresh(want_bool, 'undef')
                v = e_[tok]
            elif tok in ('true', 'false'):
                v = z3.BoolVal(tok == 'true')
            elif tok in ('null', 'undef', 'zeroinitializer', 'poison'):
                v = z3.BoolVal(False) if want_bool else z3.IntVal(0)
            elif re.match(r'^-?\d+$', tok):
                v = z3.IntVal(int(tok))
            else:
                v = fresh(want_bool, 'const')
            if want_bool and not z3.is_bool(v):
                v = v != 0
            if not want_bool and z3.is_bool(v):
                v = z3.If(v, z3.IntVal(1), z3.IntVal(0))
            return v

        def access(kind, ptr, value, atomic=False, acq=False, rel=False, tag=''):
            if ptr in local:
                return None                      # the thread's own stack object
            if ptr.startswith('%') and kind == 'R':
                derefs.append((g, val(ptr)))
            if ptr.startswith('@'):
                e = E(tid, kind, ptr, g, value, atomic=atomic, acq=acq, rel=rel, tag=tag)
            else:
                e = E(tid, kind, 'heap', g, value, atomic=atomic, acq=acq, rel=rel, tag=tag or 'heap')
            seq.append(e)
            return e
        phis = {}
        for ins in fn.blocks[b]:
            m = re.match(r'^(%[\w.]+) = (.*)$', ins)
            dst, body = (m.group(1), m.group(2)) if m else (None, ins)
            op = body.split()[0]
            if op == 'phi':
                isb = body.startswith('phi i1 ')
                t = None
                for vtok, pb in re.findall(r'\[ ([^,\]]+), %([\w.]+) \]', body):
                    pb = fn.order[0] if (pb == fn.entry_alias and pb not in fn.blocks) else pb
                    for p in preds:
                        if p[0] == pb:
                            vv = val(vtok, isb, envs[p])
                            t = vv if t is None else z3.If(edge[(p, n)], vv, t)
                phis[dst] = t if t is not None else fresh(isb, 'phi')
                continue
            if phis:
                env.update(phis)
                phis = {}
            if op == 'alloca':
                local.add(dst)
                env[dst] = fresh(False, 'alloca')
            elif op == 'getelementptr':
                mm = re.match(r'getelementptr (?:inbounds )?[^,]+, \S+ (\S+?)(?:,|$)', body)
                base = mm.group(1) if mm else None
                if base in local:
                    local.add(dst)
                env[dst] = val(base) if base else fresh(False, 'gep')      # pointer identity = identity of the object
            elif op == 'load':
                at, ty, _, ptr, od = parse_mem(body)
                isb = ty == 'i1'
                v = z3.Int('t%d_%s_%d' % (tid, dst[1:], k))
                access('R', ptr, v, atomic=at, acq=od in ('acquire', 'seq_cst', 'acq_rel'))
                env[dst] = (v != 0) if isb else v
            elif op == 'store':
                at, ty, vtok, ptr, od = parse_mem(body)
                access('W', ptr, val(vtok), atomic=at, rel=od in ('release', 'seq_cst', 'acq_rel'))
            elif op == 'cmpxchg':
                mm = re.match(r'cmpxchg (?:weak )?(?:volatile )?\S+ (\S+), \S+ (\S+), \S+ (\S+) (\w+) (\w+)', body)
                if not mm:
                    raise Unsupported(ins)
                v = z3.Int('t%d_%s_%d' % (tid, dst[1:], k))
                r_ = access('R', mm.group(1), v, atomic=True, acq=True, tag='rmw')
                exp, new = val(mm.group(2)), val(mm.group(3))
                w_ = access('W', mm.group(1), new, atomic=True, rel=True, tag='rmww')
                w_['guard'] = z3.And(g, v == exp)
                w_['rmw_of'] = r_['id']
                env[dst + '#0'] = v
                env[dst + '#1'] = (v == exp)
            elif op == 'atomicrmw':
                mm = re.match(r'atomicrmw (?:volatile )?(\w+) \S+ (\S+), \S+ (\S+) (\w+)', body)
                if not mm:
                    raise Unsupported(ins)
                v = z3.Int('t%d_%s_%d' % (tid, (dst or '%rmw')[1:], k))
                r_ = access('R', mm.group(2), v, atomic=True, acq=True, tag='rmw')
                o, a = mm.group(1), val(mm.group(3))
                if o == 'xchg':
                    nv = a
                elif o == 'add':
                    nv = v + a
                elif o == 'sub':
                    nv = v - a
                elif o == 'and' and z3.is_int_value(a) and a.as_long() == 1:
                    nv = v % 2
                elif o == 'or' and z3.is_int_value(a) and a.as_long() == 1:
                    nv = z3.If(v % 2 == 1, v, v + 1)
                else:
                    raise Unsupported(ins)
                w_ = access('W', mm.group(2), nv, atomic=True, rel=True, tag='rmww')
                w_['rmw_of'] = r_['id']
                if dst:
                    env[dst] = v
            elif op == 'extractvalue':
                mm = re.match(r'extractvalue \{[^}]*\} (%[\w.]+), (\d+)', body)
                key = mm.group(1) + '#' + mm.group(2)
                env[dst] = env[key] if key in env else fresh(mm.group(2) == '1', 'ev')
            elif op == 'icmp':
                mm = re.match(r'icmp (\w+) (\S+) (\S+), (\S+)', body)
                isb = mm.group(2) == 'i1'
                a, c = val(mm.group(3), isb), val(mm.group(4), isb)
                p = mm.group(1)
                if p == 'eq':
                    env[dst] = a == c
                elif p == 'ne':
                    env[dst] = a != c
                elif p in ('slt', 'sgt', 'sle', 'sge') and not isb:
                    env[dst] = {'slt': a < c, 'sgt': a > c, 'sle': a <= c, 'sge': a >= c}[p]
                else:
                    env[dst] = fresh(True, 'cmp')
            elif op == 'select':
                mm = re.match(r'select i1 (\S+), (\S+) (\S+), \S+ (\S+)', body)
                isb = mm.group(2) == 'i1'
                env[dst] = z3.If(val(mm.group(1), True), val(mm.group(3), isb), val(mm.group(4), isb))
            elif op in ('and', 'or', 'xor') and body.split()[1] == 'i1':
                mm = re.match(r'\w+ i1 (\S+), (\S+)', body)
                a, c = val(mm.group(1), True), val(mm.group(2), True)
                env[dst] = {'and': z3.And(a, c), 'or': z3.Or(a, c), 'xor': z3.Xor(a, c)}[op]
            elif op in ('zext', 'sext', 'trunc', 'bitcast', 'ptrtoint', 'inttoptr'):
                left, right = body.rsplit(' to ', 1)
                mm = re.match(r'(\S+) (\S+) (\S+)', ' '.join([left.split()[1], left.split()[-1], right.split()[0]]))
                if op == 'trunc' and mm.group(3) == 'i1':
                    env[dst] = val(mm.group(2)) % 2 != 0
                elif op == 'sext' and mm.group(1) == 'i1':
                    env[dst] = z3.If(val(mm.group(2), True), z3.IntVal(-1), z3.IntVal(0))
                elif op == 'trunc':
                    env[dst] = fresh(False, 'trunc')
                else:
                    env[dst] = val(mm.group(2))
                    if op == 'bitcast' and mm.group(2) in local:
                        local.add(dst)
            elif op in ('call', 'tail', 'notail', 'musttail'):
                mm = re.search(r'call .*?([@%][\w.$]+)\(', body)
                if not mm or mm.group(1).startswith('%'):
                    # call through a pointer: the compiled code runs (it touches only what its executor names: C10)
                    if dst:
                        env[dst] = fresh(False, 'icall')
                    continue
                f = mm.group(1)[1:]
                kind = calls.get(f)
                if f.startswith('llvm.') or (kind and kind[0] == 'pure'):
                    if dst:
                        env[dst] = fresh(False, 'call')
                    continue
                if kind is None:
                    kind = (default_call,)
                if kind[0] == 'lock':
                    r_ = E(tid, 'R', 'mutex:' + kind[1], g, z3.IntVal(0), atomic=True, acq=True, tag='lock')
                    w_ = E(tid, 'W', 'mutex:' + kind[1], g, z3.IntVal(1), atomic=True, tag='lockw')
                    w_['rmw_of'] = r_['id']
                    seq.extend([r_, w_])
                elif kind[0] == 'unlock':
                    seq.append(E(tid, 'W', 'mutex:' + kind[1], g, z3.IntVal(0), atomic=True, rel=True, tag='unlock'))
                elif kind[0] == 'heap':
                    seq.append(E(tid, 'W', 'heap', g, z3.IntVal(0), tag='call:' + f))
                    if dst:
                        env[dst] = fresh(False, 'call')
                else:
                    seq.append(E(tid, 'W', payload_loc, g, z3.IntVal(42), tag='body:' + f))
                    body_guards.append(g)
                    if dst:
                        env[dst] = z3.IntVal(1000 + tid)
            elif op == 'br':
                for s, c, pol in succ[n]:
                    e = g if c is None else z3.And(g, val(c, True) if pol else z3.Not(val(c, True)))
                    edge[(n, s)] = z3.simplify(z3.Or(edge[(n, s)], e)) if (n, s) in edge else z3.simplify(e)
                for (cn, c, pol) in cutedges:
                    if cn == n:
                        cut.append(g if c is None else z3.And(g, val(c, True) if pol else z3.Not(val(c, True))))
            elif op == 'ret':
                mm = re.match(r'ret \S+ (\S+)', body)
                rv = val(mm.group(1)) if mm else None
                ret[0] = rv if ret[0] is None or rv is None else z3.If(g, rv, ret[0])
            elif op == 'unreachable':
                pass
            elif dst:
                w = body.split()
                env[dst] = fresh(len(w) > 1 and w[1] == 'i1', op)
            else:
                raise Unsupported(ins)
        if phis:
            env.update(phis)
        envs[n] = env
    pl = z3.Int('t%d_payload_seen' % tid)
    seq.append(E(tid, 'R', payload_loc, TT, pl, tag='use'))
    return dict(ret=ret[0], derefs=derefs, body_guard=z3.simplify(z3.Or(*body_guards)) if body_guards else z3.BoolVal(False), seq=seq, payload_seen=pl,
                cut=z3.simplify(z3.Or(*cut)) if cut else z3.BoolVal(False))


def check(threads, calls, default_call='body', unroll=0, functional=True, returns_pointer=True, timeout_ms=120000, abstract=('heap',), local_args=False):
    """threads: list of IRFunc.  -> dict(functional=..., race=..., witness strings, counts)"""
    t0 = time.time()
    fns = threads
    ev = []
    S = z3.Solver()
    S.set('timeout', timeout_ms)

    def E(tid, kind, loc, guard, val, atomic=False, acq=False, rel=False, tag=''):
        e = dict(id=len(ev), tid=tid, kind=kind, loc=loc, guard=guard, val=val, atomic=atomic, acq=acq, rel=rel, tag=tag, clk=z3.Int('c%d' % len(ev)), rmw_of=None, pos=0)
        ev.append(e)
        return e
    probe = []

    def EP(tid, kind, loc, guard, val, **k):
        probe.append(loc)
        return dict(id=-1)
    for fn in fns:
        thread_events(fn, 99, calls, EP, default_call, unroll, local_args=local_args)
    locs = sorted(set(probe))
    for loc in locs:
        E(-1, 'W', loc, z3.BoolVal(True), z3.IntVal(0), atomic=True, rel=True, tag='init')
    infos = []
    for t, fn in enumerate(fns):
        info = thread_events(fn, t, calls, E, default_call, unroll, local_args=local_args)
        infos.append(info)
        seq = info['seq']
        for i, e in enumerate(seq):
            e['pos'] = i
        for a, b in zip(seq, seq[1:]):
            if b['rmw_of'] == a['id']:
                S.add(b['clk'] == a['clk'])
            else:
                S.add(a['clk'] < b['clk'])
        S.add(z3.Not(info['cut']))          # executions inside the unrolling bound only
    for e in ev:
        S.add(e['clk'] == 0 if e['tid'] == -1 else e['clk'] > 0)
    reps = [e for e in ev if e['rmw_of'] is None and e['tid'] != -1]
    S.add(z3.Distinct(*[e['clk'] for e in reps]))
    rf = {}
    for r in ev:
        if r['kind'] != 'R' or r['loc'] in abstract:
            continue
        ws = [w for w in ev if w['kind'] == 'W' and w['loc'] == r['loc'] and w['rmw_of'] != r['id']]
        opts = []
        for w in ws:
            bvar = z3.Bool('rf_%d_%d' % (r['id'], w['id']))
            rf[(r['id'], w['id'])] = bvar
            nob = [z3.Or(z3.Not(x['guard']), x['clk'] < w['clk'], x['clk'] > r['clk']) for x in ws if x is not w]
            S.add(z3.Implies(bvar, z3.And(w['guard'], w['clk'] < r['clk'], r['val'] == w['val'], *nob)))
            opts.append(bvar)
        S.add(z3.Implies(r['guard'], z3.Or(*opts)))
        S.add(z3.Implies(z3.Not(r['guard']), z3.Not(z3.Or(*opts))))
    out = dict(events=len(ev), shared=locs, thread_events=[['%s %s%s%s%s' % (e['kind'], e['loc'], ' atomic' if e['atomic'] else '', ' acq' if e['acq'] else '', ' rel' if e['rel'] else '') for e in i['seq']] for i in infos])
    out['executions_exist'] = str(S.check())

    def order(md):
        act = [e for e in ev if e['tid'] >= 0 and z3.is_true(md.eval(e['guard'], model_completion=True))]
        act.sort(key=lambda e: (md.eval(e['clk'], model_completion=True).as_long(), e['id']))
        return ' '.join('T%d.%s:%s%s' % (e['tid'], e['kind'], e['loc'].split(':')[-1], ('=' + str(md.eval(e['val'], model_completion=True))) if e['loc'] not in abstract else '') for e in act)
    # ---- query 0: every mutex a call takes is released by the end of that call (a leaked lock blocks every later caller;
    #      such executions have no continuation in this encoding, so the balance is checked on the call that leaks)
    leak = []
    for i in infos:
        for mloc in set(e['loc'] for e in i['seq'] if e['tag'] in ('lock', 'unlock')):
            nl = z3.Sum([z3.If(e['guard'], 1, 0) for e in i['seq'] if e['tag'] == 'lock' and e['loc'] == mloc] + [z3.IntVal(0)])
            nu = z3.Sum([z3.If(e['guard'], 1, 0) for e in i['seq'] if e['tag'] == 'unlock' and e['loc'] == mloc] + [z3.IntVal(0)])
            leak.append(nl != nu)
    out['lock_balance'] = 'unsat'
    out['lock_witness'] = None
    if leak:
        S.push()
        S.add(z3.Or(*leak))
        r0 = S.check()
        out['lock_balance'] = str(r0)
        if r0 == z3.sat:
            out['lock_witness'] = order(S.model())
        S.pop()
    # ---- query 1: functional
    if functional:
        bad = [z3.Sum([z3.If(i['body_guard'], 1, 0) for i in infos]) != 1]
        for t, i in enumerate(infos):
            bad.append(i['payload_seen'] != 42)
            if returns_pointer and i['ret'] is not None:
                bad.append(z3.Not(z3.Or(*[z3.And(infos[u]['body_guard'], i['ret'] == 1000 + u) for u in range(len(fns))])))
            for dg, dp in i['derefs']:       # every object dereferenced is the one the (single) initialiser published
                bad.append(z3.And(dg, z3.Not(z3.Or(*[z3.And(infos[u]['body_guard'], dp == 1000 + u) for u in range(len(fns))]))))
        S.push()
        S.add(z3.Or(*bad))
        r1 = S.check()
        out['functional'] = str(r1)
        out['functional_witness'] = order(S.model()) if r1 == z3.sat else None
        S.pop()
    # ---- query 2: C11 data race.  hb is computed over synchronisation events only; plain accesses inherit it through program order.
    sync = [e for e in ev if e['atomic'] and (e['acq'] or e['rel'])]
    sid = {e['id']: i for i, e in enumerate(sync)}
    ns = len(sync)
    hb = [[z3.Bool('hb_%d_%d' % (a['id'], b['id'])) for b in sync] for a in sync]
    for i, a in enumerate(sync):
        for j, b in enumerate(sync):
            if i == j:
                S.add(z3.Not(hb[i][j]))
                continue
            base_ = []
            if a['tid'] == b['tid'] and a['tid'] != -1 and a['pos'] < b['pos']:
                base_.append(z3.And(a['guard'], b['guard']))
            if a['tid'] == -1 and b['tid'] != -1:
                base_.append(b['guard'])
            if a['kind'] == 'W' and b['kind'] == 'R' and a['rel'] and b['acq'] and (b['id'], a['id']) in rf:
                base_.append(rf[(b['id'], a['id'])])
            trans = [z3.And(hb[i][k], hb[k][j]) for k in range(ns) if k != i and k != j]
            S.add(hb[i][j] == z3.Or(*(base_ + trans)))
            S.add(z3.Implies(hb[i][j], a['clk'] <= b['clk']))

    def HB(a, b):
        """a happens-before b for arbitrary events of different threads"""
        alts = []
        for w in sync:
            if w['tid'] != a['tid'] or w['pos'] < a['pos'] or not (w['rel'] or w['id'] == a['id']):
                continue
            for r in sync:
                if r['tid'] != b['tid'] or r['pos'] > b['pos']:
                    continue
                alts.append(z3.And(w['guard'], r['guard'], hb[sid[w['id']]][sid[r['id']]]))
        return z3.Or(*alts) if alts else z3.BoolVal(False)
    races, pairs = [], []
    for i, a in enumerate(ev):
        for b in ev[i + 1:]:
            if a['tid'] != b['tid'] and a['tid'] != -1 and b['tid'] != -1 and a['loc'] == b['loc'] and 'W' in (a['kind'], b['kind']) and not (a['atomic'] and b['atomic']):
                races.append(z3.And(a['guard'], b['guard'], z3.Not(HB(a, b)), z3.Not(HB(b, a))))
                pairs.append((a, b))
    out['conflicting_pairs'] = len(pairs)
    out['race_witness'] = None
    if races:
        S.push()
        S.add(z3.Or(*races))
        r2 = S.check()
        if r2 == z3.sat:
            md = S.model()
            for c, (a, b) in zip(races, pairs):
                if z3.is_true(md.eval(c, model_completion=True)):
                    d = lambda e: 'thread %d %s %s of %s%s' % (e['tid'], 'atomic' if e['atomic'] else 'plain', 'read' if e['kind'] == 'R' else 'write', e['loc'], (' [' + e['tag'] + ']') if e['tag'] else '')
                    out['race_witness'] = 'unordered conflicting accesses: %s  <->  %s ; schedule: %s' % (d(a), d(b), order(md))
                    out['race_pair'] = '%s %s%s / %s %s%s' % (a['kind'], a['loc'], '' if a['atomic'] else ' plain', b['kind'], b['loc'], '' if b['atomic'] else ' plain')
                    break
        S.pop()
        out['race'] = str(r2)
    else:
        out['race'] = 'unsat'
    out['wall_s'] = round(time.time() - t0, 2)
    return out
