"""orcref - reference semantics of every Orc `sys` opcode as z3 terms, written from the opcode reference
(doc/opcode_table.xml + doc/opcodes.xml prose), NOT from the emulator.  One entry per opcode:

    REF[name](srcs: list[BitVec], ctx) -> list[BitVec]         (one term per destination, width = 8*dest_size)

Operands are one element each (width 8*size from the opcode table).  Memory-order conventions are little endian
(this host): "first half" = low half.  Loads/stores/accumulators/resampling are handled by the program-level
composition (engines/oracle.py); here they are the element function only.

Decisions where the documents are terse are listed in DECISIONS and copied into the C02 evidence.
"""
import z3

DECISIONS = [
    'andn*: (~a) & b (opcodes.xml table prints "a & (~b)"; every implementation and the SSE/MMX pandn rule complement the FIRST operand) - documentation defect, reference follows the implementations',
    'mulhs*/mulhu*: high half of the double-width product (table prints ">> 16" for the 32-bit forms; prose says "high bits") - documentation defect',
    'cmplt*/cmple* (float/double): a < b / a <= b (table pseudo code prints "a == b") - documentation defect',
    'ldresnear*: array[(b + c*i) >> 16] (table prints ">> 8"; all implementations use 16 fractional bits) - documentation defect',
    'avg*: (a + b + 1) >> 1 computed on the sum widened by one bit',
    'sign*: clamp(a, -1, 1)',
    'divluw: 255 when the low byte of the divisor is 0, else min(255, a / (b & 255)) unsigned',
    'div255w: exact unsigned a / 255',
    'convus*: source unsigned, clamp to the signed maximum of the destination; convsu*: source signed, clamp to [0, unsigned max]',
    'convussql/convuusql: as implemented, the 64-bit source is taken as signed by ORC_CLAMP_SL/UL on (orc_uint64) - the reference uses unsigned source semantics as documented; see C02 findings if they differ',
    'select0*: the half first in memory (low half), select1*: the other; merge*: first source in the low half; split*: FIRST destination gets the HIGH half, second the low half',
    'swapw/l/q reverse bytes; swapwl/swaplq exchange halves; splatbw/splatbl replicate the byte; splatw3q replicates the top 16 bits',
    'shifts: the scalar operand is used as given; the reference is asserted only for 0 <= b < width',
    'float/double arithmetic: inputs with a zero exponent field are flushed to signed zero, IEEE-754 RNE operation, result flushed; comparisons give all-ones/zero (false if unordered)',
    'min/max (float/double): flush inputs; if the first operand is NaN return it, else if the second is NaN return it, else the smaller/larger (a < b ? a : b  /  a > b ? a : b)',
    'convfl/convdl: truncate toward zero; out of range or NaN gives 0x80000000 when the source sign bit is set, else 0x7fffffff',
    'sqrtf = (float) sqrt((double) a): identical to the correctly rounded single-precision root by the double-rounding theorem (53 >= 2*24+2)',
    'convlf/convld/convwf: exact or RNE conversion of the signed integer; convfd: flush input, exact widening; convdf: flush input, RNE narrowing, flush result',
]


def sx(v, w):
    return z3.SignExt(w - v.size(), v) if w > v.size() else v


def zx(v, w):
    return z3.ZeroExt(w - v.size(), v) if w > v.size() else v


def lo(v, w):
    return z3.Extract(w - 1, 0, v)


def hi(v, w):
    return z3.Extract(v.size() - 1, v.size() - w, v)


def clamp_s(x, w):
    """signed clamp of a wide signed term x to w bits"""
    W = x.size()
    mx = z3.BitVecVal((1 << (w - 1)) - 1, W)
    mn = z3.BitVecVal(-(1 << (w - 1)), W)
    return lo(z3.If(x > mx, mx, z3.If(x < mn, mn, x)), w)


def clamp_u(x, w):
    """clamp of a wide *signed* term x to [0, 2^w-1]"""
    W = x.size()
    mx = z3.BitVecVal((1 << w) - 1, W)
    z = z3.BitVecVal(0, W)
    return lo(z3.If(x > mx, mx, z3.If(x < z, z, x)), w)


def mask(c, w):
    return z3.If(c, z3.BitVecVal(-1, w), z3.BitVecVal(0, w))


def bswap(v):
    n = v.size() // 8
    return z3.Concat(*[z3.Extract(8 * i + 7, 8 * i, v) for i in range(n)])


# ---------------------------------------------------------------- floating point helpers
F32 = z3.Float32()
F64 = z3.Float64()
RNE = z3.RNE()
RTZ = z3.RTZ()


def flush32(b):
    return z3.If(z3.Extract(30, 23, b) == 0, b & z3.BitVecVal(0xff800000, 32), b)


def flush64(b):
    return z3.If(z3.Extract(62, 52, b) == 0, b & z3.BitVecVal(0xfff0000000000000, 64), b)


def isnan32(b):
    return z3.And(z3.Extract(30, 23, b) == 0xff, z3.Extract(22, 0, b) != 0)


def isnan64(b):
    return z3.And(z3.Extract(62, 52, b) == 0x7ff, z3.Extract(51, 0, b) != 0)


def fp(b):
    return z3.fpBVToFP(b, F32 if b.size() == 32 else F64)


def fbits(f):
    return z3.fpToIEEEBV(f)


def flush(b):
    return flush32(b) if b.size() == 32 else flush64(b)


def isnan(b):
    return isnan32(b) if b.size() == 32 else isnan64(b)


def fbin(op):
    def f(s, ctx=None):
        a, b = flush(s[0]), flush(s[1])
        r = op(RNE, fp(a), fp(b))
        return [flush(fbits(r))]
    return f


def fsqrt(s, ctx=None):
    a = flush(s[0])
    if a.size() == 32:
        # single precision: sqrt of the value widened to double, rounded back.  Equal to the correctly rounded single
        # square root (double rounding is innocuous for sqrt when 53 >= 2*24+2); written this way because the C
        # implementations call the double sqrt().
        r = z3.fpFPToFP(RNE, z3.fpSqrt(RNE, z3.fpFPToFP(RNE, fp(a), F64)), F32)
        return [flush(fbits(r))]
    return [flush(fbits(z3.fpSqrt(RNE, fp(a))))]


def fcmp(pred):
    def f(s, ctx=None):
        a, b = flush(s[0]), flush(s[1])
        return [mask(pred(fp(a), fp(b)), s[0].size())]
    return f


def fminmax(is_min):
    def f(s, ctx=None):
        a, b = flush(s[0]), flush(s[1])
        c = z3.fpLT(fp(a), fp(b)) if is_min else z3.fpGT(fp(a), fp(b))
        return [z3.If(isnan(a), a, z3.If(isnan(b), b, z3.If(c, a, b)))]
    return f


def f2i(s, ctx=None):
    """convfl / convdl"""
    a = s[0]
    f = fp(a)
    sign = z3.Extract(a.size() - 1, a.size() - 1, a) == 1
    t = z3.fpRoundToIntegral(RTZ, f)
    lim = z3.FPVal(2147483648.0, f.sort())
    inrange = z3.And(z3.Not(z3.fpIsNaN(f)), z3.Not(z3.fpIsInf(f)), z3.fpLT(t, lim), z3.fpGEQ(t, z3.fpNeg(lim)))
    conv = z3.fpToSBV(RTZ, f, z3.BitVecSort(32))
    return [z3.If(inrange, conv, z3.If(sign, z3.BitVecVal(0x80000000, 32), z3.BitVecVal(0x7fffffff, 32)))]


def i2f(dst):
    def f(s, ctx=None):
        return [fbits(z3.fpSignedToFP(RNE, s[0], dst))]
    return f


def convfd(s, ctx=None):
    return [fbits(z3.fpFPToFP(RNE, fp(flush32(s[0])), F64))]


def convdf(s, ctx=None):
    return [flush32(fbits(z3.fpFPToFP(RNE, fp(flush64(s[0])), F32)))]


# ---------------------------------------------------------------- integer families
REF = {}


def family(suffix, w):
    W = 2 * w
    def s2(a, b):
        return sx(a, W), sx(b, W)

    def u2(a, b):
        return zx(a, W), zx(b, W)
    R = REF
    if w <= 32:
        R['abs' + suffix] = lambda s, c=None: [z3.If(s[0] < 0, -s[0], s[0])]
        R['addss' + suffix] = lambda s, c=None: [clamp_s(sx(s[0], W) + sx(s[1], W), w)]
        R['addus' + suffix] = lambda s, c=None: [clamp_u(zx(s[0], W) + zx(s[1], W), w)]
        R['subss' + suffix] = lambda s, c=None: [clamp_s(sx(s[0], W) - sx(s[1], W), w)]
        R['subus' + suffix] = lambda s, c=None: [clamp_u(zx(s[0], W) - zx(s[1], W), w)]
        R['avgs' + suffix] = lambda s, c=None: [lo((sx(s[0], w + 2) + sx(s[1], w + 2) + 1) >> 1, w)]
        R['avgu' + suffix] = lambda s, c=None: [lo(z3.LShR(zx(s[0], w + 2) + zx(s[1], w + 2) + 1, 1), w)]
        R['maxs' + suffix] = lambda s, c=None: [z3.If(s[0] > s[1], s[0], s[1])]
        R['maxu' + suffix] = lambda s, c=None: [z3.If(z3.UGT(s[0], s[1]), s[0], s[1])]
        R['mins' + suffix] = lambda s, c=None: [z3.If(s[0] < s[1], s[0], s[1])]
        R['minu' + suffix] = lambda s, c=None: [z3.If(z3.ULT(s[0], s[1]), s[0], s[1])]
        R['mull' + suffix] = lambda s, c=None: [s[0] * s[1]]
        R['mulhs' + suffix] = lambda s, c=None: [hi(sx(s[0], W) * sx(s[1], W), w)]
        R['mulhu' + suffix] = lambda s, c=None: [hi(zx(s[0], W) * zx(s[1], W), w)]
        R['sign' + suffix] = lambda s, c=None: [z3.If(s[0] > 0, z3.BitVecVal(1, w), z3.If(s[0] < 0, z3.BitVecVal(-1, w), z3.BitVecVal(0, w)))]
    R['add' + suffix] = lambda s, c=None: [s[0] + s[1]]
    R['sub' + suffix] = lambda s, c=None: [s[0] - s[1]]
    R['and' + suffix] = lambda s, c=None: [s[0] & s[1]]
    R['andn' + suffix] = lambda s, c=None: [(~s[0]) & s[1]]
    R['or' + suffix] = lambda s, c=None: [s[0] | s[1]]
    R['xor' + suffix] = lambda s, c=None: [s[0] ^ s[1]]
    R['cmpeq' + suffix] = lambda s, c=None: [mask(s[0] == s[1], w)]
    R['cmpgts' + suffix] = lambda s, c=None: [mask(s[0] > s[1], w)]
    R['copy' + suffix] = lambda s, c=None: [s[0]]
    # shifts: scalar operand has the element's size in the opcode table
    R['shl' + suffix] = lambda s, c=None: [s[0] << zx(lo(s[1], min(w, s[1].size())), w)]
    R['shrs' + suffix] = lambda s, c=None: [s[0] >> zx(lo(s[1], min(w, s[1].size())), w)]
    R['shru' + suffix] = lambda s, c=None: [z3.LShR(s[0], zx(lo(s[1], min(w, s[1].size())), w))]
    R['load' + suffix] = lambda s, c=None: [s[0]]
    R['store' + suffix] = lambda s, c=None: [s[0]]
    R['loadp' + suffix] = lambda s, c=None: [lo(s[0], w)]
    if w <= 32:
        R['loadoff' + suffix] = lambda s, c=None: [s[0]]


for _s, _w in (('b', 8), ('w', 16), ('l', 32), ('q', 64)):
    family(_s, _w)

SHIFT_OPS = set(n for n in REF if n[:3] in ('shl', 'shr'))

R = REF
R['div255w'] = lambda s, c=None: [z3.UDiv(s[0], z3.BitVecVal(255, 16))]
R['divluw'] = lambda s, c=None: [z3.If(lo(s[1], 8) == 0, z3.BitVecVal(255, 16),
                                       z3.If(z3.UGT(z3.UDiv(s[0], zx(lo(s[1], 8), 16)), 255), z3.BitVecVal(255, 16), z3.UDiv(s[0], zx(lo(s[1], 8), 16))))]
# widening / narrowing conversions
R['convsbw'] = lambda s, c=None: [sx(s[0], 16)]
R['convubw'] = lambda s, c=None: [zx(s[0], 16)]
R['convswl'] = lambda s, c=None: [sx(s[0], 32)]
R['convuwl'] = lambda s, c=None: [zx(s[0], 32)]
R['convslq'] = lambda s, c=None: [sx(s[0], 64)]
R['convulq'] = lambda s, c=None: [zx(s[0], 64)]
R['convwb'] = lambda s, c=None: [lo(s[0], 8)]
R['convlw'] = lambda s, c=None: [lo(s[0], 16)]
R['convql'] = lambda s, c=None: [lo(s[0], 32)]
R['convhwb'] = lambda s, c=None: [hi(s[0], 8)]
R['convhlw'] = lambda s, c=None: [hi(s[0], 16)]
for _n, _sw, _dw in (('wb', 16, 8), ('lw', 32, 16), ('ql', 64, 32)):
    R['convsss' + _n] = (lambda dw: lambda s, c=None: [clamp_s(s[0], dw)])(_dw)
    R['convsus' + _n] = (lambda dw: lambda s, c=None: [clamp_u(s[0], dw)])(_dw)
    R['convuss' + _n] = (lambda dw: lambda s, c=None: [z3.If(z3.UGT(s[0], (1 << (dw - 1)) - 1), z3.BitVecVal((1 << (dw - 1)) - 1, dw), lo(s[0], dw))])(_dw)
    R['convuus' + _n] = (lambda dw: lambda s, c=None: [z3.If(z3.UGT(s[0], (1 << dw) - 1), z3.BitVecVal((1 << dw) - 1, dw), lo(s[0], dw))])(_dw)
R['mulsbw'] = lambda s, c=None: [sx(s[0], 16) * sx(s[1], 16)]
R['mulubw'] = lambda s, c=None: [zx(s[0], 16) * zx(s[1], 16)]
R['mulswl'] = lambda s, c=None: [sx(s[0], 32) * sx(s[1], 32)]
R['muluwl'] = lambda s, c=None: [zx(s[0], 32) * zx(s[1], 32)]
R['mulslq'] = lambda s, c=None: [sx(s[0], 64) * sx(s[1], 64)]
R['mululq'] = lambda s, c=None: [zx(s[0], 64) * zx(s[1], 64)]
# byte order
R['swapw'] = lambda s, c=None: [bswap(s[0])]
R['swapl'] = lambda s, c=None: [bswap(s[0])]
R['swapq'] = lambda s, c=None: [bswap(s[0])]
R['swapwl'] = lambda s, c=None: [z3.Concat(lo(s[0], 16), hi(s[0], 16))]
R['swaplq'] = lambda s, c=None: [z3.Concat(lo(s[0], 32), hi(s[0], 32))]
R['select0wb'] = lambda s, c=None: [lo(s[0], 8)]
R['select1wb'] = lambda s, c=None: [hi(s[0], 8)]
R['select0lw'] = lambda s, c=None: [lo(s[0], 16)]
R['select1lw'] = lambda s, c=None: [hi(s[0], 16)]
R['select0ql'] = lambda s, c=None: [lo(s[0], 32)]
R['select1ql'] = lambda s, c=None: [hi(s[0], 32)]
R['mergebw'] = lambda s, c=None: [z3.Concat(s[1], s[0])]
R['mergewl'] = lambda s, c=None: [z3.Concat(s[1], s[0])]
R['mergelq'] = lambda s, c=None: [z3.Concat(s[1], s[0])]
R['splitwb'] = lambda s, c=None: [hi(s[0], 8), lo(s[0], 8)]
R['splitlw'] = lambda s, c=None: [hi(s[0], 16), lo(s[0], 16)]
R['splitql'] = lambda s, c=None: [hi(s[0], 32), lo(s[0], 32)]
R['splatbw'] = lambda s, c=None: [z3.Concat(s[0], s[0])]
R['splatbl'] = lambda s, c=None: [z3.Concat(s[0], s[0], s[0], s[0])]
R['splatw3q'] = lambda s, c=None: [z3.Concat(hi(s[0], 16), hi(s[0], 16), hi(s[0], 16), hi(s[0], 16))]
# accumulators: element contribution (the sum modulo 2^16 / 2^32 from zero is composed by the oracle)
R['accw'] = lambda s, c=None: [s[0]]
R['accl'] = lambda s, c=None: [s[0]]
R['accsadubl'] = lambda s, c=None: [zx(z3.If(z3.UGT(s[0], s[1]), s[0] - s[1], s[1] - s[0]), 32)]
# float / double
R['addf'] = fbin(z3.fpAdd); R['subf'] = fbin(z3.fpSub); R['mulf'] = fbin(z3.fpMul); R['divf'] = fbin(z3.fpDiv)
R['addd'] = fbin(z3.fpAdd); R['subd'] = fbin(z3.fpSub); R['muld'] = fbin(z3.fpMul); R['divd'] = fbin(z3.fpDiv)
R['sqrtf'] = fsqrt; R['sqrtd'] = fsqrt
R['minf'] = fminmax(True); R['maxf'] = fminmax(False); R['mind'] = fminmax(True); R['maxd'] = fminmax(False)
R['cmpeqf'] = fcmp(z3.fpEQ); R['cmpltf'] = fcmp(z3.fpLT); R['cmplef'] = fcmp(z3.fpLEQ)
R['cmpeqd'] = fcmp(z3.fpEQ); R['cmpltd'] = fcmp(z3.fpLT); R['cmpled'] = fcmp(z3.fpLEQ)
R['convfl'] = f2i; R['convdl'] = f2i
R['convlf'] = i2f(F32); R['convwf'] = i2f(F32); R['convld'] = i2f(F64)
R['convfd'] = convfd; R['convdf'] = convdf
R['orf'] = lambda s, c=None: [s[0] | s[1]]
R['andf'] = lambda s, c=None: [s[0] & s[1]]
# upsampling loads: element function given the two neighbouring source elements (a = array[i>>1], b = array[(i+1)>>1])
R['loadupdb'] = lambda s, c=None: [s[0]]
R['loadupib'] = lambda s, c=None: [lo(z3.LShR(zx(s[0], 10) + zx(s[1], 10) + 1, 1), 8)]

FLOAT_OPS = set('addf subf mulf divf sqrtf minf maxf cmpeqf cmpltf cmplef convfl convlf convwf addd subd muld divd sqrtd mind maxd cmpeqd cmpltd cmpled convdl convld convfd convdf'.split())
SPECIAL_LOADS = set('loadupdb loadupib ldresnearb ldresnearl ldreslinb ldreslinl loadoffb loadoffw loadoffl'.split())


def ldreslin_lane(a, b, f):
    """(a*(256-f) + b*f) >> 8 on unsigned bytes, f = bits 8..15 of the position"""
    A, B, Fz = zx(a, 18), zx(b, 18), zx(f, 18)
    return lo(z3.LShR(A * (256 - Fz) + B * Fz, 8), 8)
