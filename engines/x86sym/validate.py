"""Native validation of the instruction semantics (the trusted-base check).

For every (mnemonic, operand-shape) the decoder has seen in the dumps of the single-opcode family (sse / avx / mmx,
default and reduced flag sets) – plus a hand-assembled supplement covering the entries of Orc's x86 instruction table
that no program of the family reaches (rep movs, adc/sbb, shufps, vinsertf128 ...) – the real instruction bytes are
executed on the host CPU from N boundary-value + pseudo-random states and compared with the model in two ways:

  concrete   step() on a machine whose whole state is made of constants
  symbolic   step() once on a machine with symbolic data (registers, flags, vector registers, MXCSR DAZ/FTZ/status,
             memory bytes; only the registers forming effective addresses are concrete), then the concrete test state
             is substituted into the successor terms and the result simplified

Both must give exactly the CPU's GPRs, vector/MMX registers, MXCSR (bits 31:6 – the sticky exception flags are not
modelled), memory, and the flags the SDM defines for the instruction.  Control transfers are validated by their
condition only (`ret`: stack pointer and the loaded return address).

    python3-vt -m engines.x86sym.validate --all        full census (all flag sets), exit 0 iff no mismatch
    python3-vt -m engines.x86sym.validate --quick      default flag sets only

`validate(...)` returns the table as a dict for use as evidence.  Nothing is cached between runs; states are derived
from a seed (default 0) and the instruction bytes, so the run is reproducible.
"""
import argparse
import concurrent.futures as cf
import hashlib
import json
import os
import random
import shutil
import struct
import subprocess
import sys
import tempfile
import time

import z3

from . import decoder, family, semantics
from .decoder import Insn
from .machine import Machine, Memory, Region, Fault, Unmodelled, GPR64, FLAG_NAMES
from .explore import step

HERE = os.path.dirname(os.path.abspath(__file__))
BUF, STATE, CODE = 0x10000000, 0x20000000, 0x30000000
BUFSZ, STSZ, CODEMAX = 1024, 0x300, 28
FLAG_BITS = {'cf': 0, 'pf': 2, 'af': 4, 'zf': 6, 'sf': 7, 'of': 11}
DF_BIT = 10
STACK_TOP = BUF + 768
MOV_R15D_1 = bytes.fromhex('41bf01000000')

# ------------------------------------------------------------------------------------------------ supplement
SUPPLEMENT = '''
rep movsb
rep movsw
rep movsl
rep movsq
cld
std
adc %ecx,%eax
adc $5,%edx
adc (%rsi),%ebx
adc %rcx,%rax
sbb %ecx,%eax
sbb $5,%edx
sbb %rcx,%rax
sbb %eax,(%rsi)
add %rcx,%rax
add $0x10,%rax
add %eax,(%rsi)
sub $0x12345,%rax
sub %rax,%rcx
xor %eax,%eax
xor %rcx,%rdx
xor $0x55,%ecx
or %rcx,%rdx
or (%rsi),%edx
and %rcx,%rdx
and $0xf,%rdx
and %edx,(%rsi)
cmp $0x7,%rax
cmp %rcx,%rdx
cmp %ecx,%edx
cmpl $0x12345,(%rsi)
cmpq $0x5,(%rsi)
cmpb $0x5,(%rsi)
cmpw $0x5,(%rsi)
test %rax,%rax
test $0xff,%eax
testq $0x1,(%rsi)
testb $0x1,(%rsi)
inc %eax
incl (%rsi)
incq (%rsi)
inc %rcx
dec %eax
decl (%rsi)
dec %rcx
neg %eax
neg %rcx
not %eax
not %rcx
shl $3,%eax
shl %eax
shl $3,%rax
shl %cl,%eax
shl %cl,%rdx
shr $3,%eax
shr %eax
shr $33,%rax
shr %cl,%edx
sar $3,%rax
sar %rax
sar %cl,%edx
sar %cl,%rdx
sarl $2,(%rsi)
shll $2,(%rsi)
shrl $2,(%rsi)
rol $3,%eax
rol $8,%ax
ror $3,%eax
ror $8,%ax
ror %eax
rol %rax
imul %ecx,%eax
imul %rcx,%rax
imul $0x12,%ecx,%eax
imul $-3,(%rsi),%eax
imul $0x12345,%rcx,%rax
imul %ecx
imul %rcx
imulq (%rsi)
mul %ecx
mul %rcx
movzbl %cl,%eax
movzbl %ch,%eax
movzwl %cx,%eax
movzwl (%rsi),%eax
movsbl %cl,%eax
movsbl (%rsi),%eax
movswl %cx,%eax
movslq %ecx,%rax
movslq (%rsi),%rax
movzbq (%rsi),%rax
movsbq %cl,%rax
mov %cl,%al
mov %ah,%bl
mov %cx,%ax
mov %ax,(%rsi)
mov (%rsi),%ax
mov (%rsi),%al
movb $0x12,(%rsi)
movw $0x1234,(%rsi)
movl $0x12345678,(%rsi)
movq $-2,(%rsi)
movabs $0x123456789abcdef0,%rax
mov $-1,%rax
lea 0x10(%rax,%rcx,4),%edx
lea (%rax,%rax,2),%rax
lea -8(%rsi),%rsi
xchg %eax,%ecx
xchg %rax,%rcx
bswap %eax
bswap %rcx
cltq
cltd
cqto
leave
push %rax
push %r12
pop %rcx
pop %r13
push $0x12
ret
cmove %ecx,%eax
cmovne %rcx,%rax
cmovl (%rsi),%eax
cmovbe %ecx,%eax
sete %al
setg %cl
setb (%rsi)
setle %dl
jo 1f
jno 1f
jb 1f
jae 1f
je 1f
jne 1f
jbe 1f
ja 1f
js 1f
jns 1f
jp 1f
jnp 1f
jl 1f
jge 1f
jle 1f
jg 1f
jmp 1f
1:
shufps $0x1b,%xmm1,%xmm0
shufps $0xe4,%xmm2,%xmm2
vshufps $0x4e,%ymm2,%ymm1,%ymm0
shufpd $0x1,%xmm1,%xmm0
vshufpd $0x5,%ymm2,%ymm1,%ymm0
vinsertf128 $0x1,%xmm1,%ymm2,%ymm0
vinsertf128 $0x0,(%rsi),%ymm2,%ymm0
vinserti128 $0x1,%xmm1,%ymm2,%ymm0
vextracti128 $0x1,%ymm1,%xmm0
vextractf128 $0x0,%ymm1,(%rsi)
vperm2f128 $0x21,%ymm2,%ymm1,%ymm0
vperm2f128 $0x83,%ymm2,%ymm1,%ymm0
vperm2i128 $0x30,%ymm2,%ymm1,%ymm0
vpermq $0xd8,%ymm1,%ymm0
vpermpd $0x1b,%ymm1,%ymm0
vpblendd $0xa5,%ymm2,%ymm1,%ymm0
vpblendd $0x5,%xmm2,%xmm1,%xmm0
vblendpd $0x5,%ymm2,%ymm1,%ymm0
blendpd $0x1,%xmm1,%xmm0
blendps $0x5,%xmm1,%xmm0
vblendps $0xa5,%ymm2,%ymm1,%ymm0
pblendw $0xa5,%xmm1,%xmm0
vpblendw $0xa5,%ymm2,%ymm1,%ymm0
pblendvb %xmm0,%xmm1,%xmm2
vpblendvb %ymm3,%ymm2,%ymm1,%ymm0
blendvps %xmm0,%xmm1,%xmm2
vblendvps %ymm3,%ymm2,%ymm1,%ymm0
blendvpd %xmm0,%xmm1,%xmm2
vpbroadcastb (%rsi),%ymm0
vpbroadcastw (%rsi),%xmm0
vpbroadcastd %xmm1,%xmm0
vpbroadcastq (%rsi),%ymm0
vbroadcastss (%rsi),%ymm0
vbroadcastss %xmm1,%ymm0
vbroadcastsd (%rsi),%ymm0
vbroadcastf128 (%rsi),%ymm0
vbroadcasti128 (%rsi),%ymm0
vzeroall
pinsrd $0x1,%ecx,%xmm0
pinsrd $0x2,(%rsi),%xmm0
pinsrq $0x1,%rcx,%xmm0
vpinsrq $0x1,%rcx,%xmm1,%xmm0
pinsrb $0x5,%ecx,%xmm0
vpinsrb $0x5,%ecx,%xmm1,%xmm0
pinsrw $0x2,%ecx,%mm0
vpinsrw $0x3,%ecx,%xmm1,%xmm0
pextrd $0x1,%xmm0,%ecx
pextrd $0x2,%xmm0,(%rsi)
pextrq $0x1,%xmm0,%rcx
vpextrq $0x1,%xmm0,%rcx
vpextrd $0x3,%xmm0,%ecx
pextrb $0x5,%xmm0,%ecx
pextrw $0x5,%xmm0,%ecx
pextrw $0x2,%mm0,%ecx
vpextrw $0x5,%xmm0,%ecx
vpextrb $0x9,%xmm0,%ecx
palignr $0x5,%xmm1,%xmm0
palignr $0x13,%xmm1,%xmm0
palignr $0x3,%mm1,%mm0
palignr $0xb,%mm1,%mm0
vpalignr $0x5,%ymm2,%ymm1,%ymm0
vpalignr $0x15,%xmm2,%xmm1,%xmm0
pshufb %mm1,%mm0
vpshufb %ymm2,%ymm1,%ymm0
vpshufb %xmm2,%xmm1,%xmm0
phaddw %xmm1,%xmm0
phaddd %xmm1,%xmm0
phaddsw %xmm1,%xmm0
phsubw %xmm1,%xmm0
phsubd %xmm1,%xmm0
phsubsw %xmm1,%xmm0
phaddw %mm1,%mm0
phaddd %mm1,%mm0
phaddsw %mm1,%mm0
phsubw %mm1,%mm0
phsubd %mm1,%mm0
phsubsw %mm1,%mm0
vphaddw %ymm2,%ymm1,%ymm0
vphaddd %ymm2,%ymm1,%ymm0
vphaddsw %ymm2,%ymm1,%ymm0
vphsubw %ymm2,%ymm1,%ymm0
vphsubd %xmm2,%xmm1,%xmm0
vphsubsw %ymm2,%ymm1,%ymm0
pmaddwd %xmm1,%xmm0
pmaddwd %mm1,%mm0
vpmaddwd %ymm2,%ymm1,%ymm0
pmaddubsw %xmm1,%xmm0
pmaddubsw %mm1,%mm0
vpmaddubsw %ymm2,%ymm1,%ymm0
pmulhrsw %xmm1,%xmm0
pmulhrsw %mm1,%mm0
vpmulhrsw %ymm2,%ymm1,%ymm0
psignb %mm1,%mm0
psignw %mm1,%mm0
psignd %mm1,%mm0
phminposuw %xmm1,%xmm0
vphminposuw %xmm1,%xmm0
pmovsxbd %xmm1,%xmm0
pmovsxbq %xmm1,%xmm0
pmovsxwq %xmm1,%xmm0
pmovzxbd %xmm1,%xmm0
pmovzxbq %xmm1,%xmm0
pmovzxwq %xmm1,%xmm0
pmovsxbw (%rsi),%xmm0
pmovzxwd (%rsi),%xmm0
vpmovsxbd %xmm1,%ymm0
vpmovzxbq %xmm1,%ymm0
vpmovsxwq %xmm1,%ymm0
vpmovzxbd (%rsi),%ymm0
pmovmskb %xmm1,%eax
pmovmskb %mm1,%eax
vpmovmskb %ymm1,%eax
punpckhwd %xmm1,%xmm0
punpckhdq %xmm1,%xmm0
punpckhqdq %xmm1,%xmm0
punpckhbw %mm1,%mm0
punpckhwd %mm1,%mm0
punpckhdq %mm1,%mm0
vpunpckhqdq %ymm2,%ymm1,%ymm0
unpcklps %xmm1,%xmm0
unpckhps %xmm1,%xmm0
unpcklpd %xmm1,%xmm0
unpckhpd %xmm1,%xmm0
vunpcklps %ymm2,%ymm1,%ymm0
vunpckhpd %ymm2,%ymm1,%ymm0
psrldq $0x3,%xmm0
psrldq $0x11,%xmm0
vpsrldq $0x5,%ymm1,%ymm0
vpslldq $0x5,%ymm1,%ymm0
pslldq $0x10,%xmm0
psrlq $0x5,%mm0
psrlq %mm1,%mm0
psllq %mm1,%mm0
psrlq (%rsi),%mm0
psllw (%rsi),%xmm0
vpsrlw (%rsi),%ymm1,%ymm0
psraw $0x11,%xmm0
psrlw $0x10,%xmm0
pslld $0x20,%xmm0
psllq $0x40,%xmm0
psrad $0xff,%xmm0
paddq %mm1,%mm0
psubq %mm1,%mm0
pmuludq %mm1,%mm0
paddw (%rsi),%xmm0
paddw (%rsi),%mm0
vpaddw (%rsi),%ymm1,%ymm0
pxor (%rsi),%xmm0
movntdq %xmm0,(%rsi)
vmovntdq %ymm0,(%rsi)
movntq %mm0,(%rsi)
movaps %xmm1,%xmm0
movaps (%rsi),%xmm0
movups %xmm0,(%rsi)
movapd %xmm1,%xmm0
movupd (%rsi),%xmm0
vmovaps %ymm1,%ymm0
vmovups (%rsi),%ymm0
vmovupd %ymm0,(%rsi)
lddqu (%rsi),%xmm0
vlddqu (%rsi),%ymm0
movhps %xmm0,(%rsi)
movlps (%rsi),%xmm0
movlps %xmm0,(%rsi)
movhpd (%rsi),%xmm0
movlpd (%rsi),%xmm0
vmovhps (%rsi),%xmm1,%xmm0
vmovlps (%rsi),%xmm1,%xmm0
movq %xmm1,%xmm0
movq %rax,%xmm0
movq %xmm0,%rax
movq %rax,%mm0
movq %mm0,%rax
vmovq %xmm1,%xmm0
vmovq %rax,%xmm0
vmovq %xmm0,%rax
vmovd %xmm0,%eax
movd %xmm0,%eax
movd %mm0,(%rsi)
movq2dq %mm1,%xmm0
movdq2q %xmm1,%mm0
andnps %xmm1,%xmm0
xorps %xmm1,%xmm0
andpd %xmm1,%xmm0
andnpd %xmm1,%xmm0
orpd %xmm1,%xmm0
xorpd %xmm1,%xmm0
vandnps %ymm2,%ymm1,%ymm0
vxorps %ymm2,%ymm1,%ymm0
vxorpd %ymm2,%ymm1,%ymm0
cmpunordps %xmm1,%xmm0
cmpneqps %xmm1,%xmm0
cmpnltps %xmm1,%xmm0
cmpnleps %xmm1,%xmm0
cmpordps %xmm1,%xmm0
cmpunordpd %xmm1,%xmm0
cmpneqpd %xmm1,%xmm0
cmpnltpd %xmm1,%xmm0
cmpnlepd %xmm1,%xmm0
cmpordpd %xmm1,%xmm0
vcmpgeps %ymm2,%ymm1,%ymm0
vcmpgtpd %ymm2,%ymm1,%ymm0
vcmpneq_oqps %ymm2,%ymm1,%ymm0
vcmpngeps %ymm2,%ymm1,%ymm0
vcmptrueps %ymm2,%ymm1,%ymm0
vcmpfalsepd %ymm2,%ymm1,%ymm0
vcmpeq_uqps %ymm2,%ymm1,%ymm0
vcmpngtpd %ymm2,%ymm1,%ymm0
cvtps2dq %xmm1,%xmm0
cvtpd2dq %xmm1,%xmm0
vcvtps2dq %ymm1,%ymm0
vcvtpd2dq %ymm1,%xmm0
addss %xmm1,%xmm0
subss %xmm1,%xmm0
mulss %xmm1,%xmm0
divss %xmm1,%xmm0
minss %xmm1,%xmm0
maxss %xmm1,%xmm0
sqrtss %xmm1,%xmm0
addsd %xmm1,%xmm0
subsd %xmm1,%xmm0
mulsd %xmm1,%xmm0
divsd %xmm1,%xmm0
minsd %xmm1,%xmm0
maxsd %xmm1,%xmm0
sqrtsd %xmm1,%xmm0
mulss (%rsi),%xmm0
addb %cl,%al
addw %cx,%ax
addb $0x7f,(%rsi)
addw $0x7fff,(%rsi)
adcb %cl,%al
adcw $0x1,%ax
sbbb %cl,%al
sbbw %cx,(%rsi)
subb %cl,%al
subw $0x8000,%ax
andb $0xf,%al
andw %cx,%ax
orb %cl,(%rsi)
orw $0xff,%ax
xorb %ch,%al
xorw %cx,%ax
testw %cx,%ax
testw $0x8000,(%rsi)
incb %al
incw %ax
decb (%rsi)
decw %ax
negb %al
negw %ax
negl (%rsi)
negq (%rsi)
notb %al
notw %ax
notl (%rsi)
notq (%rsi)
shlb $3,%al
shlb %cl,%al
shlw $5,%ax
shlw %cl,%ax
shrb $3,%al
shrb %cl,%al
shrw $5,%ax
shrw %cl,%ax
sarb $3,%al
sarb %cl,%al
sarw $5,%ax
sarw %cl,%ax
sarq $3,(%rsi)
shlq $3,(%rsi)
shrq %cl,(%rsi)
rolb $3,%al
rolw $3,%ax
roll $3,(%rsi)
rolq $3,(%rsi)
rorb $3,%al
rorw $3,%ax
rorl $3,(%rsi)
rorq $35,(%rsi)
imul %cx,%ax
imul $0x12,%cx,%ax
imulw (%rsi)
mul %cx
mull (%rsi)
mulq (%rsi)
movsbw %cl,%ax
movzbw %cl,%ax
movswq %cx,%rax
movzwq (%rsi),%rax
movsb
movsw
movsl
movntdqa (%rsi),%xmm0
vmovntdqa (%rsi),%ymm0
movntps %xmm0,(%rsi)
movntpd %xmm0,(%rsi)
vmovntps %ymm0,(%rsi)
vmovntpd %ymm0,(%rsi)
vmovapd %ymm1,%ymm0
vmovhpd (%rsi),%xmm1,%xmm0
vmovlpd (%rsi),%xmm1,%xmm0
vandpd %ymm2,%ymm1,%ymm0
vandnpd %ymm2,%ymm1,%ymm0
vorpd %ymm2,%ymm1,%ymm0
vunpckhps %ymm2,%ymm1,%ymm0
vunpcklpd %ymm2,%ymm1,%ymm0
vpmovsxbq %xmm1,%ymm0
vpmovzxwq %xmm1,%ymm0
vaddss %xmm2,%xmm1,%xmm0
vsubss %xmm2,%xmm1,%xmm0
vmulss %xmm2,%xmm1,%xmm0
vdivss %xmm2,%xmm1,%xmm0
vminss %xmm2,%xmm1,%xmm0
vmaxss %xmm2,%xmm1,%xmm0
vsqrtss %xmm2,%xmm1,%xmm0
vaddsd %xmm2,%xmm1,%xmm0
vsubsd %xmm2,%xmm1,%xmm0
vmulsd %xmm2,%xmm1,%xmm0
vdivsd %xmm2,%xmm1,%xmm0
vminsd %xmm2,%xmm1,%xmm0
vmaxsd %xmm2,%xmm1,%xmm0
vsqrtsd %xmm2,%xmm1,%xmm0
cmpps $0x3,%xmm1,%xmm0
cmppd $0x6,%xmm1,%xmm0
vcmpeqps %ymm2,%ymm1,%ymm0
vcmpeqpd %xmm2,%xmm1,%xmm0
vcmpltps %ymm2,%ymm1,%ymm0
vcmpltpd %xmm2,%xmm1,%xmm0
vcmpleps %ymm2,%ymm1,%ymm0
vcmplepd %xmm2,%xmm1,%xmm0
vcmpunordps %ymm2,%ymm1,%ymm0
vcmpunordpd %xmm2,%xmm1,%xmm0
vcmpneqps %ymm2,%ymm1,%ymm0
vcmpneqpd %xmm2,%xmm1,%xmm0
vcmpnltps %ymm2,%ymm1,%ymm0
vcmpnltpd %xmm2,%xmm1,%xmm0
vcmpnleps %ymm2,%ymm1,%ymm0
vcmpnlepd %xmm2,%xmm1,%xmm0
vcmpordps %ymm2,%ymm1,%ymm0
vcmpordpd %xmm2,%xmm1,%xmm0
vcmpeq_uqps %ymm2,%ymm1,%ymm0
vcmpeq_uqpd %xmm2,%xmm1,%xmm0
vcmpngeps %ymm2,%ymm1,%ymm0
vcmpngepd %xmm2,%xmm1,%xmm0
vcmpngtps %ymm2,%ymm1,%ymm0
vcmpngtpd %xmm2,%xmm1,%xmm0
vcmpfalseps %ymm2,%ymm1,%ymm0
vcmpfalsepd %xmm2,%xmm1,%xmm0
vcmpneq_oqps %ymm2,%ymm1,%ymm0
vcmpneq_oqpd %xmm2,%xmm1,%xmm0
vcmpgeps %ymm2,%ymm1,%ymm0
vcmpgepd %xmm2,%xmm1,%xmm0
vcmpgtps %ymm2,%ymm1,%ymm0
vcmpgtpd %xmm2,%xmm1,%xmm0
vcmptrueps %ymm2,%ymm1,%ymm0
vcmptruepd %xmm2,%xmm1,%xmm0
vcmpeq_osps %ymm2,%ymm1,%ymm0
vcmpeq_ospd %xmm2,%xmm1,%xmm0
vcmplt_oqps %ymm2,%ymm1,%ymm0
vcmplt_oqpd %xmm2,%xmm1,%xmm0
vcmple_oqps %ymm2,%ymm1,%ymm0
vcmple_oqpd %xmm2,%xmm1,%xmm0
vcmpunord_sps %ymm2,%ymm1,%ymm0
vcmpunord_spd %xmm2,%xmm1,%xmm0
vcmpneq_usps %ymm2,%ymm1,%ymm0
vcmpneq_uspd %xmm2,%xmm1,%xmm0
vcmpnlt_uqps %ymm2,%ymm1,%ymm0
vcmpnlt_uqpd %xmm2,%xmm1,%xmm0
vcmpnle_uqps %ymm2,%ymm1,%ymm0
vcmpnle_uqpd %xmm2,%xmm1,%xmm0
vcmpord_sps %ymm2,%ymm1,%ymm0
vcmpord_spd %xmm2,%xmm1,%xmm0
vcmpeq_usps %ymm2,%ymm1,%ymm0
vcmpeq_uspd %xmm2,%xmm1,%xmm0
vcmpnge_uqps %ymm2,%ymm1,%ymm0
vcmpnge_uqpd %xmm2,%xmm1,%xmm0
vcmpngt_uqps %ymm2,%ymm1,%ymm0
vcmpngt_uqpd %xmm2,%xmm1,%xmm0
vcmpfalse_osps %ymm2,%ymm1,%ymm0
vcmpfalse_ospd %xmm2,%xmm1,%xmm0
vcmpneq_osps %ymm2,%ymm1,%ymm0
vcmpneq_ospd %xmm2,%xmm1,%xmm0
vcmpge_oqps %ymm2,%ymm1,%ymm0
vcmpge_oqpd %xmm2,%xmm1,%xmm0
vcmpgt_oqps %ymm2,%ymm1,%ymm0
vcmpgt_oqpd %xmm2,%xmm1,%xmm0
vcmptrue_usps %ymm2,%ymm1,%ymm0
vcmptrue_uspd %xmm2,%xmm1,%xmm0
'''


def assemble_supplement(workdir):
    """Assemble SUPPLEMENT with `as`, return list[Insn] (one per source line that produced an instruction)."""
    src = os.path.join(workdir, 'supp.s')
    obj = os.path.join(workdir, 'supp.o')
    binf = os.path.join(workdir, 'supp.bin')
    with open(src, 'w') as f:
        f.write('.text\n' + SUPPLEMENT)
    subprocess.check_call(['as', '--64', src, '-o', obj])
    subprocess.check_call(['objcopy', '-O', 'binary', '-j', '.text', obj, binf])
    code = open(binf, 'rb').read()
    return decoder.decode(code)


# ------------------------------------------------------------------------------------------------ shape census
def collect_instances(exe, workdir, all_flag_sets=True, per_shape=4, targets=('sse', 'avx', 'mmx'), supplement=True):
    """-> dict shape -> list of (origin, Insn); at most `per_shape` byte-distinct instances per shape, chosen to
    maximise the variety of immediates / registers (first-seen order, deterministic)."""
    dflt = family.default_flags(exe)
    opcodes = family.load_opcodes(exe)
    shapes = {}
    seen = {}
    census = []

    def note(origin, insn):
        sh = insn.shape
        raws = seen.setdefault(sh, set())
        if insn.raw in raws:
            return
        lst = shapes.setdefault(sh, [])
        raws.add(insn.raw)
        # normalise jump displacement: one instance per opcode byte is enough
        if decoder.is_branch_mnem(insn.mnem):
            if any(i.raw[:1] == insn.raw[:1] and i.raw[:2][-1:] == insn.raw[:2][-1:] for _, i in lst) and len(insn.raw) < 5:
                return
        if len(lst) < per_shape:
            lst.append((origin, insn))
        elif len(lst) < 4 * per_shape:
            # keep a few more when the immediate operand differs from everything kept so far
            imm = [o for o in insn.ops if o.startswith('$')]
            if imm and all(imm != [o for o in i.ops if o.startswith('$')] for _, i in lst):
                lst.append((origin, insn))

    for t in targets:
        fam = family.family(opcodes, t)
        sets = family.reduced_flag_sets(t, dflt[t]) if all_flag_sets else [('default', dflt[t])]
        for fname, fl in sets:
            res = family.compile_family(exe, t, fl, recipes=fam, cwd=workdir)
            ok = [r for r in res if r.get('orccode') and r['orccode'].get('code')]
            dec = decoder.decode_many([bytes.fromhex(r['orccode']['code']) for r in ok])
            for r, ins in zip(ok, dec):
                for i in ins:
                    note('%s/%s/%s' % (t, fl, r['name']), i)
            census.append(dict(target=t, flagset=fname, flags=fl, programs=len(res), compiled=len(ok)))
    if supplement:
        for i in assemble_supplement(workdir):
            note('supplement', i)
    return shapes, census


# ------------------------------------------------------------------------------------------------ test states
F32_POOL = [0x00000000, 0x80000000, 0x3f800000, 0xbf800000, 0x7f800000, 0xff800000, 0x7fc00000, 0xffc00000, 0x7fa00000, 0xff812345,
            0x7fc12345, 0x00000001, 0x80000001, 0x007fffff, 0x807fffff, 0x00800000, 0x80800000, 0x00800001, 0x00ffffff, 0x7f7fffff,
            0xff7fffff, 0x4f000000, 0xcf000000, 0x4effffff, 0xcf000001, 0x3f000000, 0xbf000000, 0x3fc00000, 0x40200000, 0xbfc00000,
            0x3effffff, 0x3f000001, 0x20000000, 0x1f800000, 0x20400000, 0x5f000000, 0x00400000, 0x40000000, 0x3fffffff, 0x4b000001,
            0x4b7fffff, 0xcb000001, 0x40490fdb, 0x3eaaaaab, 0x01000000, 0x3f7fffff, 0x7e800000, 0x7f000000, 0x00c00000, 0x3f400000]
F64_POOL = [0x0000000000000000, 0x8000000000000000, 0x3ff0000000000000, 0xbff0000000000000, 0x7ff0000000000000, 0xfff0000000000000,
            0x7ff8000000000000, 0xfff8000000000000, 0x7ff4000000000000, 0xfff0000012345678, 0x7ff8000012345678, 0x0000000000000001,
            0x8000000000000001, 0x000fffffffffffff, 0x800fffffffffffff, 0x0010000000000000, 0x8010000000000000, 0x0010000000000001,
            0x001fffffffffffff, 0x7fefffffffffffff, 0xffefffffffffffff, 0x41e0000000000000, 0xc1e0000000000000, 0x41dfffffffc00000,
            0x41dfffffffe00000, 0xc1e0000000200000, 0x3fe0000000000000, 0xbfe0000000000000, 0x3ff8000000000000, 0x4004000000000000,
            0x3fdfffffffffffff, 0x2000000000000000, 0x1ff0000000000000, 0x43e0000000000000, 0x0008000000000000, 0x4000000000000000,
            0x380fffffffffffff, 0x3810000000000000, 0x36a0000000000000, 0x3690000000000000, 0x369fffffffffffff, 0x47efffffe0000000,
            0x47effffff0000000, 0x47f0000000000000, 0x3ff0000010000000, 0x3ff0000030000000, 0x400921fb54442d18, 0x3fd5555555555555,
            0x380ffffff0000000, 0x37f0000000000000, 0xc1e0000000100000, 0x41dfffffffdfffff]
# (a, b) pairs aimed at the FTZ / tininess / NaN-priority corner cases
F32_PAIRS = [(0x00800000, 0x3f000000), (0x00ffffff, 0x3f000000), (0x00800001, 0x3f7fffff), (0x20000000, 0x20000000), (0x20000000, 0x1f800000),
             (0x00000001, 0x00000001), (0x00800000, 0x80000001), (0x00800000, 0x807fffff), (0x7fa00000, 0x7fc12345), (0x7fc12345, 0x7fa00000),
             (0x7fa00001, 0xffa00002), (0x7f800000, 0xff800000), (0x7f800000, 0x00000000), (0x00000000, 0x80000000), (0x80000000, 0x00000000),
             (0x00000000, 0x00000000), (0x7f800000, 0x7f800000), (0x3f800000, 0x00000000), (0x00000001, 0x3f800000), (0x3f800000, 0x00000001),
             (0x007fffff, 0x40000000), (0x00800000, 0x3f400000), (0x01000000, 0x3e800000), (0x7f7fffff, 0x7f7fffff), (0x3f800000, 0x7fa00000),
             (0x7fa00000, 0x3f800000), (0x00400000, 0x00400000), (0x80400000, 0x00400000), (0x00c00000, 0x3f000000), (0x00800000, 0x3f7fffff),
             (0x00ffffff, 0x3effffff), (0x00800002, 0x3f7ffffe)]
F64_PAIRS = [(0x0010000000000000, 0x3fe0000000000000), (0x001fffffffffffff, 0x3fe0000000000000), (0x0010000000000001, 0x3fefffffffffffff),
             (0x2000000000000000, 0x2000000000000000), (0x2000000000000000, 0x1ff0000000000000), (0x0000000000000001, 0x0000000000000001),
             (0x0010000000000000, 0x8000000000000001), (0x0010000000000000, 0x800fffffffffffff), (0x7ff4000000000000, 0x7ff8000012345678),
             (0x7ff8000012345678, 0x7ff4000000000000), (0x7ff0000000000000, 0xfff0000000000000), (0x7ff0000000000000, 0x0000000000000000),
             (0x0000000000000000, 0x8000000000000000), (0x8000000000000000, 0x0000000000000000), (0x0000000000000000, 0x0000000000000000),
             (0x3ff0000000000000, 0x7ff4000000000000), (0x7ff4000000000000, 0x3ff0000000000000), (0x0000000000000001, 0x3ff0000000000000),
             (0x000fffffffffffff, 0x4000000000000000), (0x0008000000000000, 0x0008000000000000), (0x0010000000000000, 0x3fefffffffffffff),
             (0x001fffffffffffff, 0x3fdfffffffffffff), (0x7fefffffffffffff, 0x7fefffffffffffff), (0x3ff0000000000000, 0x0000000000000001)]
INT_POOL = {8: [0, 1, 0x7f, 0x80, 0xff, 0xfe, 0x81, 0x40, 2, 0x0f],
            16: [0, 1, 0x7fff, 0x8000, 0xffff, 0xfffe, 0x8001, 0x4000, 0x00ff, 0xff00, 0x0080, 0x7f, 0x100, 0xff80, 2],
            32: [0, 1, 0x7fffffff, 0x80000000, 0xffffffff, 0xfffffffe, 0x80000001, 0x40000000, 0xffff, 0x10000, 0x8000, 0x7fff, 0xffff8000,
                 0xffff7fff, 2, 0x00ff00ff],
            64: [0, 1, 0x7fffffffffffffff, 0x8000000000000000, 0xffffffffffffffff, 0xfffffffffffffffe, 0x8000000000000001, 0xffffffff,
                 0x100000000, 0x80000000, 0x7fffffff, 0xffffffff80000000, 0xffffffff7fffffff, 2]}
GPR_POOL = [0, 1, 2, 0xffffffffffffffff, 0x7fffffffffffffff, 0x8000000000000000, 0xffffffff, 0x80000000, 0x7fffffff, 0x100000000,
            0xffffffff80000000, 0x1f, 0x20, 0x3f, 0x40, 0xff, 0x8000, 0xffff, 0x10, 0x0f, 0x1234567890abcdef]


def fp_kind(mnem):
    """'f32' / 'f64' / None: what kind of data the vector *sources* of the instruction hold."""
    m = mnem[1:] if mnem.startswith('v') else mnem
    if m.startswith(('cvtdq2', 'p', 'mov', 'lddqu', 'unpck', 'shuf', 'blend', 'broadcast', 'insert', 'extract', 'perm', 'zero',
                     'and', 'or', 'xor', 'ldmxcsr', 'stmxcsr')):
        return None
    if m.startswith(('cvtps2', 'cvttps2')):
        return 'f32'
    if m.startswith(('cvtpd2', 'cvttpd2')):
        return 'f64'
    if m.endswith(('ps', 'ss')):
        return 'f32'
    if m.endswith(('pd', 'sd')) and not m.startswith(('cmps', 'movs')):
        return 'f64'
    return None


def int_lane_width(mnem):
    m = mnem[1:] if mnem.startswith('v') else mnem
    for pat, w in (('packssdw', 32), ('packusdw', 32), ('packsswb', 16), ('packuswb', 16), ('pmaddwd', 16), ('pmaddubsw', 8),
                   ('psadbw', 8), ('pmuludq', 32), ('pmuldq', 32), ('cvtdq2', 32)):
        if m.startswith(pat):
            return w
    if m.startswith('pmov') and len(m) >= 7:
        return {'b': 8, 'w': 16, 'd': 32}.get(m[6], 16)
    if m.startswith('p') and m[-1:] in 'bwdq' and not m.endswith(('dq',)):
        return {'b': 8, 'w': 16, 'd': 32, 'q': 64}[m[-1]]
    if m.endswith('bw'):
        return 8
    if m.endswith('wd'):
        return 16
    return 16


def _rand_vec(rng, nbytes, kind, lane_w):
    """nbytes of vector data: per lane a pool value (70 %) or random bits (30 %)."""
    out = bytearray()
    if kind == 'f32':
        pool, w = F32_POOL, 32
    elif kind == 'f64':
        pool, w = F64_POOL, 64
    else:
        pool, w = INT_POOL[lane_w], lane_w
    for _ in range(nbytes * 8 // w):
        if rng.random() < 0.7:
            v = rng.choice(pool)
            if kind is None and rng.random() < 0.3:
                v = (v + rng.choice([1, -1, 3])) & ((1 << w) - 1)
        else:
            v = rng.getrandbits(w)
        out += v.to_bytes(w // 8, 'little')
    return bytes(out)


class TestCase(object):
    __slots__ = ('code', 'gpr', 'flags', 'df', 'ymm', 'mm', 'mxcsr', 'buf', 'kind', 'aux')

    def pack(self):
        rfl = 0x202
        for f, b in FLAG_BITS.items():
            if self.flags[f]:
                rfl |= 1 << b
        if self.df:
            rfl |= 1 << DF_BIT
        st = bytearray(STSZ)
        for i, g in enumerate(GPR64):
            struct.pack_into('<Q', st, 8 * i, self.gpr[g])
        struct.pack_into('<Q', st, 0x80, rfl)
        struct.pack_into('<I', st, 0x88, self.mxcsr)
        for i in range(8):
            struct.pack_into('<Q', st, 0x90 + 8 * i, self.mm[i])
        for i in range(16):
            st[0x100 + 32 * i:0x120 + 32 * i] = self.ymm[i]
        code = self.code
        assert len(code) <= CODEMAX
        return struct.pack('<I', len(code)) + code.ljust(CODEMAX, b'\x90') + bytes(st) + bytes(self.buf)


class Outcome(object):
    __slots__ = ('status', 'gpr', 'flags', 'df', 'ymm', 'mm', 'mxcsr', 'buf')

    @staticmethod
    def unpack(b):
        o = Outcome()
        o.status = struct.unpack_from('<I', b, 0)[0]
        st = b[8:8 + STSZ]
        o.gpr = {g: struct.unpack_from('<Q', st, 8 * i)[0] for i, g in enumerate(GPR64)}
        rfl = struct.unpack_from('<Q', st, 0x80)[0]
        o.flags = {f: bool(rfl >> bit & 1) for f, bit in FLAG_BITS.items()}
        o.df = bool(rfl >> DF_BIT & 1)
        o.mxcsr = struct.unpack_from('<I', st, 0x88)[0]
        o.mm = [struct.unpack_from('<Q', st, 0x90 + 8 * i)[0] for i in range(8)]
        o.ymm = [bytes(st[0x100 + 32 * i:0x120 + 32 * i]) for i in range(16)]
        o.buf = bytes(b[8 + STSZ:8 + STSZ + BUFSZ])
        return o


OUT_REC = 8 + STSZ + BUFSZ


def _addr_regs(ops):
    regs = []
    for o in ops:
        if o.kind == 'mem':
            for r in (o.base, o.index):
                if r is not None and r not in regs:
                    regs.append(r)
    return regs


STRING_OPS = ('rep movsb', 'rep movsw', 'rep movsl', 'rep movsq', 'movsb', 'movsw', 'movsl')


def make_tests(insn, n_states, seed, pre_len):
    """Deterministic list of TestCase for one instruction instance."""
    h = hashlib.sha256(insn.raw + struct.pack('<I', seed)).digest()
    rng = random.Random(int.from_bytes(h[:8], 'little'))
    ops = semantics.parsed_ops(insn)
    mn = insn.mnem
    kind = fp_kind(mn)
    lw = int_lane_width(mn)
    is_branch = decoder.is_branch_mnem(mn)
    is_ret = mn in ('ret', 'retq')
    mems = [o for o in ops if o.kind == 'mem']
    needs_align = not mn.startswith('v') and any(o.kind == 'xmm' for o in ops) or 'movdqa' in mn or 'movap' in mn or 'movnt' in mn
    vec_srcs = [o for o in ops[:-1] if o.is_vec] if len(ops) > 1 else []
    code = insn.raw
    if is_branch:
        # replace the displacement: taken -> skip `mov $1,%r15d`
        raw = insn.raw
        if raw[0] == 0x0f:
            code = raw[:2] + struct.pack('<i', 6)
        elif raw[0] == 0xe9:
            code = raw[:1] + struct.pack('<i', 6)
        else:
            code = raw[:1] + b'\x06'
        code = code + MOV_R15D_1
    pair_ops = [ops[0], ops[1]] if len(ops) >= 2 else []
    n_pair = n_groups = lanes_used = 0
    if kind and len(pair_ops) == 2 and all(o.kind in ('xmm', 'ymm') for o in pair_ops) and pair_ops[0].idx != pair_ops[1].idx \
            and not mn.lstrip('v').startswith(('cvt', 'sqrt')):
        w_ = 4 if kind == 'f32' else 8
        scalar = mn.endswith(('ss', 'sd'))
        lanes_used = 1 if scalar else max(o.width for o in pair_ops) // (8 * w_)
        npairs = len(F32_PAIRS if kind == 'f32' else F64_PAIRS)
        n_groups = -(-npairs // lanes_used)
        n_pair = 2 * n_groups * 4          # every group, both operand orders, all four DAZ/FTZ combinations
    tests = []
    for k in range(n_pair + n_states):
        t = TestCase()
        t.code = code
        t.kind = 'branch' if is_branch else ('ret' if is_ret else 'plain')
        t.aux = None
        t.gpr = {}
        for g in GPR64:
            r = rng.random()
            t.gpr[g] = rng.choice(GPR_POOL) if r < 0.4 else (rng.getrandbits(64) if r < 0.8 else rng.getrandbits(32))
        t.gpr['rsp'] = STACK_TOP
        t.flags = {f: bool(rng.getrandbits(1)) for f in FLAG_NAMES}
        t.df = False
        t.mxcsr = 0x1f80 | (rng.getrandbits(1) << 6) | (rng.getrandbits(1) << 15) | (rng.getrandbits(2) << 13)
        if n_pair <= k < n_pair + 4:
            t.mxcsr = 0x1f80 | (((k - n_pair) & 1) << 6) | (((k - n_pair) >> 1) << 15)
        t.ymm = [_rand_vec(rng, 32, kind, lw) for _ in range(16)]
        t.mm = [int.from_bytes(_rand_vec(rng, 8, None, lw), 'little') for _ in range(8)]
        buf = bytearray(rng.getrandbits(8) for _ in range(BUFSZ))
        # hand-picked operand pairs for two-source FP instructions (b = ops[0], a = ops[1] in legacy and VEX forms):
        # the first n_pair states enumerate every pair group x every (DAZ, FTZ) combination, using only the lanes the
        # operand width really reads
        if k < n_pair:
            pairs = F32_PAIRS if kind == 'f32' else F64_PAIRS
            w = 4 if kind == 'f32' else 8
            grp, combo = divmod(k, 4)
            t.mxcsr = 0x1f80 | ((combo & 1) << 6) | ((combo >> 1) << 15) | ((grp % 4) << 13 if grp >= n_groups else 0)
            av, bv_ = bytearray(), bytearray()
            for j in range(32 // w):
                a, b = pairs[(grp * lanes_used + (j % lanes_used)) % len(pairs)]
                if (grp // n_groups) % 2:
                    a, b = b, a
                av += a.to_bytes(w, 'little')
                bv_ += b.to_bytes(w, 'little')
            t.ymm[pair_ops[1].idx] = bytes(av)
            t.ymm[pair_ops[0].idx] = bytes(bv_)
        # shift counts in vector registers: make the count small in most states
        if mn.lstrip('v').startswith(('psll', 'psrl', 'psra')) and ops and ops[0].is_vec and k % 4 != 3:
            c = rng.choice([0, 1, 2, 7, 8, 15, 16, 17, 31, 32, 33, 63, 64, 65])
            if ops[0].kind == 'mm':
                t.mm[ops[0].idx] = c
            else:
                t.ymm[ops[0].idx] = c.to_bytes(8, 'little') + t.ymm[ops[0].idx][8:]
        # memory operands: put the effective address into the window [BUF+128, BUF+512)
        for j, o in enumerate(mems):
            target = BUF + 128 + 64 * ((k + 3 * j) % 5)
            if not needs_align:
                target += (k * 7 + j) % 16
            idxv = 0
            if o.index is not None and o.index != o.base:
                idxv = rng.choice([0, 1, 2, 3, 5])
                t.gpr[o.index] = idxv
            if o.base is not None:
                if o.index == o.base:
                    t.gpr[o.base] = ((target - o.disp) // (1 + o.scale)) & 0xffffffffffffffff
                else:
                    t.gpr[o.base] = (target - o.disp - idxv * o.scale) & 0xffffffffffffffff
            ea = (o.disp + (t.gpr[o.base] if o.base else 0) + (t.gpr[o.index] * o.scale if o.index else 0)) & 0xffffffffffffffff
            off = ea - BUF
            if 0 <= off <= BUFSZ - 32:
                data = _rand_vec(rng, 32, kind, lw)
                if mn.lstrip('v').startswith(('psll', 'psrl', 'psra')) and k % 4 != 3:
                    data = rng.choice([0, 1, 5, 15, 16, 31, 32, 63, 64]).to_bytes(8, 'little') + data[8:]
                if 'ldmxcsr' in mn:
                    data = struct.pack('<I', 0x1f80 | (rng.getrandbits(1) << 6) | (rng.getrandbits(1) << 15) | (rng.getrandbits(2) << 13)) + data[4:]
                buf[off:off + 32] = data
        if mn in STRING_OPS:
            size = {'b': 1, 'w': 2, 'l': 4, 'q': 8}[mn[-1]]
            t.df = bool(k & 1)
            cnt = k % 6
            t.gpr['rcx'] = cnt
            if t.df:
                t.gpr['rsi'] = BUF + 128 + 64 - size + (k % 3)
                t.gpr['rdi'] = BUF + 320 + 64 - size + (k % 5)
            else:
                t.gpr['rsi'] = BUF + 128 + (k % 3)
                t.gpr['rdi'] = BUF + 320 + (k % 5)
        if mn == 'std' or mn == 'cld':
            t.df = bool(k & 1)
        if mn.startswith(('shl', 'shr', 'sar', 'sal')) and ops and ops[0].kind == 'gpr' and ops[0].reg == 'rcx' and len(ops) == 2:
            t.gpr['rcx'] = rng.choice([0, 1, 2, 5, 31, 32, 33, 63, 64, 0x100 | rng.getrandbits(5), rng.getrandbits(8)])
        if mn == 'leave':
            t.gpr['rbp'] = BUF + 600 + 8 * (k % 4)
        if is_branch:
            t.gpr['r15'] = 0
        if is_ret:
            struct.pack_into('<Q', buf, STACK_TOP - BUF, CODE + pre_len + len(code))
        t.buf = bytes(buf)
        tests.append(t)
    return tests


# ------------------------------------------------------------------------------------------------ native run
def build_runner(workdir):
    exe = os.path.join(workdir, 'tramp')
    subprocess.check_call(['gcc', '-O1', '-o', exe, os.path.join(HERE, 'tramp.c')])
    lay = json.loads(subprocess.check_output([exe, '--layout'], text=True))
    assert (lay['buf'], lay['state'], lay['code'], lay['bufsz'], lay['stsz'], lay['codemax']) == (BUF, STATE, CODE, BUFSZ, STSZ, CODEMAX)
    return exe, lay


def run_native(runner, tests):
    data = b''.join(t.pack() for t in tests)
    p = subprocess.run([runner], input=data, capture_output=True)
    if p.returncode != 0 or len(p.stdout) != OUT_REC * len(tests):
        raise RuntimeError('trampoline failed rc=%s out=%d expected=%d' % (p.returncode, len(p.stdout), OUT_REC * len(tests)))
    return [Outcome.unpack(p.stdout[i * OUT_REC:(i + 1) * OUT_REC]) for i in range(len(tests))]


# ------------------------------------------------------------------------------------------------ model side
def _bvv(v, w):
    return z3.BitVecVal(v, w)


def concrete_machine(t):
    buf = t.buf
    reg = Region('buf', BUF, 4096, True, default=lambda off: _bvv(buf[off] if 0 <= off < BUFSZ else 0, 8))
    m = Machine(Memory([reg]))
    for g in GPR64:
        m.gpr[g] = _bvv(t.gpr[g], 64)
    for f in FLAG_NAMES:
        m.flags[f] = z3.BoolVal(t.flags[f])
    m.df = z3.BoolVal(t.df)
    for i in range(16):
        m.ymm['ymm%d' % i] = _bvv(int.from_bytes(t.ymm[i], 'little'), 256)
    for i in range(8):
        m.mm['mm%d' % i] = _bvv(t.mm[i], 64)
    m.mxcsr = _bvv(t.mxcsr, 32)
    return m


def symbolic_machine(t, insn):
    """Symbolic data, concrete addresses (taken from test t).  Returns (machine, substitution builder)."""
    ops = semantics.parsed_ops(insn)
    conc = set(_addr_regs(ops)) | {'rsp'}
    mn = insn.mnem
    if mn in STRING_OPS:
        conc |= {'rcx', 'rsi', 'rdi'}
    if mn == 'leave':
        conc.add('rbp')
    created = {}

    def dflt(off):
        s = z3.BitVec('vbuf_%d' % off, 8)
        created[off] = s
        return s
    reg = Region('buf', BUF, 4096, True, default=dflt)
    m = Machine(Memory([reg]), prefix='v_')
    for g in conc:
        m.gpr[g] = _bvv(t.gpr[g], 64)
    m.df = z3.BoolVal(t.df)
    rc = (t.mxcsr >> 13) & 3
    m.mxcsr = z3.simplify(z3.Concat(_bvv(0, 16), z3.BitVec('v_ftz', 1), _bvv(rc, 2), _bvv(0x3f, 6), z3.BitVec('v_daz', 1),
                                    z3.BitVec('v_status', 6)))
    return m, conc, created


def substitution(t, conc, created):
    subs = []
    for g in GPR64:
        if g not in conc:
            subs.append((z3.BitVec('v_' + g, 64), _bvv(t.gpr[g], 64)))
    for f in FLAG_NAMES:
        subs.append((z3.Bool('v_' + f), z3.BoolVal(t.flags[f])))
    for i in range(16):
        subs.append((z3.BitVec('v_ymm%d' % i, 256), _bvv(int.from_bytes(t.ymm[i], 'little'), 256)))
    for i in range(8):
        subs.append((z3.BitVec('v_mm%d' % i, 64), _bvv(t.mm[i], 64)))
    subs.append((z3.BitVec('v_ftz', 1), _bvv(t.mxcsr >> 15 & 1, 1)))
    subs.append((z3.BitVec('v_daz', 1), _bvv(t.mxcsr >> 6 & 1, 1)))
    subs.append((z3.BitVec('v_status', 6), _bvv(t.mxcsr & 0x3f, 6)))
    for off, s in created.items():
        subs.append((s, _bvv(t.buf[off] if 0 <= off < BUFSZ else 0, 8)))
    return subs


def _has_undef(term):
    seen = set()
    stack = [term]
    while stack:
        x = stack.pop()
        i = x.get_id()
        if i in seen:
            continue
        seen.add(i)
        if z3.is_const(x) and x.decl().kind() == z3.Z3_OP_UNINTERPRETED and x.decl().name().startswith('undef_'):
            return True
        stack.extend(x.children())
    return False


def _const(term, subs):
    """-> ('v', int|bool) | ('undef',) | ('sym', str)"""
    if subs:
        term = z3.substitute(term, *subs)
    s = z3.simplify(term)
    if z3.is_bv_value(s):
        return ('v', s.as_long())
    if z3.is_true(s):
        return ('v', True)
    if z3.is_false(s):
        return ('v', False)
    if _has_undef(s):
        return ('undef',)
    return ('sym', str(s)[:200])


SKIPS = {'n': 0, 'names': set()}      # comparisons skipped because the model term is SDM-undefined (reported per row)


def compare_state(m, out, t, subs, undef, diffs, tag):
    """Compare model machine m (after the step) with the CPU outcome; append human readable differences."""
    def chk(name, term, expect, width=None):
        r = _const(term, subs)
        if r[0] == 'undef':
            SKIPS['n'] += 1
            SKIPS['names'].add(name if not name.startswith('mem[') else 'mem')
            return
        if r[0] == 'sym':
            diffs.append('%s %s: not constant: %s' % (tag, name, r[1]))
        elif r[1] != expect:
            if width:
                diffs.append('%s %s: model %0*x cpu %0*x' % (tag, name, width // 4, r[1], width // 4, expect))
            else:
                diffs.append('%s %s: model %s cpu %s' % (tag, name, r[1], expect))
    for g in GPR64:
        chk(g, m.gpr[g], out.gpr[g], 64)
    for f in FLAG_NAMES:
        if f in undef:
            SKIPS['n'] += 1
            SKIPS['names'].add(f)
            continue
        chk(f, m.flags[f], out.flags[f])
    chk('df', m.df, out.df)
    for i in range(16):
        chk('ymm%d' % i, m.ymm['ymm%d' % i], int.from_bytes(out.ymm[i], 'little'), 256)
    for i in range(8):
        chk('mm%d' % i, m.mm['mm%d' % i], out.mm[i], 64)
    chk('mxcsr[31:6]', z3.Extract(31, 6, m.mxcsr), out.mxcsr >> 6, 28)
    reg = m.mem.region('buf')
    for off in range(BUFSZ):
        b = reg.bytes.get(off)
        exp = out.buf[off]
        if b is None:
            if t.buf[off] != exp:
                diffs.append('%s mem[%d]: model untouched (%02x) cpu %02x' % (tag, off, t.buf[off], exp))
        else:
            chk('mem[%d]' % off, b, exp, 8)
    for off in reg.bytes:
        if not (0 <= off < BUFSZ):
            diffs.append('%s model touched memory outside the compared window: %d' % (tag, off))
            break


def check_instance(insn, tests, outs, pre_len):
    """-> (n_states_checked, diffs list, notes)"""
    diffs = []
    mn = insn.mnem
    is_branch = decoder.is_branch_mnem(mn)
    is_ret = mn in ('ret', 'retq')
    sym_cache = {}
    checked = 0
    for k, (t, out) in enumerate(zip(tests, outs)):
        if out.status != 0:
            diffs.append('state %d: CPU raised signal %d' % (k, out.status))
            continue
        checked += 1
        # ---------------- concrete
        try:
            m = concrete_machine(t)
            succ = step(m, insn)
        except (Unmodelled, Fault) as e:
            diffs.append('state %d concrete: %s' % (k, e))
            continue
        if is_branch:
            target = semantics.parsed_ops(insn)[0].val
            if len(succ) != 1:
                diffs.append('state %d: %d successors for concrete flags' % (k, len(succ)))
                continue
            taken_model = succ[0].pc == target and not (mn != 'jmp' and target == insn.addr + insn.size)
            if target == insn.addr + insn.size:
                continue
            taken_cpu = out.gpr['r15'] == 0
            if taken_model != taken_cpu:
                diffs.append('state %d: branch taken model %s cpu %s flags %s' % (k, taken_model, taken_cpu, t.flags))
            continue
        if mn in STRING_OPS and mn.startswith('rep'):
            # iterate the rep to completion
            cur = succ
            guard = 0
            while True:
                guard += 1
                if len(cur) != 1 or guard > 100:
                    diffs.append('state %d: rep did not resolve' % k)
                    break
                mm = cur[0]
                if mm.pc != insn.addr:
                    break
                cur = step(mm, insn)
            m = cur[0]
            compare_state(m, out, t, None, set(), diffs, 'state %d concrete' % k)
            continue
        m = succ[0]
        if is_ret:
            ra = _const(m.ret_addr, None)
            if ra != ('v', CODE + pre_len + len(t.code)):
                diffs.append('state %d: ret address %s' % (k, ra))
        compare_state(m, out, t, None, set(m.undef), diffs, 'state %d concrete' % k)
        # ---------------- symbolic + substitution
        key = ((t.mxcsr >> 13) & 3, t.df, tuple(sorted((g, t.gpr[g]) for g in _sym_key_regs(insn))))
        try:
            if key not in sym_cache:
                sm, conc, created = symbolic_machine(t, insn)
                ss = step(sm, insn)
                sym_cache[key] = (ss, conc, created)
            ss, conc, created = sym_cache[key]
        except (Unmodelled, Fault) as e:
            diffs.append('state %d symbolic: %s' % (k, e))
            continue
        subs = substitution(t, conc, created)
        live = []
        for s in ss:
            ok = True
            for c in s.pcnd:
                r = _const(c, subs)
                if r != ('v', True):
                    ok = False
            if ok:
                live.append(s)
        if len(live) != 1:
            diffs.append('state %d symbolic: %d live successors' % (k, len(live)))
            continue
        compare_state(live[0], out, t, subs, set(live[0].undef), diffs, 'state %d symbolic' % k)
    return checked, diffs


def _sym_key_regs(insn):
    ops = semantics.parsed_ops(insn)
    regs = set(_addr_regs(ops)) | {'rsp'}
    if insn.mnem in STRING_OPS:
        regs |= {'rcx', 'rsi', 'rdi'}
    if insn.mnem == 'leave':
        regs.add('rbp')
    return regs


# ------------------------------------------------------------------------------------------------ driver
def _work(args):
    runner, pre_len, items, n_states, seed = args
    res = []
    for shape, origin, addr, size, mnem, ops, raw in items:
        insn = Insn(addr, size, mnem, ops, raw)
        t0 = time.time()
        SKIPS['n'] = 0
        SKIPS['names'] = set()
        try:
            tests = make_tests(insn, n_states, seed, pre_len)
            outs = run_native(runner, tests)
            checked, diffs = check_instance(insn, tests, outs, pre_len)
        except Unmodelled as e:
            checked, diffs = 0, ['unmodelled: %s' % e]
        except Exception as e:           # keep the table complete; the entry is reported as a failure
            import traceback
            checked, diffs = 0, ['exception: %s' % traceback.format_exc(limit=6)]
        res.append(dict(shape=shape, origin=origin, text=insn.text(), raw=raw.hex(), isa=insn.isa, states=checked, diffs=diffs[:12],
                        n_diffs=len(diffs), wall=round(time.time() - t0, 2),
                        undef_skips=SKIPS['n'], undef_names=sorted(SKIPS['names'])))
    return res


def validate(exe=None, all_flag_sets=True, n_states=24, seed=0, jobs=None, per_shape=4, workdir=None, only=None, verbose=False,
             mutants=True):
    """Run the native validation.  Returns dict(ok, shapes, instances, states, mismatching_shapes, rows=[...], census, wall_s).

    exe      path of an orcdump binary (built in a scratch dir when None)
    only     optional iterable of mnemonics to restrict the run to (debugging)
    """
    t0 = time.time()
    own = workdir is None
    workdir = workdir or tempfile.mkdtemp(prefix='x86sym-validate-')
    try:
        if exe is None:
            sys.path.insert(0, os.path.dirname(os.path.dirname(HERE)))
            from lib import build
            b = build.Build('x86sym-v')
            exe = b.native_prog('orcdump', [os.path.join(os.path.dirname(os.path.dirname(HERE)), 'native', 'orcdump.c')])
        runner, lay = build_runner(workdir)
        shapes, census = collect_instances(exe, workdir, all_flag_sets=all_flag_sets, per_shape=per_shape)
        items = []
        for sh in sorted(shapes):
            if only and sh[0] not in only:
                continue
            for origin, i in shapes[sh]:
                items.append((sh, origin, i.addr, i.size, i.mnem, list(i.ops), bytes(i.raw)))
        jobs = jobs or min(16, os.cpu_count() or 4)
        chunks = [items[k::jobs * 4] for k in range(jobs * 4)]
        chunks = [c for c in chunks if c]
        rows = []
        with cf.ProcessPoolExecutor(max_workers=jobs) as ex:
            for part in ex.map(_work, [(runner, lay['pre'], c, n_states, seed) for c in chunks]):
                rows += part
        rows.sort(key=lambda r: (r['shape'], r['raw']))
        byshape = {}
        for r in rows:
            e = byshape.setdefault(r['shape'], dict(instances=0, states=0, diffs=0, isa=r['isa'], example=r['text']))
            e['instances'] += 1
            e['states'] += r['states']
            e['diffs'] += r['n_diffs']
        bad = sorted(sh for sh, e in byshape.items() if e['diffs'] or e['states'] == 0)
        res = dict(ok=not bad, shapes=len(byshape), instances=len(rows), states=sum(r['states'] for r in rows),
                   mismatching_shapes=[list(b) for b in bad], rows=rows, by_shape={'%s %s' % (k[0], ','.join(k[1])): v for k, v in byshape.items()},
                   census=census, wall_s=round(time.time() - t0, 1), n_states=n_states, seed=seed)
        if mutants:
            res['mutants'] = mutation_check(workdir, n_states, seed, jobs)
            surv = [m for m in res['mutants'] if m['mutant'] != 'none' and m['expected_kill'] and not m['diffs']]
            res['mutants_survived'] = surv
            if surv or any(m['diffs'] for m in res['mutants'] if m['mutant'] == 'none'):
                res['ok'] = False
        res['wall_s'] = round(time.time() - t0, 1)
        return res
    finally:
        if own:
            shutil.rmtree(workdir, ignore_errors=True)


MUTANT_PROBES = ['addps %xmm1,%xmm0', 'subps %xmm1,%xmm0', 'mulps %xmm1,%xmm0', 'divps %xmm1,%xmm0', 'minps %xmm1,%xmm0',
                 'maxps %xmm1,%xmm0', 'addpd %xmm1,%xmm0', 'mulpd %xmm1,%xmm0', 'divpd %xmm1,%xmm0', 'minpd %xmm1,%xmm0',
                 'vaddps %ymm2,%ymm1,%ymm0', 'vmulpd %ymm2,%ymm1,%ymm0', 'cvtpd2ps %xmm1,%xmm0', 'cvttps2dq %xmm1,%xmm0',
                 'paddsw %xmm1,%xmm0', 'packuswb %xmm1,%xmm0', 'pavgb %xmm1,%xmm0', 'sar $0x2,%eax', 'cmpltps %xmm1,%xmm0']


MUTANTS = {
    # name -> prefixes of (v-stripped) mnemonics the mutant must change
    'none': (),
    'ignore-FTZ': ('addp', 'subp', 'mulp', 'divp', 'cvtpd2ps'),
    'ignore-DAZ': ('addp', 'subp', 'mulp', 'divp', 'minp', 'maxp', 'cmplt', 'cvtpd2ps'),
    'minmax-nan-first': ('minp', 'maxp'),
    'nan-payload-dropped': ('addp', 'subp', 'mulp', 'divp'),
    'sat_s-off-by-one': ('paddsw',),
}


def _apply_mutant(name):
    """Install one deliberately wrong semantic in *this process* (workers are throw-away processes)."""
    from . import fp as FP
    o_init = FP.FPEnv.__init__
    if name == 'ignore-FTZ':
        def f(self, mx):
            o_init(self, mx)
            self.ftz = False
        FP.FPEnv.__init__ = f
    elif name == 'ignore-DAZ':
        def f(self, mx):
            o_init(self, mx)
            self.daz = False
        FP.FPEnv.__init__ = f
    elif name == 'minmax-nan-first':
        o_mm = FP.minmax
        FP.minmax = lambda env, which, a, b: z3.If(FP.is_nan(FP.daz(env, a)), FP.daz(env, a), o_mm(env, which, a, b))
    elif name == 'nan-payload-dropped':
        FP._nan_binary = lambda a, b: FP.default_nan(a.size())
    elif name == 'sat_s-off-by-one':
        o_sat = semantics.sat_s
        semantics.sat_s = lambda x, w: o_sat(x, w) + z3.If(x > z3.BitVecVal(2 ** (w - 1) - 1, x.size()), z3.BitVecVal(-1, w), z3.BitVecVal(0, w))
    elif name != 'none':
        raise KeyError(name)


def _mutant_work(args):
    name, runner, pre_len, item, n_states, seed = args
    addr, size, mnem, ops, raw = item
    _apply_mutant(name)
    insn = Insn(addr, size, mnem, ops, raw)
    tests = make_tests(insn, n_states, seed, pre_len)
    outs = run_native(runner, tests)
    diffs = check_instance(insn, tests, outs, pre_len)[1]
    mn = mnem.lstrip('v')
    return dict(mutant=name, insn=insn.text(), expected_kill=any(mn.startswith(p) for p in MUTANTS[name]), diffs=len(diffs))


def mutation_check(workdir, n_states=24, seed=0, jobs=None):
    """Can the gate fail?  Applies deliberately wrong semantics (one per throw-away worker process) and reports, per
    (mutant, probe instruction), whether the native comparison notices.  A surviving mutant on an instruction it must
    affect is a coverage gap of the *test states*; the unmutated run ('none') must show no difference.
    Returns list of dict(mutant, insn, expected_kill, diffs)."""
    import multiprocessing as mp
    runner, lay = build_runner(workdir)
    src = os.path.join(workdir, 'mut.s')
    with open(src, 'w') as f:
        f.write('.text\n' + '\n'.join(MUTANT_PROBES) + '\n')
    subprocess.check_call(['as', '--64', src, '-o', src + '.o'])
    subprocess.check_call(['objcopy', '-O', 'binary', '-j', '.text', src + '.o', src + '.bin'])
    insns = decoder.decode(open(src + '.bin', 'rb').read())
    jobs_l = [(name, runner, lay['pre'], (i.addr, i.size, i.mnem, list(i.ops), bytes(i.raw)), n_states, seed)
              for name in MUTANTS for i in insns]
    # maxtasksperchild=1: a mutant never leaks into another task
    with mp.get_context('fork').Pool(processes=jobs or min(16, os.cpu_count() or 4), maxtasksperchild=1) as pool:
        rows = pool.map(_mutant_work, jobs_l, chunksize=1)
    return rows


def print_table(res, out=sys.stdout, verbose=False):
    w = out.write
    w('%-16s %-24s %-7s %5s %7s %s\n' % ('mnemonic', 'operands', 'isa', 'inst', 'states', 'result'))
    for name in sorted(res['by_shape']):
        e = res['by_shape'][name]
        mn, _, kinds = name.partition(' ')
        w('%-16s %-24s %-7s %5d %7d %s\n' % (mn, kinds, e['isa'], e['instances'], e['states'],
                                              'ok' if not e['diffs'] and e['states'] else 'MISMATCH(%d)' % e['diffs']))
    for r in res['rows']:
        if r['n_diffs']:
            w('--- %s   [%s]  bytes %s  from %s\n' % (r['text'], r['isa'], r['raw'], r['origin']))
            for d in r['diffs']:
                w('      %s\n' % d)
    sk = sorted({n for r in res['rows'] for n in r.get('undef_names', [])})
    w('comparisons skipped as SDM-undefined: %d (only on: %s)\n' % (sum(r.get('undef_skips', 0) for r in res['rows']), ' '.join(sk)))
    for mr in res.get('mutants', []):
        if mr['mutant'] != 'none' and (mr['expected_kill'] or mr['diffs']):
            w('mutant %-20s %-28s %s\n' % (mr['mutant'], mr['insn'], 'killed (%d diffs)' % mr['diffs'] if mr['diffs'] else 'SURVIVED'))
    w('census: %s\n' % ', '.join('%s/%s:%d' % (c['target'], c['flagset'], c['compiled']) for c in res['census']))
    w('SUMMARY shapes=%d instances=%d states=%d mismatching_shapes=%d wall=%.1fs seed=%d states_per_instance=%d\n' % (
        res['shapes'], res['instances'], res['states'], len(res['mismatching_shapes']), res['wall_s'], res['seed'], res['n_states']))


def main(argv=None):
    ap = argparse.ArgumentParser(description=__doc__.split('\n')[0])
    ap.add_argument('--all', action='store_true', help='census over every flag set (default)')
    ap.add_argument('--quick', action='store_true', help='default flag sets only')
    ap.add_argument('--states', type=int, default=24)
    ap.add_argument('--seed', type=int, default=0)
    ap.add_argument('--jobs', type=int, default=None)
    ap.add_argument('--exe', default=None, help='existing orcdump binary')
    ap.add_argument('--only', default=None, help='comma separated mnemonics')
    ap.add_argument('--no-mutants', action='store_true', help='skip the can-the-gate-fail mutation check')
    ap.add_argument('--json', default=None, help='write the full result as JSON')
    a = ap.parse_args(argv)
    res = validate(exe=a.exe, all_flag_sets=not a.quick, n_states=a.states, seed=a.seed, jobs=a.jobs,
                   only=set(a.only.split(',')) if a.only else None, mutants=not a.no_mutants)
    print_table(res)
    if a.json:
        json.dump(res, open(a.json, 'w'), indent=1, default=str)
    return 0 if res['ok'] else 1


if __name__ == '__main__':
    sys.exit(main())
