"""x86sym — symbolic executor for the x86-64 machine code emitted by Orc's SSE / AVX / MMX back ends.

Public API (see README.md):
    decode(code) -> list[Insn]           Insn(addr, size, mnem, ops, raw, isa)
    Machine, Memory, Region              symbolic state
    explore(insns, machine0, solver, ...) -> (finals, stats)
    step(machine, insn) -> [successor machines]
    Unmodelled, Fault                    exceptions
    orc_entry_state(...)                 the standard Orc entry state (rdi -> OrcExecutor)
"""
from .decoder import decode, decode_many, Insn, isa_class, shape_of, ISA_CLASSES
from .machine import Machine, Memory, Region, Fault, Unmodelled, Access
from .explore import explore, step
from .semantics import SEM

__all__ = ['decode', 'decode_many', 'Insn', 'isa_class', 'shape_of', 'ISA_CLASSES', 'Machine', 'Memory', 'Region', 'Fault',
           'Unmodelled', 'Access', 'explore', 'step', 'SEM']
