"""Decoder front end: objdump (AT&T syntax) -> Insn records, plus the ISA class of every instruction form.

`decode(code)` never looks at Orc's own listing; the only input is the emitted bytes.  objdump is the decoder
(binutils is part of the trusted base and is cross-checked by validate.py: every instruction shape it has decoded
from the dumps is executed on the host CPU and compared with the semantics keyed by objdump's mnemonic).
"""
import os
import re
import subprocess
import tempfile

__all__ = ['Insn', 'decode', 'decode_many', 'isa_class', 'shape_of', 'split_ops', 'parse_mem', 'ISA_CLASSES']

ISA_CLASSES = ('base', 'mmx', 'mmxext', 'sse', 'sse2', 'sse3', 'ssse3', 'sse4.1', 'sse4.2', 'avx', 'avx2')


class Insn(object):
    """One decoded instruction.

    addr  byte offset inside the function          size  encoded length
    mnem  AT&T mnemonic exactly as objdump prints (prefixes such as 'rep' are folded in: 'rep movsb')
    ops   operand strings in AT&T order (sources first, destination last)
    raw   the instruction bytes                    isa   ISA class (see ISA_CLASSES) of this *form*
    """
    __slots__ = ('addr', 'size', 'mnem', 'ops', 'raw', 'isa', '_p')

    def __init__(self, addr, size, mnem, ops, raw, isa=None):
        self.addr = addr
        self.size = size
        self.mnem = mnem
        self.ops = list(ops)
        self.raw = bytes(raw)
        self.isa = isa if isa is not None else isa_class(mnem, self.ops)
        self._p = None

    def __repr__(self):
        return '<%x: %s %s>' % (self.addr, self.mnem, ','.join(self.ops))

    def text(self):
        return ('%s %s' % (self.mnem, ','.join(self.ops))).strip()

    @property
    def shape(self):
        return shape_of(self.mnem, self.ops)


def split_ops(s):
    """Split an AT&T operand list at top-level commas."""
    if not s:
        return []
    res, depth, cur = [], 0, ''
    for ch in s:
        if ch == '(':
            depth += 1
        elif ch == ')':
            depth -= 1
        if ch == ',' and depth == 0:
            res.append(cur.strip())
            cur = ''
        else:
            cur += ch
    res.append(cur.strip())
    return res


_MEM_RE = re.compile(r'^(?:%(\w+):)?(-?0x[0-9a-f]+|-?\d+)?(?:\((?:%(\w+))?(?:,%(\w+)(?:,(\d))?)?\))?$')


def parse_mem(op):
    """AT&T memory operand -> (seg, disp:int, base, index, scale) or None if `op` is not a memory operand."""
    if not op or op[0] in '%$' and not re.match(r'^%\w+:', op):
        return None
    m = _MEM_RE.match(op)
    if not m:
        return None
    seg, disp, base, index, scale = m.groups()
    if disp is None and base is None and index is None:
        return None
    return seg, (int(disp, 16) if disp and 'x' in disp else int(disp or 0)), base, index, int(scale or 1)


_GP64 = ['rax', 'rcx', 'rdx', 'rbx', 'rsp', 'rbp', 'rsi', 'rdi'] + ['r%d' % i for i in range(8, 16)]
_GP32 = ['eax', 'ecx', 'edx', 'ebx', 'esp', 'ebp', 'esi', 'edi'] + ['r%dd' % i for i in range(8, 16)]
_GP16 = ['ax', 'cx', 'dx', 'bx', 'sp', 'bp', 'si', 'di'] + ['r%dw' % i for i in range(8, 16)]
_GP8 = ['al', 'cl', 'dl', 'bl', 'spl', 'bpl', 'sil', 'dil'] + ['r%db' % i for i in range(8, 16)]
_GP8H = ['ah', 'ch', 'dh', 'bh']


def op_kind(op):
    """Operand class used in shapes: i, r8/r16/r32/r64, mm, xmm, ymm, m, rel."""
    if op.startswith('$'):
        return 'i'
    if op.startswith('%') and ':' not in op:
        n = op[1:]
        if n.startswith('xmm'):
            return 'xmm'
        if n.startswith('ymm'):
            return 'ymm'
        if re.match(r'^mm\d$', n):
            return 'mm'
        if n in _GP64:
            return 'r64'
        if n in _GP32:
            return 'r32'
        if n in _GP16:
            return 'r16'
        if n in _GP8 or n in _GP8H:
            return 'r8'
        return 'reg?'
    if parse_mem(op) is not None:
        return 'm'
    if re.match(r'^0x[0-9a-f]+$', op):
        return 'rel'
    return '?'


def is_branch_mnem(mnem):
    return mnem in _JCC or mnem in ('jmp', 'call', 'jrcxz', 'jecxz', 'loop', 'loope', 'loopne')


def shape_of(mnem, ops):
    """(mnemonic, operand kinds) e.g. ('paddw', ('m', 'xmm')); direct branch targets are kind 'rel'."""
    if is_branch_mnem(mnem) and len(ops) == 1 and re.match(r'^0x[0-9a-f]+$', ops[0]):
        return (mnem, ('rel',))
    return (mnem, tuple(op_kind(o) for o in ops))


# ------------------------------------------------------------------------------------------------ ISA classes
_BASE = set('''endbr64 nop nopw nopl push pop mov movl movq movb movw movabs movslq movzbl movzwl movsbl movswl movsbw movzbw movsbq
movswq movzbq movzwq lea add addl addq sub subl subq and andl andq or orl orq xor xorl xorq cmp cmpl cmpq cmpb cmpw test testl
testq testb testw sar sarl sarq shr shrl shrq shl shll shlq sal imul imull imulq neg negl negq not notl notq inc incl incq dec decl decq
jmp ret retq leave cld std cltq cqto cltd cwtl ror rol rorw rolw bswap xchg adc sbb div idiv mul cmove cmovne
data16 cs'''.split())
_JCC = frozenset('jo jno jb jae je jne jbe ja js jns jp jnp jl jge jle jg jz jnz jc jnc jnae jnb jna jnbe jnge jnl jng jnle jpe jpo'.split())

_MMX = set('''movd movq packsswb packssdw packuswb paddb paddw paddd paddsb paddsw paddusb paddusw pand pandn por pxor pcmpeqb pcmpeqw
pcmpeqd pcmpgtb pcmpgtw pcmpgtd pmaddwd pmulhw pmullw psllw pslld psllq psrlw psrld psrlq psraw psrad psubb psubw psubd psubsb psubsw
psubusb psubusw punpckhbw punpckhwd punpckhdq punpcklbw punpcklwd punpckldq emms'''.split())
# integer instructions introduced on MM registers by SSE ("MMX extensions")
_MMXEXT = set('pavgb pavgw pextrw pinsrw pmaxsw pmaxub pminsw pminub pmovmskb pmulhuw psadbw pshufw maskmovq movntq'.split())
# SSE2 additions that also exist on MM registers
_SSE2_ON_MM = set('paddq psubq pmuludq'.split())
_SSSE3 = set('pabsb pabsw pabsd palignr phaddw phaddd phaddsw phsubw phsubd phsubsw pmaddubsw pmulhrsw pshufb psignb psignw psignd'.split())
_SSE1 = set('''addps addss subps subss mulps mulss divps divss sqrtps sqrtss rsqrtps rsqrtss rcpps rcpss minps minss maxps maxss
andps andnps orps xorps cmpps cmpss comiss ucomiss movaps movups movss movlps movhps movlhps movhlps movmskps movntps shufps unpckhps
unpcklps cvtpi2ps cvtps2pi cvttps2pi cvtsi2ss cvtsi2ssl cvtsi2ssq cvtss2si cvttss2si ldmxcsr stmxcsr sfence prefetchnta prefetcht0
prefetcht1 prefetcht2'''.split())
for _p in ('eq', 'lt', 'le', 'unord', 'neq', 'nlt', 'nle', 'ord'):
    _SSE1.add('cmp%sps' % _p)
    _SSE1.add('cmp%sss' % _p)
_SSE2 = set('''addpd addsd subpd subsd mulpd mulsd divpd divsd sqrtpd sqrtsd minpd minsd maxpd maxsd andpd andnpd orpd xorpd cmppd
cmpsd comisd ucomisd movapd movupd movsd movlpd movhpd movmskpd movntpd movntdq movnti shufpd unpckhpd unpcklpd cvtdq2ps cvtps2dq
cvttps2dq cvtdq2pd cvtpd2dq cvttpd2dq cvtps2pd cvtpd2ps cvtss2sd cvtsd2ss cvtsi2sd cvtsi2sdl cvtsi2sdq cvtsd2si cvttsd2si cvtpi2pd
cvtpd2pi cvttpd2pi movdqa movdqu movq2dq movdq2q pshufd pshufhw pshuflw pslldq psrldq punpckhqdq punpcklqdq paddq psubq pmuludq
lfence mfence pause clflush maskmovdqu'''.split())
for _p in ('eq', 'lt', 'le', 'unord', 'neq', 'nlt', 'nle', 'ord'):
    _SSE2.add('cmp%spd' % _p)
    _SSE2.add('cmp%ssd' % _p)
_SSE3 = set('addsubps addsubpd haddps haddpd hsubps hsubpd lddqu movddup movshdup movsldup'.split())
_SSE41 = set('''blendps blendpd blendvps blendvpd dpps dppd extractps insertps movntdqa mpsadbw packusdw pblendvb pblendw pcmpeqq
pextrb pextrd pextrq phminposuw pinsrb pinsrd pinsrq pmaxsb pmaxsd pmaxud pmaxuw pminsb pminsd pminud pminuw pmovsxbw pmovsxbd
pmovsxbq pmovsxwd pmovsxwq pmovsxdq pmovzxbw pmovzxbd pmovzxbq pmovzxwd pmovzxwq pmovzxdq pmuldq pmulld ptest roundps roundpd
roundss roundsd'''.split())
_SSE42 = set('pcmpgtq pcmpestri pcmpestrm pcmpistri pcmpistrm crc32 popcnt'.split())

# VEX mnemonics that are *integer* SIMD (256-bit form requires AVX2); everything else VEX is float/AVX
_VEX_INT_PREFIXES = ('vp',)
_VEX_AVX1_VP = set('vpermilps vpermilpd vperm2f128 vptest'.split())   # 'vp…' names that are AVX1 even at 256 bit
_AVX2_ONLY = set('''vpbroadcastb vpbroadcastw vpbroadcastd vpbroadcastq vbroadcasti128 vinserti128 vextracti128 vperm2i128
vpermd vpermq vpermps vpermpd vpblendd vpsllvd vpsllvq vpsrlvd vpsrlvq vpsravd vpmaskmovd vpmaskmovq vpgatherdd vpgatherdq
vpgatherqd vpgatherqq vgatherdps vgatherdpd vgatherqps vgatherqpd vmovntdqa'''.split())


def isa_class(mnem, ops):
    """ISA extension an instruction *form* needs (Intel SDM), from objdump's mnemonic and operand kinds."""
    kinds = [op_kind(o) for o in ops]
    m = mnem.split()[-1] if mnem.startswith(('rep', 'repz', 'repnz', 'lock', 'notrack', 'data16')) and ' ' in mnem else mnem
    has_mm = 'mm' in kinds
    has_xmm = 'xmm' in kinds
    has_ymm = 'ymm' in kinds
    if m in ('vzeroupper', 'vzeroall', 'vldmxcsr', 'vstmxcsr'):
        return 'avx'
    if m.startswith('v') and m not in ('verr', 'verw'):
        if m in _AVX2_ONLY:
            return 'avx2'
        if m in ('vbroadcastss', 'vbroadcastsd'):
            # register source form is AVX2, memory source form is AVX
            return 'avx2' if kinds and kinds[0] == 'xmm' else 'avx'
        if m == 'vbroadcastf128':
            return 'avx'
        if m in ('vmovdqa', 'vmovdqu', 'vlddqu', 'vmovntdq', 'vmovd', 'vmovq'):
            return 'avx'
        if m.startswith('vp') and m not in _VEX_AVX1_VP:
            return 'avx2' if has_ymm else 'avx'
        if m == 'vmpsadbw':
            return 'avx2' if has_ymm else 'avx'
        return 'avx'
    if m in _JCC or m.startswith(('cmov', 'set')):
        return 'base'
    if m in ('movq', 'movd'):
        if has_xmm:
            return 'sse2'
        if has_mm:
            return 'mmx'
        return 'base'
    if m in ('movsd', 'cmpsd') and not has_xmm:
        return 'base'                      # string instructions
    if m.startswith(('movs', 'stos', 'lods', 'scas', 'cmps')) and not has_xmm and m not in _SSE1 and m not in _SSE2:
        return 'base'
    if m in _SSSE3:
        return 'ssse3'
    if m in _SSE41:
        return 'sse4.1'
    if m in _SSE42:
        return 'sse4.2'
    if m in _SSE3:
        return 'sse3'
    if m in _SSE2_ON_MM:
        return 'sse2'
    if m == 'pextrw' and kinds and kinds[-1] == 'm':
        return 'sse4.1'                    # pextrw with a memory destination is the 66 0F 3A 15 form introduced by SSE4.1
    if m in _MMXEXT:
        return 'sse2' if has_xmm else 'mmxext'
    if m in _MMX:
        if m == 'emms':
            return 'mmx'
        return 'sse2' if has_xmm else 'mmx'
    if m in _SSE1:
        return 'sse'
    if m in _SSE2:
        return 'sse2'
    if m in _BASE or m.rstrip('lqwb') in _BASE:
        return 'base'
    return 'base' if not (has_mm or has_xmm or has_ymm) else 'unknown'


# ------------------------------------------------------------------------------------------------ objdump
_LINE_RE = re.compile(r'^\s*([0-9a-f]+):\t([0-9a-f ]+?)\s*(?:\t(.*))?$')
_PREFIXES = ('rep', 'repz', 'repnz', 'repe', 'repne', 'lock', 'notrack', 'data16', 'addr32', 'cs', 'ds', 'es', 'ss', 'fs', 'gs',
             'rex', 'rex.W', 'rex.R', 'rex.X', 'rex.B')


def _objdump(path):
    return subprocess.check_output(['objdump', '-D', '-b', 'binary', '-mi386:x86-64', '-w', path], text=True,
                                   env=dict(os.environ, LC_ALL='C'))


def _parse(out, blob):
    """objdump text -> list of (addr, nbytes, mnem, ops)."""
    res = []
    for line in out.splitlines():
        m = _LINE_RE.match(line)
        if not m:
            continue
        addr = int(m.group(1), 16)
        nb = len(m.group(2).split())
        text = (m.group(3) or '').strip()
        if not text:
            # continuation line of a long instruction (should not happen with -w)
            if res:
                a, n, mn, ops = res[-1]
                res[-1] = (a, n + nb, mn, ops)
            continue
        text = re.sub(r'\s*#.*$', '', text)
        text = re.sub(r'\s*<[^>]*>', '', text)
        parts = text.split(None, 1)
        mnem = parts[0]
        rest = parts[1] if len(parts) > 1 else ''
        # fold prefixes printed as separate words into the mnemonic
        while mnem.split()[-1] in _PREFIXES and rest:
            p2 = rest.split(None, 1)
            mnem = mnem + ' ' + p2[0]
            rest = p2[1] if len(p2) > 1 else ''
        res.append((addr, nb, mnem, split_ops(rest.strip())))
    return res


def decode_many(codes):
    """Decode several functions with one objdump run.  Returns a list of list[Insn] (addresses relative to each
    function).  Functions are separated by 16 nops so that a malformed tail cannot desynchronise the next one;
    a function whose instructions do not tile its byte range exactly raises ValueError."""
    PAD = 16
    blob = bytearray()
    starts = []
    for c in codes:
        starts.append(len(blob))
        blob += bytes(c) + b'\x90' * PAD
    if not codes:
        return []
    fd, path = tempfile.mkstemp(prefix='x86sym-', suffix='.bin')
    try:
        with os.fdopen(fd, 'wb') as f:
            f.write(bytes(blob))
        recs = _parse(_objdump(path), blob)
    finally:
        os.unlink(path)
    out = [[] for _ in codes]
    k = 0
    for addr, nb, mnem, ops in recs:
        while k + 1 < len(starts) and addr >= starts[k + 1]:
            k += 1
        s = starts[k]
        e = s + len(codes[k])
        if addr >= e:
            continue          # padding
        if addr + nb > e:
            raise ValueError('function %d: instruction at %#x runs past the end of the code' % (k, addr - s))
        if ops and re.match(r'^0x[0-9a-f]+$', ops[-1]) and (mnem in _JCC or mnem in ('jmp', 'call', 'jrcxz', 'jecxz', 'loop')):
            ops = ops[:-1] + [hex(int(ops[-1], 16) - s)]
        out[k].append(Insn(addr - s, nb, mnem, ops, blob[addr:addr + nb]))
    for k, (c, ins) in enumerate(zip(codes, out)):
        pos = 0
        for i in ins:
            if i.addr != pos:
                raise ValueError('function %d: decode gap at %#x' % (k, pos))
            pos += i.size
        if pos != len(c):
            raise ValueError('function %d: decoded %d of %d bytes' % (k, pos, len(c)))
    return out


def decode(code):
    """bytes of one function -> list[Insn]."""
    return decode_many([bytes(code)])[0]
