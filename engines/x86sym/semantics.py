"""Per-instruction semantics over z3 terms, keyed by objdump's AT&T mnemonic.

Entry point: `execute(m, insn)` mutates Machine `m` for one instruction and returns
    None                      fall through to insn.addr + insn.size
    [(cond, target, effect)]  alternatives of a control transfer: cond is a Bool term (the alternatives are exhaustive and
                              mutually exclusive), target an instruction address (None = path ends: `ret`), effect
                              None or a callable(machine) applied to the machine that takes the alternative.
Anything not in the table raises Unmodelled(mnem, ops).

Conventions (AT&T): sources first, destination last.  For SIMD two-source operations
    legacy  `op b, a`      a := f(a, b)
    VEX     `vop b, a, d`  d := f(a, b)
so in both encodings a = ops[1], b = ops[0], destination = ops[-1].
"""
import re
import z3
from .machine import Unmodelled, Fault, bv, GPR64
from .decoder import parse_mem
from . import fp as FP

BitVecVal = z3.BitVecVal
Extract = z3.Extract
Concat = z3.Concat
If = z3.If
ZeroExt = z3.ZeroExt
SignExt = z3.SignExt
simplify = z3.simplify

# ------------------------------------------------------------------------------------------------ operands
_REGS = {}
for _i, _n in enumerate(GPR64):
    _REGS[_n] = (_n, 64, 0)
for _n64, _n in zip(GPR64, ['eax', 'ecx', 'edx', 'ebx', 'esp', 'ebp', 'esi', 'edi'] + ['r%dd' % i for i in range(8, 16)]):
    _REGS[_n] = (_n64, 32, 0)
for _n64, _n in zip(GPR64, ['ax', 'cx', 'dx', 'bx', 'sp', 'bp', 'si', 'di'] + ['r%dw' % i for i in range(8, 16)]):
    _REGS[_n] = (_n64, 16, 0)
for _n64, _n in zip(GPR64, ['al', 'cl', 'dl', 'bl', 'spl', 'bpl', 'sil', 'dil'] + ['r%db' % i for i in range(8, 16)]):
    _REGS[_n] = (_n64, 8, 0)
for _n64, _n in zip(GPR64[:4], ['ah', 'ch', 'dh', 'bh']):
    _REGS[_n] = (_n64, 8, 8)


class Op(object):
    """Parsed operand.  kind: 'imm' (val), 'gpr' (reg, width, shift), 'mm'/'xmm'/'ymm' (idx), 'mem' (disp, base, index,
    scale), 'rel' (val = target address)."""
    __slots__ = ('kind', 'text', 'val', 'reg', 'width', 'shift', 'idx', 'disp', 'base', 'index', 'scale')

    def __init__(self, text, branch=False):
        self.text = text
        self.val = self.reg = self.width = self.shift = self.idx = self.disp = self.base = self.index = self.scale = None
        if text.startswith('$'):
            self.kind = 'imm'
            self.val = int(text[1:], 0)
        elif text.startswith('*'):
            raise Unmodelled('indirect branch', [text])
        elif text.startswith('%') and ':' not in text:
            n = text[1:]
            if n.startswith('xmm') or n.startswith('ymm'):
                self.kind = n[:3]
                self.idx = int(n[3:])
                self.width = 128 if self.kind == 'xmm' else 256
            elif re.match(r'^mm\d$', n):
                self.kind = 'mm'
                self.idx = int(n[2:])
                self.width = 64
            elif n in _REGS:
                self.kind = 'gpr'
                self.reg, self.width, self.shift = _REGS[n]
            else:
                raise Unmodelled('register', [text])
        elif branch and re.match(r'^0x[0-9a-f]+$', text):
            self.kind = 'rel'
            self.val = int(text, 16)
        else:
            pm = parse_mem(text)
            if pm is None:
                raise Unmodelled('operand', [text])
            seg, disp, base, index, scale = pm
            if seg not in (None, 'ds', 'es', 'ss', 'cs'):
                raise Unmodelled('segment override', [text])
            self.kind = 'mem'
            self.disp, self.base, self.index, self.scale = disp, base, index, scale
            for r in (base, index):
                if r is not None and (r not in _REGS or _REGS[r][1] != 64):
                    raise Unmodelled('address size', [text])

    @property
    def is_vec(self):
        return self.kind in ('mm', 'xmm', 'ymm')


_BRANCHES = frozenset(['jmp', 'call'])


def parsed_ops(insn):
    p = getattr(insn, '_p', None)
    if p is None:
        br = insn.mnem.startswith('j') or insn.mnem in ('call', 'loop')
        p = [Op(o, br) for o in insn.ops]
        try:
            insn._p = p
        except AttributeError:
            pass
    return p


# ------------------------------------------------------------------------------------------------ execution context
class X(object):
    """One instruction being executed on one machine."""

    def __init__(self, m, insn):
        self.m = m
        self.insn = insn
        self.mn = insn.mnem
        self.ops = parsed_ops(insn)
        self.vex = insn.mnem.startswith('v')
        self.nxt = insn.addr + insn.size

    # ---- addresses / GPR
    def ea(self, op):
        g = self.m.gpr
        v = bv(op.disp & 0xffffffffffffffff, 64)
        if op.base is not None:
            v = g[op.base] + v
        if op.index is not None:
            v = v + (g[op.index] * bv(op.scale, 64) if op.scale != 1 else g[op.index])
        return v

    def gpr(self, op):
        v = self.m.gpr[op.reg]
        if op.width == 64:
            return v
        return Extract(op.shift + op.width - 1, op.shift, v)

    def set_gpr(self, op, val):
        g = self.m.gpr
        assert val.size() == op.width, (val.size(), op.width, self.insn)
        if op.width == 64:
            g[op.reg] = simplify(val)
        elif op.width == 32:
            g[op.reg] = simplify(ZeroExt(32, val))
        else:
            old = g[op.reg]
            lo, hi = op.shift, op.shift + op.width
            parts = [Extract(63, hi, old), val]
            if lo:
                parts.append(Extract(lo - 1, 0, old))
            g[op.reg] = simplify(Concat(*parts))

    def load(self, op, bits, align=0):
        return self.m.mem.load(self.ea(op), bits // 8, self.m, align)

    def store(self, op, val, align=0):
        self.m.mem.store(self.ea(op), val, val.size() // 8, self.m, align)

    def rd(self, op, width):
        """integer operand of `width` bits (immediates are truncated / were sign-extended by objdump)."""
        if op.kind == 'imm':
            return bv(op.val & ((1 << width) - 1), width)
        if op.kind == 'gpr':
            v = self.gpr(op)
            if v.size() != width:
                raise Unmodelled('operand width', [self.insn.text()])
            return v
        if op.kind == 'mem':
            return self.load(op, width)
        raise Unmodelled('operand kind', [self.insn.text()])

    def wr(self, op, val):
        if op.kind == 'gpr':
            self.set_gpr(op, val)
        elif op.kind == 'mem':
            self.store(op, val)
        else:
            raise Unmodelled('destination kind', [self.insn.text()])

    def width(self):
        """operand size of a general-purpose instruction"""
        for op in reversed(self.ops):
            if op.kind == 'gpr':
                return op.width
        sfx = self.mn[-1]
        w = {'b': 8, 'w': 16, 'l': 32, 'q': 64}.get(sfx)
        if w is None:
            raise Unmodelled('operand size', [self.insn.text()])
        return w

    # ---- vector registers
    def vreg(self, op):
        m = self.m
        if op.kind == 'mm':
            m.mmx_dirty = True
            return m.mm['mm%d' % op.idx]
        y = m.ymm['ymm%d' % op.idx]
        return y if op.kind == 'ymm' else Extract(127, 0, y)

    def vec(self, op, bits=None, align=None):
        """vector source: register (low `bits` of it) or memory (`bits` loaded).  align=None picks the architectural
        rule: legacy SSE 128-bit memory operands must be 16-byte aligned, VEX and MMX ones need not."""
        if op.kind == 'mem':
            if bits is None:
                raise Unmodelled('memory operand size', [self.insn.text()])
            if align is None:
                align = 16 if (not self.vex and bits == 128) else 0
            return self.load(op, bits, align)
        if op.kind == 'gpr':
            v = self.gpr(op)
            if bits is not None and v.size() > bits:
                v = Extract(bits - 1, 0, v)
            return v
        v = self.vreg(op)
        if bits is not None and bits < v.size():
            v = Extract(bits - 1, 0, v)
        return v

    def set_vec(self, op, val, align=0):
        m = self.m
        if op.kind == 'mm':
            assert val.size() == 64, self.insn
            m.mm['mm%d' % op.idx] = simplify(val)
            m.mmx_dirty = True
        elif op.kind == 'ymm':
            assert val.size() == 256, self.insn
            m.ymm['ymm%d' % op.idx] = simplify(val)
        elif op.kind == 'xmm':
            assert val.size() == 128, (val.size(), self.insn)
            k = 'ymm%d' % op.idx
            if self.vex:
                m.ymm[k] = simplify(ZeroExt(128, val))
            else:
                m.ymm[k] = simplify(Concat(Extract(255, 128, m.ymm[k]), val))
        elif op.kind == 'mem':
            self.store(op, val, align)
        elif op.kind == 'gpr':
            self.set_gpr(op, val)
        else:
            raise Unmodelled('vector destination', [self.insn.text()])

    def vl(self):
        """vector length in bits of this instruction = width of the widest vector register operand"""
        w = 0
        for op in self.ops:
            if op.is_vec:
                w = max(w, op.width)
        if not w:
            raise Unmodelled('vector length', [self.insn.text()])
        return w

    # ---- flags
    def set_flags(self, **kw):
        f = self.m.flags
        for k, v in kw.items():
            if v is None:
                f[k] = self.m.fresh(k)
                self.m.undef.add(k)
            else:
                f[k] = simplify(v) if not isinstance(v, bool) else z3.BoolVal(v)

    def szp(self, r):
        w = r.size()
        self.set_flags(zf=(r == 0), sf=(Extract(w - 1, w - 1, r) == 1), pf=parity(r))


def parity(r):
    b = Extract(7, 0, r)
    x = Extract(0, 0, b)
    for i in range(1, 8):
        x = x ^ Extract(i, i, b)
    return x == 0


def msb(x):
    w = x.size()
    return Extract(w - 1, w - 1, x) == 1


def lanes(v, w):
    return [Extract(w * i + w - 1, w * i, v) for i in range(v.size() // w)]


def pack(ls):
    return Concat(*reversed(ls)) if len(ls) > 1 else ls[0]


def halves128(v):
    return lanes(v, 128) if v.size() > 128 else [v]


def sat_s(x, w):
    """signed saturation of a wider signed term to w bits"""
    mx = bv(2 ** (w - 1) - 1, x.size())
    mn = bv(-(2 ** (w - 1)), x.size())
    return Extract(w - 1, 0, If(x > mx, mx, If(x < mn, mn, x)))


def sat_u(x, w):
    """unsigned saturation of a wider *signed* term to w bits"""
    mx = bv(2 ** w - 1, x.size())
    z = bv(0, x.size())
    return Extract(w - 1, 0, If(x > mx, mx, If(x < z, z, x)))


SEM = {}


def sem(*names):
    def deco(f):
        for n in names:
            assert n not in SEM, n
            SEM[n] = f
        return f
    return deco


# ================================================================================================ base instructions
@sem('nop', 'nopw', 'nopl', 'endbr64', 'endbr32', 'data16', 'pause', 'lfence', 'mfence', 'sfence', 'prefetchnta', 'prefetcht0',
     'prefetcht1', 'prefetcht2')
def _nop(x):
    return None


@sem('xchg')
def _xchg(x):
    a, b = x.ops
    if a.kind == 'gpr' and b.kind == 'gpr' and a.reg == b.reg and a.width == b.width and a.width != 32:
        return None              # xchg %ax,%ax = 66 90 (nop)
    w = x.width()
    va, vb = x.rd(a, w), x.rd(b, w)
    x.wr(a, vb)
    x.wr(b, va)


@sem('mov', 'movl', 'movq', 'movb', 'movw', 'movabs')
def _mov(x):
    src, dst = x.ops
    if src.is_vec or dst.is_vec:
        return _movq_simd(x)
    w = x.width()
    x.wr(dst, x.rd(src, w))


def _movx(x, signed):
    src, dst = x.ops
    mn = x.mn
    sw = {'b': 8, 'w': 16, 'l': 32}[mn[4]]
    dw = dst.width
    v = x.rd(src, sw) if src.kind != 'gpr' else x.gpr(src)
    x.set_gpr(dst, (SignExt if signed else ZeroExt)(dw - sw, v))


for _n in ('movzbl', 'movzwl', 'movzbw', 'movzbq', 'movzwq'):
    SEM[_n] = lambda x: _movx(x, False)
for _n in ('movsbl', 'movswl', 'movsbw', 'movsbq', 'movswq', 'movslq'):
    SEM[_n] = lambda x: _movx(x, True)


@sem('cltq')
def _cltq(x):
    g = x.m.gpr
    g['rax'] = simplify(SignExt(32, Extract(31, 0, g['rax'])))


@sem('cltd')
def _cltd(x):
    g = x.m.gpr
    g['rdx'] = simplify(ZeroExt(32, Extract(31, 0, SignExt(32, Extract(31, 0, g['rax'])) >> 32)))


@sem('cqto')
def _cqto(x):
    g = x.m.gpr
    g['rdx'] = simplify(g['rax'] >> 63)


@sem('lea', 'leal', 'leaq')
def _lea(x):
    src, dst = x.ops
    v = x.ea(src)
    x.set_gpr(dst, v if dst.width == 64 else Extract(dst.width - 1, 0, v))


@sem('push', 'pushq')
def _push(x):
    g = x.m.gpr
    v = x.rd(x.ops[0], 64)
    g['rsp'] = simplify(g['rsp'] - 8)
    x.m.mem.store(g['rsp'], v, 8, x.m)


@sem('pop', 'popq')
def _pop(x):
    g = x.m.gpr
    v = x.m.mem.load(g['rsp'], 8, x.m)
    g['rsp'] = simplify(g['rsp'] + 8)
    x.wr(x.ops[0], v)


@sem('leave')
def _leave(x):
    g = x.m.gpr
    g['rsp'] = g['rbp']
    v = x.m.mem.load(g['rsp'], 8, x.m)
    g['rsp'] = simplify(g['rsp'] + 8)
    g['rbp'] = simplify(v)


def _add_flags(x, a, b, r, cin=None):
    w = a.size()
    ax, bx = ZeroExt(1, a), ZeroExt(1, b)
    wide = ax + bx if cin is None else ax + bx + ZeroExt(w, cin)
    x.szp(r)
    x.set_flags(cf=Extract(w, w, wide) == 1,
                of=z3.And(msb(a) == msb(b), msb(r) != msb(a)),
                af=Extract(4, 4, a ^ b ^ r) == 1)


def _sub_flags(x, a, b, r, cin=None):
    w = a.size()
    ax, bx = ZeroExt(1, a), ZeroExt(1, b)
    wide = ax - bx if cin is None else ax - bx - ZeroExt(w, cin)
    x.szp(r)
    x.set_flags(cf=Extract(w, w, wide) == 1,
                of=z3.And(msb(a) != msb(b), msb(r) != msb(a)),
                af=Extract(4, 4, a ^ b ^ r) == 1)


def _logic_flags(x, r):
    x.szp(r)
    x.set_flags(cf=False, of=False, af=None)


def _alu(name):
    base = name

    def h(x):
        src, dst = x.ops
        w = x.width()
        b = x.rd(src, w)
        a = x.rd(dst, w)
        cfb = If(x.m.flags['cf'], bv(1, 1), bv(0, 1))
        if base == 'add':
            r = a + b
            _add_flags(x, a, b, r)
        elif base == 'adc':
            r = a + b + ZeroExt(w - 1, cfb)
            _add_flags(x, a, b, r, cfb)
        elif base in ('sub', 'cmp'):
            r = a - b
            _sub_flags(x, a, b, r)
        elif base == 'sbb':
            r = a - b - ZeroExt(w - 1, cfb)
            _sub_flags(x, a, b, r, cfb)
        else:
            r = {'and': a & b, 'test': a & b, 'or': a | b, 'xor': a ^ b}[base]
            _logic_flags(x, r)
        if base not in ('cmp', 'test'):
            x.wr(dst, r)
    return h


for _b in ('add', 'adc', 'sub', 'sbb', 'cmp', 'and', 'or', 'xor', 'test'):
    _h = _alu(_b)
    for _s in ('', 'b', 'w', 'l', 'q'):
        SEM[_b + _s] = _h


def _incdec(sign):
    def h(x):
        dst = x.ops[0]
        w = x.width()
        a = x.rd(dst, w)
        one = bv(1, w)
        cf = x.m.flags['cf']
        if sign > 0:
            r = a + one
            _add_flags(x, a, one, r)
        else:
            r = a - one
            _sub_flags(x, a, one, r)
        x.m.flags['cf'] = cf
        x.wr(dst, r)
    return h


for _s in ('', 'b', 'w', 'l', 'q'):
    SEM['inc' + _s] = _incdec(1)
    SEM['dec' + _s] = _incdec(-1)


def _neg(x):
    dst = x.ops[0]
    w = x.width()
    a = x.rd(dst, w)
    z = bv(0, w)
    r = z - a
    _sub_flags(x, z, a, r)
    x.wr(dst, r)


def _not(x):
    dst = x.ops[0]
    w = x.width()
    x.wr(dst, ~x.rd(dst, w))


for _s in ('', 'b', 'w', 'l', 'q'):
    SEM['neg' + _s] = _neg
    SEM['not' + _s] = _not


def _shift(kind):
    def h(x):
        ops = x.ops
        if len(ops) == 1:
            dst = ops[0]
            w = x.width()
            cnt = bv(1, w)
        else:
            dst = ops[1]
            w = x.width() if dst.kind == 'gpr' else {'b': 8, 'w': 16, 'l': 32, 'q': 64}[x.mn[-1]]
            if dst.kind == 'gpr':
                w = dst.width
            c = ops[0]
            if c.kind == 'imm':
                cnt = bv(c.val & 0xff, w)
            else:
                cv = x.gpr(c)               # %cl
                cnt = ZeroExt(w - 8, cv) if w > 8 else cv
        mask = 63 if w == 64 else 31
        cnt = simplify(cnt & bv(mask, w))
        a = x.rd(dst, w)
        f = x.m.flags
        wide = ZeroExt(1, a) if kind != 'sar' else SignExt(1, a)
        cw = ZeroExt(1, cnt)
        if kind in ('shl', 'sal'):
            rw = wide << cw
            r = Extract(w - 1, 0, rw)
            cf = Extract(w, w, rw) == 1
            of1 = msb(r) != cf
        elif kind == 'shr':
            r = z3.LShR(a, cnt)
            cf = Extract(0, 0, z3.LShR(Concat(a, bv(0, 1)), cw)) == 1
            of1 = msb(a)
        else:
            r = a >> cnt
            cf = Extract(0, 0, Concat(a, bv(0, 1)) >> cw) == 1
            of1 = z3.BoolVal(False)
        cz = simplify(cnt == 0)
        if z3.is_true(cz):
            x.wr(dst, a)             # flags untouched, but a 32-bit register destination is still zero-extended
            return
        c1 = simplify(cnt == 1)
        if z3.is_false(cz):
            x.szp(r)
            # CF is undefined for SHL/SHR when count >= operand size (only possible for 8/16-bit operands)
            x.set_flags(cf=cf, af=None)
            if z3.is_true(c1):
                x.set_flags(of=of1)
            elif z3.is_false(c1):
                x.set_flags(of=None)
            else:
                x.m.flags['of'] = simplify(If(c1, of1, x.m.fresh('of')))
        else:
            old = dict(f)
            x.szp(r)
            x.set_flags(cf=cf)
            for k in ('zf', 'sf', 'pf', 'cf'):
                f[k] = simplify(If(cz, old[k], f[k]))
            f['af'] = simplify(If(cz, old['af'], x.m.fresh('af')))
            f['of'] = simplify(If(cz, old['of'], If(c1, of1, x.m.fresh('of'))))
        x.wr(dst, r)
    return h


for _k in ('shl', 'sal', 'shr', 'sar'):
    for _s in ('', 'b', 'w', 'l', 'q'):
        SEM[_k + _s] = _shift(_k)


def _rot(kind):
    def h(x):
        ops = x.ops
        if len(ops) == 1:
            dst, c = ops[0], None
        else:
            c, dst = ops
        w = dst.width if dst.kind == 'gpr' else {'b': 8, 'w': 16, 'l': 32, 'q': 64}[x.mn[-1]]
        if c is None:
            n = 1
        elif c.kind == 'imm':
            n = c.val & (63 if w == 64 else 31)
        else:
            raise Unmodelled('rotate by %cl', [x.insn.text()])
        a = x.rd(dst, w)
        if n == 0:
            return
        k = n % w
        r = z3.RotateLeft(a, k) if kind == 'rol' else z3.RotateRight(a, k)
        r = simplify(r)
        if kind == 'rol':
            cf = Extract(0, 0, r) == 1
            of = msb(r) != cf
        else:
            cf = msb(r)
            of = msb(r) != (Extract(w - 2, w - 2, r) == 1)
        x.set_flags(cf=cf)
        x.set_flags(of=of if n == 1 else None)
        x.wr(dst, r)
    return h


for _k in ('rol', 'ror'):
    for _s in ('', 'b', 'w', 'l', 'q'):
        SEM[_k + _s] = _rot(_k)


def _imul(x):
    ops = x.ops
    if len(ops) == 1:
        src = ops[0]
        w = src.width if src.kind == 'gpr' else {'b': 8, 'w': 16, 'l': 32, 'q': 64}[x.mn[-1]]
        if w == 8:
            raise Unmodelled('imul 8-bit', [x.insn.text()])
        g = x.m.gpr
        a = Extract(w - 1, 0, g['rax'])
        b = x.rd(src, w)
        p = SignExt(w, a) * SignExt(w, b)
        lo, hi = Extract(w - 1, 0, p), Extract(2 * w - 1, w, p)
        over = SignExt(w, lo) != p
        for reg, val in (('rax', lo), ('rdx', hi)):
            if w == 64:
                g[reg] = simplify(val)
            elif w == 32:
                g[reg] = simplify(ZeroExt(32, val))
            else:
                g[reg] = simplify(Concat(Extract(63, w, g[reg]), val))
        x.set_flags(cf=over, of=over, sf=None, zf=None, af=None, pf=None)
        return
    if len(ops) == 2:
        src, dst = ops
        w = dst.width
        a = x.gpr(dst)
        b = x.rd(src, w)
    else:
        imm, src, dst = ops
        w = dst.width
        a = x.rd(src, w)
        b = bv(imm.val & ((1 << w) - 1), w)
    p = SignExt(w, a) * SignExt(w, b)
    lo = Extract(w - 1, 0, p)
    over = SignExt(w, lo) != p
    x.set_gpr(dst, lo)
    x.set_flags(cf=over, of=over, sf=None, zf=None, af=None, pf=None)


for _s in ('', 'w', 'l', 'q'):
    SEM['imul' + _s] = _imul


def _mul(x):
    src = x.ops[0]
    w = src.width if src.kind == 'gpr' else {'b': 8, 'w': 16, 'l': 32, 'q': 64}[x.mn[-1]]
    if w == 8:
        raise Unmodelled('mul 8-bit', [x.insn.text()])
    g = x.m.gpr
    a = Extract(w - 1, 0, g['rax'])
    b = x.rd(src, w)
    p = ZeroExt(w, a) * ZeroExt(w, b)
    lo, hi = Extract(w - 1, 0, p), Extract(2 * w - 1, w, p)
    for reg, val in (('rax', lo), ('rdx', hi)):
        if w == 64:
            g[reg] = simplify(val)
        elif w == 32:
            g[reg] = simplify(ZeroExt(32, val))
        else:
            g[reg] = simplify(Concat(Extract(63, w, g[reg]), val))
    over = hi != 0
    x.set_flags(cf=over, of=over, sf=None, zf=None, af=None, pf=None)


for _s in ('', 'w', 'l', 'q'):
    SEM['mul' + _s] = _mul


@sem('bswap')
def _bswap(x):
    dst = x.ops[0]
    v = x.gpr(dst)
    x.set_gpr(dst, pack(list(reversed(lanes(v, 8)))))


@sem('cld')
def _cld(x):
    x.m.df = z3.BoolVal(False)


@sem('std')
def _std(x):
    x.m.df = z3.BoolVal(True)


@sem('rdtsc')
def _rdtsc(x):
    g = x.m.gpr
    g['rax'] = ZeroExt(32, x.m.fresh('tsc_lo', 32))
    g['rdx'] = ZeroExt(32, x.m.fresh('tsc_hi', 32))


# ---- conditions
def cond_of(m, cc):
    f = m.flags
    zf, sf, of, cf, pf = f['zf'], f['sf'], f['of'], f['cf'], f['pf']
    t = {
        'o': of, 'no': z3.Not(of), 'b': cf, 'c': cf, 'nae': cf, 'ae': z3.Not(cf), 'nb': z3.Not(cf), 'nc': z3.Not(cf),
        'e': zf, 'z': zf, 'ne': z3.Not(zf), 'nz': z3.Not(zf), 'be': z3.Or(cf, zf), 'na': z3.Or(cf, zf),
        'a': z3.And(z3.Not(cf), z3.Not(zf)), 'nbe': z3.And(z3.Not(cf), z3.Not(zf)), 's': sf, 'ns': z3.Not(sf),
        'p': pf, 'pe': pf, 'np': z3.Not(pf), 'po': z3.Not(pf), 'l': sf != of, 'nge': sf != of, 'ge': sf == of, 'nl': sf == of,
        'le': z3.Or(zf, sf != of), 'ng': z3.Or(zf, sf != of), 'g': z3.And(z3.Not(zf), sf == of), 'nle': z3.And(z3.Not(zf), sf == of),
    }.get(cc)
    if t is None:
        raise Unmodelled('condition code', [cc])
    return simplify(t)


CC_NAMES = ['o', 'no', 'b', 'c', 'nae', 'ae', 'nb', 'nc', 'e', 'z', 'ne', 'nz', 'be', 'na', 'a', 'nbe', 's', 'ns', 'p', 'pe', 'np', 'po',
            'l', 'nge', 'ge', 'nl', 'le', 'ng', 'g', 'nle']


def _jcc(cc):
    def h(x):
        t = x.ops[0]
        if t.kind != 'rel':
            raise Unmodelled('indirect branch', [x.insn.text()])
        c = cond_of(x.m, cc)
        return [(c, t.val, None), (simplify(z3.Not(c)), x.nxt, None)]
    return h


def _cmov(cc):
    def h(x):
        src, dst = x.ops
        w = dst.width
        c = cond_of(x.m, cc)
        if x.m.decided is not None:
            c = z3.BoolVal(x.m.decided)
        v = x.rd(src, w)            # the load happens regardless of the condition
        x.set_gpr(dst, If(c, v, x.gpr(dst)))
    return h


def _setcc(cc):
    def h(x):
        c = cond_of(x.m, cc)
        if x.m.decided is not None:
            c = z3.BoolVal(x.m.decided)
        x.wr(x.ops[0], If(c, bv(1, 8), bv(0, 8)))
    return h


for _cc in CC_NAMES:
    SEM['j' + _cc] = _jcc(_cc)
    SEM['cmov' + _cc] = _cmov(_cc)
    SEM['set' + _cc] = _setcc(_cc)


def decision_condition(m, insn):
    """For cmovcc/setcc: the condition explore() forks on (None for every other instruction)."""
    mn = insn.mnem
    if mn.startswith('cmov'):
        return cond_of(m, mn[4:])
    if mn.startswith('set') and mn[3:] in CC_NAMES:
        return cond_of(m, mn[3:])
    return None


@sem('jmp')
def _jmp(x):
    t = x.ops[0]
    if t.kind != 'rel':
        raise Unmodelled('indirect branch', [x.insn.text()])
    return [(z3.BoolVal(True), t.val, None)]


@sem('ret', 'retq')
def _ret(x):
    g = x.m.gpr
    if x.ops:
        raise Unmodelled('ret imm', [x.insn.text()])
    x.m.ret_addr = x.m.mem.load(g['rsp'], 8, x.m)
    g['rsp'] = simplify(g['rsp'] + 8)
    return [(z3.BoolVal(True), None, None)]


def _rep_movs(size):
    def h(x):
        m = x.m
        g = m.gpr
        addr = x.insn.addr

        def one(mm):
            gg = mm.gpr
            v = mm.mem.load(gg['rsi'], size, mm)
            mm.mem.store(gg['rdi'], v, size, mm)
            d = If(mm.df, bv(-size & 0xffffffffffffffff, 64), bv(size, 64))
            gg['rsi'] = simplify(gg['rsi'] + d)
            gg['rdi'] = simplify(gg['rdi'] + d)
            gg['rcx'] = simplify(gg['rcx'] - 1)
        z = simplify(g['rcx'] == 0)
        return [(z, x.nxt, None), (simplify(z3.Not(z)), addr, one)]
    return h


for _n, _s in (('rep movsb', 1), ('rep movsw', 2), ('rep movsl', 4), ('rep movsq', 8)):
    SEM[_n] = _rep_movs(_s)
SEM['rep movsb %ds:(%rsi),%es:(%rdi)'] = SEM['rep movsb']


def _movs(size):
    def h(x):
        mm = x.m
        gg = mm.gpr
        v = mm.mem.load(gg['rsi'], size, mm)
        mm.mem.store(gg['rdi'], v, size, mm)
        d = If(mm.df, bv(-size & 0xffffffffffffffff, 64), bv(size, 64))
        gg['rsi'] = simplify(gg['rsi'] + d)
        gg['rdi'] = simplify(gg['rdi'] + d)
    return h


for _n, _s in (('movsb', 1), ('movsw', 2), ('movsl', 4)):
    SEM[_n] = _movs(_s)


# ================================================================================================ SIMD moves
def _movq_simd(x):
    """movq / vmovq with at least one vector operand"""
    src, dst = x.ops
    v = x.vec(src, 64, align=0)
    if v.size() > 64:
        v = Extract(63, 0, v)
    if dst.kind == 'xmm':
        x.set_vec(dst, ZeroExt(64, v))
    else:
        x.set_vec(dst, v)


SEM['vmovq'] = _movq_simd


@sem('movd', 'vmovd')
def _movd(x):
    src, dst = x.ops
    v = x.vec(src, 32, align=0)
    if v.size() > 32:
        v = Extract(31, 0, v)
    if dst.kind == 'xmm':
        x.set_vec(dst, ZeroExt(96, v))
    elif dst.kind == 'mm':
        x.set_vec(dst, ZeroExt(32, v))
    else:
        x.set_vec(dst, v)


def _movfull(aligned):
    def h(x):
        src, dst = x.ops
        vl = x.vl()
        al = (vl // 8) if aligned else 0
        v = x.vec(src, vl, align=al)
        x.set_vec(dst, v, align=al)
    return h


for _n in ('movdqa', 'movaps', 'movapd', 'vmovdqa', 'vmovaps', 'vmovapd', 'movntdq', 'vmovntdq', 'movntps', 'movntpd', 'vmovntps',
           'vmovntpd', 'movntdqa', 'vmovntdqa'):
    SEM[_n] = _movfull(True)
for _n in ('movdqu', 'movups', 'movupd', 'vmovdqu', 'vmovups', 'vmovupd', 'lddqu', 'vlddqu'):
    SEM[_n] = _movfull(False)


@sem('movntq')
def _movntq(x):
    src, dst = x.ops
    x.set_vec(dst, x.vec(src, 64))


def _movhl(high):
    def h(x):
        ops = x.ops
        if len(ops) == 2:
            src, dst = ops
            if dst.kind == 'mem':           # store half
                v = x.vreg(src)
                x.store(dst, Extract(127, 64, v) if high else Extract(63, 0, v))
                return
            a = x.vreg(dst)
            b = x.load(src, 64)
        else:
            src, s1, dst = ops
            a = x.vreg(s1)
            b = x.load(src, 64)
        r = Concat(b, Extract(63, 0, a)) if high else Concat(Extract(127, 64, a), b)
        x.set_vec(dst, r)
    return h


for _n in ('movhps', 'movhpd', 'vmovhps', 'vmovhpd'):
    SEM[_n] = _movhl(True)
for _n in ('movlps', 'movlpd', 'vmovlps', 'vmovlpd'):
    SEM[_n] = _movhl(False)


@sem('movq2dq')
def _movq2dq(x):
    src, dst = x.ops
    x.set_vec(dst, ZeroExt(64, x.vreg(src)))


@sem('movdq2q')
def _movdq2q(x):
    src, dst = x.ops
    x.set_vec(dst, Extract(63, 0, x.vreg(src)))


@sem('emms')
def _emms(x):
    x.m.mmx_dirty = False


@sem('vzeroupper')
def _vzeroupper(x):
    y = x.m.ymm
    for k in y:
        y[k] = simplify(ZeroExt(128, Extract(127, 0, y[k])))


@sem('vzeroall')
def _vzeroall(x):
    y = x.m.ymm
    for k in y:
        y[k] = bv(0, 256)


@sem('ldmxcsr', 'vldmxcsr')
def _ldmxcsr(x):
    v = simplify(x.load(x.ops[0], 32))
    x.m.mxcsr = v


@sem('stmxcsr', 'vstmxcsr')
def _stmxcsr(x):
    x.store(x.ops[0], x.m.mxcsr)


# ================================================================================================ SIMD integer, element-wise
def _binary(x, f, w):
    """a := f(a, b) lane-wise on w-bit lanes (w=None: whole vector)"""
    ops = x.ops
    vl = x.vl()
    b = x.vec(ops[0], vl)
    a = x.vec(ops[1], vl)
    if w is None:
        r = f(a, b)
    else:
        r = pack([f(p, q) for p, q in zip(lanes(a, w), lanes(b, w))])
    x.set_vec(ops[-1], r)


def _unary(x, f, w):
    src, dst = x.ops
    vl = x.vl()
    a = x.vec(src, vl)
    x.set_vec(dst, pack([f(p) for p in lanes(a, w)]))


def defbin(names, f, w):
    def h(x):
        _binary(x, f, w)
    for n in names.split():
        SEM[n] = h
        SEM['v' + n] = h


def defun(names, f, w):
    def h(x):
        _unary(x, f, w)
    for n in names.split():
        SEM[n] = h
        SEM['v' + n] = h


def _adds(w):
    return lambda a, b: sat_s(SignExt(1, a) + SignExt(1, b), w)


def _subs(w):
    return lambda a, b: sat_s(SignExt(1, a) - SignExt(1, b), w)


def _addus(w):
    return lambda a, b: sat_u(ZeroExt(2, a) + ZeroExt(2, b), w)


def _subus(w):
    return lambda a, b: sat_u(ZeroExt(2, a) - ZeroExt(2, b), w)


def _mask(c, w):
    return If(c, bv(-1, w), bv(0, w))


for _sfx, _w in (('b', 8), ('w', 16), ('d', 32), ('q', 64)):
    defbin('padd' + _sfx, lambda a, b: a + b, _w)
    defbin('psub' + _sfx, lambda a, b: a - b, _w)
    defbin('pcmpeq' + _sfx, (lambda w: lambda a, b: _mask(a == b, w))(_w), _w)
    defbin('pcmpgt' + _sfx, (lambda w: lambda a, b: _mask(a > b, w))(_w), _w)
for _sfx, _w in (('b', 8), ('w', 16)):
    defbin('padds' + _sfx, _adds(_w), _w)
    defbin('psubs' + _sfx, _subs(_w), _w)
    defbin('paddus' + _sfx, _addus(_w), _w)
    defbin('psubus' + _sfx, _subus(_w), _w)
    defbin('pavg' + _sfx, (lambda w: lambda a, b: Extract(w, 1, ZeroExt(1, a) + ZeroExt(1, b) + 1))(_w), _w)
for _sfx, _w in (('b', 8), ('w', 16), ('d', 32)):
    defbin('pmins' + _sfx, lambda a, b: If(a < b, a, b), _w)
    defbin('pmaxs' + _sfx, lambda a, b: If(a > b, a, b), _w)
    defbin('pminu' + _sfx, lambda a, b: If(z3.ULT(a, b), a, b), _w)
    defbin('pmaxu' + _sfx, lambda a, b: If(z3.UGT(a, b), a, b), _w)
    defun('pabs' + _sfx, lambda a: If(a < 0, -a, a), _w)
    defbin('psign' + _sfx, (lambda w: lambda a, b: If(b < 0, -a, If(b == 0, bv(0, w), a)))(_w), _w)

defbin('pand andps andpd', lambda a, b: a & b, None)
defbin('pandn andnps andnpd', lambda a, b: ~a & b, None)
defbin('por orps orpd', lambda a, b: a | b, None)
defbin('pxor xorps xorpd', lambda a, b: a ^ b, None)

defbin('pmullw', lambda a, b: a * b, 16)
defbin('pmulld', lambda a, b: a * b, 32)
defbin('pmulhw', lambda a, b: Extract(31, 16, SignExt(16, a) * SignExt(16, b)), 16)
defbin('pmulhuw', lambda a, b: Extract(31, 16, ZeroExt(16, a) * ZeroExt(16, b)), 16)
defbin('pmulhrsw', lambda a, b: Extract(16, 1, z3.LShR(SignExt(16, a) * SignExt(16, b), 14) + 1), 16)
defbin('pmuludq', lambda a, b: ZeroExt(32, Extract(31, 0, a)) * ZeroExt(32, Extract(31, 0, b)), 64)
defbin('pmuldq', lambda a, b: SignExt(32, Extract(31, 0, a)) * SignExt(32, Extract(31, 0, b)), 64)
defbin('pmaddwd', lambda a, b: SignExt(16, Extract(15, 0, a)) * SignExt(16, Extract(15, 0, b)) +
       SignExt(16, Extract(31, 16, a)) * SignExt(16, Extract(31, 16, b)), 32)
# pmaddubsw: a (first source / destination) unsigned bytes, b (second source) signed bytes
defbin('pmaddubsw', lambda a, b: sat_s(ZeroExt(10, Extract(7, 0, a)) * SignExt(10, Extract(7, 0, b)) +
                                       ZeroExt(10, Extract(15, 8, a)) * SignExt(10, Extract(15, 8, b)), 16), 16)


def _sad(a, b):
    s = bv(0, 16)
    for p, q in zip(lanes(a, 8), lanes(b, 8)):
        s = s + ZeroExt(8, If(z3.UGT(p, q), p - q, q - p))
    return ZeroExt(48, s)


defbin('psadbw', _sad, 64)


# ---- horizontal add/sub: per 128-bit lane (64 for MMX): low half from a, high half from b
def _hop(w, f):
    def g(a, b):
        outs = []
        for h, k in zip(halves128(a), halves128(b)):
            la, lb = lanes(h, w), lanes(k, w)
            ra = [f(la[2 * i], la[2 * i + 1]) for i in range(len(la) // 2)]
            rb = [f(lb[2 * i], lb[2 * i + 1]) for i in range(len(lb) // 2)]
            outs.append(pack(ra + rb))
        return pack(outs)
    return g


defbin('phaddw', _hop(16, lambda p, q: p + q), None)
defbin('phaddd', _hop(32, lambda p, q: p + q), None)
defbin('phsubw', _hop(16, lambda p, q: p - q), None)
defbin('phsubd', _hop(32, lambda p, q: p - q), None)
defbin('phaddsw', _hop(16, lambda p, q: sat_s(SignExt(1, p) + SignExt(1, q), 16)), None)
defbin('phsubsw', _hop(16, lambda p, q: sat_s(SignExt(1, p) - SignExt(1, q), 16)), None)


# ---- pack / unpack: per 128-bit lane
def _packer(w, sat):
    def g(a, b):
        outs = []
        for h, k in zip(halves128(a), halves128(b)):
            outs.append(pack([sat(SignExt(1, e), w // 2) for e in lanes(h, w)] + [sat(SignExt(1, e), w // 2) for e in lanes(k, w)]))
        return pack(outs)
    return g


defbin('packsswb', _packer(16, sat_s), None)
defbin('packssdw', _packer(32, sat_s), None)
defbin('packuswb', _packer(16, sat_u), None)
defbin('packusdw', _packer(32, sat_u), None)


def _unpack(w, high):
    def g(a, b):
        outs = []
        for h, k in zip(halves128(a), halves128(b)):
            la, lb = lanes(h, w), lanes(k, w)
            n = len(la) // 2
            idx = range(n, 2 * n) if high else range(n)
            r = []
            for i in idx:
                r += [la[i], lb[i]]
            outs.append(pack(r))
        return pack(outs)
    return g


for _sfx, _w in (('bw', 8), ('wd', 16), ('dq', 32), ('qdq', 64)):
    defbin('punpckl' + _sfx, _unpack(_w, False), None)
    defbin('punpckh' + _sfx, _unpack(_w, True), None)
defbin('unpcklps', _unpack(32, False), None)
defbin('unpckhps', _unpack(32, True), None)
defbin('unpcklpd', _unpack(64, False), None)
defbin('unpckhpd', _unpack(64, True), None)


# ---- pshufb: per 128-bit lane (64 for MMX); index byte bit 7 zeroes the result byte
def _pshufb(a, b):
    outs = []
    for h, k in zip(halves128(a), halves128(b)):
        src = lanes(h, 8)
        n = len(src)
        r = []
        for sel in lanes(k, 8):
            sel = simplify(sel)
            if z3.is_bv_value(sel):
                s = sel.as_long()
                r.append(bv(0, 8) if s & 0x80 else src[s & (n - 1)])
            else:
                idx = sel & bv(n - 1, 8)
                v = src[n - 1]
                for i in range(n - 2, -1, -1):
                    v = If(idx == i, src[i], v)
                r.append(If(Extract(7, 7, sel) == 1, bv(0, 8), v))
        outs.append(pack(r))
    return pack(outs)


defbin('pshufb', _pshufb, None)


# ---- widening moves
def _pmovx(x):
    mn = x.mn[1:] if x.vex else x.mn
    signed = mn[4] == 's'
    fw = {'b': 8, 'w': 16, 'd': 32}[mn[6]]
    tw = {'w': 16, 'd': 32, 'q': 64}[mn[7]]
    src, dst = x.ops
    vl = dst.width
    n = vl // tw
    v = x.vec(src, n * fw, align=0)
    if v.size() > n * fw:
        v = Extract(n * fw - 1, 0, v)
    ext = SignExt if signed else ZeroExt
    x.set_vec(dst, pack([ext(tw - fw, e) for e in lanes(v, fw)]))


for _a in ('s', 'z'):
    for _p in ('bw', 'bd', 'bq', 'wd', 'wq', 'dq'):
        SEM['pmov%sx%s' % (_a, _p)] = _pmovx
        SEM['vpmov%sx%s' % (_a, _p)] = _pmovx


@sem('phminposuw', 'vphminposuw')
def _phminposuw(x):
    src, dst = x.ops
    ls = lanes(x.vec(src, 128), 16)
    best, idx = ls[0], bv(0, 3)
    for i in range(1, 8):
        c = z3.ULT(ls[i], best)
        best, idx = If(c, ls[i], best), If(c, bv(i, 3), idx)
    x.set_vec(dst, ZeroExt(109, Concat(idx, best)))


# ================================================================================================ SIMD shifts
def _pshift(x):
    mn = x.mn[1:] if x.vex else x.mn
    kind = mn[:4]          # psll / psrl / psra
    w = {'w': 16, 'd': 32, 'q': 64}[mn[4]]
    ops = x.ops
    cnt_op, dst = ops[0], ops[-1]
    src = ops[1] if len(ops) == 3 else dst
    vl = x.vl() if cnt_op.kind == 'imm' else dst.width
    a = x.vec(src, vl)
    if cnt_op.kind == 'imm':
        c = cnt_op.val & 0xff
        if c > w - 1:
            if kind == 'psra':
                c = w - 1
            else:
                x.set_vec(dst, bv(0, vl))
                return
        cb = bv(c, w)
        f = {'psll': lambda e: e << cb, 'psrl': lambda e: z3.LShR(e, cb), 'psra': lambda e: e >> cb}[kind]
        x.set_vec(dst, pack([f(e) for e in lanes(a, w)]))
        return
    # count = low 64 bits of an xmm/mm register or of a 128-bit (64-bit for MMX) memory operand
    cv = x.vec(cnt_op, 64 if dst.kind == 'mm' else 128)
    c64 = simplify(Extract(63, 0, cv))
    big = z3.UGT(c64, bv(w - 1, 64))
    cw = Extract(w - 1, 0, c64) if w < 64 else c64
    if kind == 'psra':
        ce = If(big, bv(w - 1, w), cw)
        r = pack([e >> ce for e in lanes(a, w)])
    elif kind == 'psll':
        r = pack([If(big, bv(0, w), e << cw) for e in lanes(a, w)])
    else:
        r = pack([If(big, bv(0, w), z3.LShR(e, cw)) for e in lanes(a, w)])
    x.set_vec(dst, r)


for _k in ('psll', 'psrl', 'psra'):
    for _s in ('w', 'd', 'q'):
        if _k == 'psra' and _s == 'q':
            continue
        SEM[_k + _s] = _pshift
        SEM['v' + _k + _s] = _pshift


@sem('pslldq', 'psrldq', 'vpslldq', 'vpsrldq')
def _pshiftdq(x):
    ops = x.ops
    imm, dst = ops[0], ops[-1]
    src = ops[1] if len(ops) == 3 else dst
    vl = x.vl()
    a = x.vec(src, vl)
    n = min(imm.val & 0xff, 16)
    left = 'psll' in x.mn
    outs = []
    for h in halves128(a):
        if n == 0:
            outs.append(h)
        elif n >= 16:
            outs.append(bv(0, 128))
        elif left:
            outs.append(Concat(Extract(127 - 8 * n, 0, h), bv(0, 8 * n)))
        else:
            outs.append(Concat(bv(0, 8 * n), Extract(127, 8 * n, h)))
    x.set_vec(dst, pack(outs))


@sem('palignr', 'vpalignr')
def _palignr(x):
    ops = x.ops
    imm = ops[0].val & 0xff
    vl = x.vl()
    b = x.vec(ops[1], vl)
    a = x.vec(ops[2], vl)
    outs = []
    lw = 64 if vl == 64 else 128
    for h, k in zip(lanes(a, lw), lanes(b, lw)):
        cat = Concat(h, k)                       # a is the high part
        sh = 8 * imm
        if sh >= 2 * lw:
            outs.append(bv(0, lw))
        else:
            cat = ZeroExt(lw, cat)
            outs.append(Extract(sh + lw - 1, sh, cat))
    x.set_vec(ops[-1], pack(outs))


# ================================================================================================ shuffles with immediates
@sem('pshufd', 'vpshufd')
def _pshufd(x):
    imm, src, dst = x.ops
    vl = x.vl()
    a = x.vec(src, vl)
    outs = []
    for h in halves128(a):
        l = lanes(h, 32)
        outs.append(pack([l[(imm.val >> (2 * i)) & 3] for i in range(4)]))
    x.set_vec(dst, pack(outs))


@sem('pshufw')
def _pshufw(x):
    imm, src, dst = x.ops
    l = lanes(x.vec(src, 64), 16)
    x.set_vec(dst, pack([l[(imm.val >> (2 * i)) & 3] for i in range(4)]))


def _pshuflh(high):
    def h(x):
        imm, src, dst = x.ops
        vl = x.vl()
        a = x.vec(src, vl)
        outs = []
        for hh in halves128(a):
            l = lanes(hh, 16)
            if high:
                r = l[:4] + [l[4 + ((imm.val >> (2 * i)) & 3)] for i in range(4)]
            else:
                r = [l[(imm.val >> (2 * i)) & 3] for i in range(4)] + l[4:]
            outs.append(pack(r))
        x.set_vec(dst, pack(outs))
    return h


SEM['pshuflw'] = SEM['vpshuflw'] = _pshuflh(False)
SEM['pshufhw'] = SEM['vpshufhw'] = _pshuflh(True)


@sem('shufps', 'vshufps')
def _shufps(x):
    ops = x.ops
    imm = ops[0].val
    vl = x.vl()
    b = x.vec(ops[1], vl)
    a = x.vec(ops[2], vl)
    outs = []
    for h, k in zip(halves128(a), halves128(b)):
        la, lb = lanes(h, 32), lanes(k, 32)
        outs.append(pack([la[imm & 3], la[(imm >> 2) & 3], lb[(imm >> 4) & 3], lb[(imm >> 6) & 3]]))
    x.set_vec(ops[-1], pack(outs))


@sem('shufpd', 'vshufpd')
def _shufpd(x):
    ops = x.ops
    imm = ops[0].val
    vl = x.vl()
    b = x.vec(ops[1], vl)
    a = x.vec(ops[2], vl)
    outs = []
    for i, (h, k) in enumerate(zip(halves128(a), halves128(b))):
        la, lb = lanes(h, 64), lanes(k, 64)
        outs.append(pack([la[(imm >> (2 * i)) & 1], lb[(imm >> (2 * i + 1)) & 1]]))
    x.set_vec(ops[-1], pack(outs))


def _blend_imm(w):
    def h(x):
        ops = x.ops
        imm = ops[0].val
        vl = x.vl()
        b = x.vec(ops[1], vl)
        a = x.vec(ops[2], vl)
        la, lb = lanes(a, w), lanes(b, w)
        per = 128 // w
        r = []
        for i in range(len(la)):
            bit = i if w >= 32 else i % per          # pblendw repeats its 8-bit mask per 128-bit lane
            r.append(lb[i] if (imm >> bit) & 1 else la[i])
        x.set_vec(ops[-1], pack(r))
    return h


SEM['pblendw'] = SEM['vpblendw'] = _blend_imm(16)
SEM['blendps'] = SEM['vblendps'] = SEM['vpblendd'] = _blend_imm(32)
SEM['blendpd'] = SEM['vblendpd'] = _blend_imm(64)


def _blendv(w):
    def h(x):
        ops = x.ops
        # legacy: `blendvpd %xmm0, b, a`  (objdump prints the implicit xmm0);  VEX: `vblendvpd mask, b, a, dst`
        if len(ops) == 2:
            raise Unmodelled('blendv without explicit mask operand', [x.insn.text()])
        vl = x.vl()
        mask = x.vec(ops[0], vl)
        b = x.vec(ops[1], vl)
        a = x.vec(ops[2], vl)
        r = [If(msb(mk), q, p) for mk, p, q in zip(lanes(mask, w), lanes(a, w), lanes(b, w))]
        x.set_vec(ops[-1], pack(r))
    return h


SEM['pblendvb'] = SEM['vpblendvb'] = _blendv(8)
SEM['blendvps'] = SEM['vblendvps'] = _blendv(32)
SEM['blendvpd'] = SEM['vblendvpd'] = _blendv(64)


def _pinsr(w):
    def h(x):
        ops = x.ops
        imm, src, dst = ops[0], ops[1], ops[-1]
        a_op = ops[2] if len(ops) == 4 else dst
        a = x.vreg(a_op)
        if src.kind == 'mem':
            v = x.load(src, w)
        else:
            v = Extract(w - 1, 0, x.m.gpr[src.reg])
        l = lanes(a, w)
        l[imm.val & (len(l) - 1)] = v
        x.set_vec(dst, pack(l))
    return h


def _pextr(w):
    def h(x):
        imm, src, dst = x.ops
        l = lanes(x.vreg(src), w)
        v = l[imm.val & (len(l) - 1)]
        if dst.kind == 'mem':
            x.store(dst, v)
        else:
            dw = dst.width if dst.width >= 32 else 32
            # destination is always written as a 32/64-bit register (zero extended)
            g = x.m.gpr
            g[dst.reg] = simplify(ZeroExt(64 - w, v))
    return h


for _s, _w in (('b', 8), ('w', 16), ('d', 32), ('q', 64)):
    SEM['pinsr' + _s] = SEM['vpinsr' + _s] = _pinsr(_w)
    SEM['pextr' + _s] = SEM['vpextr' + _s] = _pextr(_w)


@sem('vextractf128', 'vextracti128')
def _vextract128(x):
    imm, src, dst = x.ops
    v = lanes(x.vreg(src), 128)[imm.val & 1]
    x.set_vec(dst, v)


@sem('vinsertf128', 'vinserti128')
def _vinsert128(x):
    imm, src, s1, dst = x.ops
    l = lanes(x.vreg(s1), 128)
    l[imm.val & 1] = x.vec(src, 128, align=0)
    x.set_vec(dst, pack(l))


@sem('vperm2f128', 'vperm2i128')
def _vperm2(x):
    imm, src2, src1, dst = x.ops
    b = lanes(x.vec(src2, 256), 128)
    a = lanes(x.vec(src1, 256), 128)
    sel = [a[0], a[1], b[0], b[1]]
    i = imm.val
    lo = bv(0, 128) if i & 0x08 else sel[i & 3]
    hi = bv(0, 128) if i & 0x80 else sel[(i >> 4) & 3]
    x.set_vec(dst, Concat(hi, lo))


@sem('vpermq', 'vpermpd')
def _vpermq(x):
    imm, src, dst = x.ops
    l = lanes(x.vec(src, 256), 64)
    x.set_vec(dst, pack([l[(imm.val >> (2 * i)) & 3] for i in range(4)]))


def _vpbroadcast(w):
    def h(x):
        src, dst = x.ops
        v = x.vec(src, w, align=0)
        if v.size() > w:
            v = Extract(w - 1, 0, v)
        x.set_vec(dst, pack([v] * (dst.width // w)))
    return h


for _s, _w in (('b', 8), ('w', 16), ('d', 32), ('q', 64)):
    SEM['vpbroadcast' + _s] = _vpbroadcast(_w)
SEM['vbroadcastss'] = _vpbroadcast(32)
SEM['vbroadcastsd'] = _vpbroadcast(64)
SEM['vbroadcastf128'] = SEM['vbroadcasti128'] = _vpbroadcast(128)


@sem('pmovmskb', 'vpmovmskb')
def _pmovmskb(x):
    src, dst = x.ops
    bits = [Extract(7, 7, e) for e in lanes(x.vreg(src), 8)]
    v = pack(bits)
    x.m.gpr[dst.reg] = simplify(ZeroExt(64 - v.size(), v))


# ================================================================================================ floating point
def _clobber_mxcsr_status(x):
    """FP instructions may set the sticky exception flags (MXCSR bits 0-5); they are not modelled -> fresh symbols."""
    m = x.m
    m.mxcsr = simplify(Concat(Extract(31, 6, m.mxcsr), m.fresh('mxcsr_status', 6)))


def _fp_binary(op, w):
    def h(x):
        env = FP.FPEnv(x.m.mxcsr)
        if op in ('min', 'max'):
            f = lambda a, b: FP.minmax(env, op, a, b)
        else:
            f = lambda a, b: FP.arith(env, op, a, b)
        _binary(x, f, w)
        _clobber_mxcsr_status(x)
    return h


def _fp_scalar(op, w):
    def h(x):
        env = FP.FPEnv(x.m.mxcsr)
        ops = x.ops
        b = x.vec(ops[0], w, align=0)
        a_full = x.vreg(ops[1])
        a = Extract(w - 1, 0, a_full)
        if op in ('min', 'max'):
            r = FP.minmax(env, op, a, b)
        elif op == 'sqrt':
            r = FP.sqrt(env, b)
        else:
            r = FP.arith(env, op, a, b)
        x.set_vec(ops[-1], Concat(Extract(127, w, a_full), r))
        _clobber_mxcsr_status(x)
    return h


for _op in ('add', 'sub', 'mul', 'div', 'min', 'max'):
    SEM[_op + 'ps'] = SEM['v' + _op + 'ps'] = _fp_binary(_op, 32)
    SEM[_op + 'pd'] = SEM['v' + _op + 'pd'] = _fp_binary(_op, 64)
    SEM[_op + 'ss'] = SEM['v' + _op + 'ss'] = _fp_scalar(_op, 32)
    SEM[_op + 'sd'] = SEM['v' + _op + 'sd'] = _fp_scalar(_op, 64)
SEM['sqrtss'] = SEM['vsqrtss'] = _fp_scalar('sqrt', 32)
SEM['sqrtsd'] = SEM['vsqrtsd'] = _fp_scalar('sqrt', 64)


def _fp_sqrt(w):
    def h(x):
        env = FP.FPEnv(x.m.mxcsr)
        _unary(x, lambda a: FP.sqrt(env, a), w)
        _clobber_mxcsr_status(x)
    return h


SEM['sqrtps'] = SEM['vsqrtps'] = _fp_sqrt(32)
SEM['sqrtpd'] = SEM['vsqrtpd'] = _fp_sqrt(64)


def _fp_cmp(pred, w):
    def h(x):
        env = FP.FPEnv(x.m.mxcsr)
        ops = x.ops
        p = pred
        if p is None:
            p = ops[0].val & (31 if x.vex else 7)
            x.ops = ops[1:]
        _binary(x, lambda a, b: FP.compare(env, p, a, b), w)
        _clobber_mxcsr_status(x)
    return h


for _i, _n in enumerate(FP.CMP_NAMES):
    for _t, _w in (('ps', 32), ('pd', 64)):
        SEM['vcmp%s%s' % (_n, _t)] = _fp_cmp(_i, _w)
        if _i < 8:
            SEM['cmp%s%s' % (_n, _t)] = _fp_cmp(_i, _w)
for _t, _w in (('ps', 32), ('pd', 64)):
    SEM['cmp' + _t] = SEM['vcmp' + _t] = _fp_cmp(None, _w)


def _cvt(x, fw, tw, f):
    """generic packed conversion: n = number of result lanes, source lanes fw bits, result lanes tw bits"""
    src, dst = x.ops
    # the number of elements is set by the wider side
    if src.kind == 'mem':
        # objdump prints e.g. vcvtpd2psy / vcvtpd2psx for memory sources; Orc never emits them
        raise Unmodelled('conversion with memory source', [x.insn.text()])
    if tw >= fw:
        n = dst.width // tw
    else:
        n = src.width // fw
    v = x.vreg(src)
    ls = lanes(v, fw)[:n]
    r = pack([f(e) for e in ls])
    # narrowing conversions zero the rest of the 128-bit destination
    if r.size() < dst.width:
        r = ZeroExt(dst.width - r.size(), r)
    x.set_vec(dst, r)
    _clobber_mxcsr_status(x)


def _defcvt(name, fw, tw, mk):
    def h(x):
        env = FP.FPEnv(x.m.mxcsr)
        _cvt(x, fw, tw, mk(env))
    SEM[name] = SEM['v' + name] = h


_defcvt('cvtdq2ps', 32, 32, lambda env: lambda e: FP.int32_to_fp(env, e, 32))
_defcvt('cvtdq2pd', 32, 64, lambda env: lambda e: FP.int32_to_fp(env, e, 64))
_defcvt('cvtps2dq', 32, 32, lambda env: lambda e: FP.fp_to_int(env, e, False))
_defcvt('cvttps2dq', 32, 32, lambda env: lambda e: FP.fp_to_int(env, e, True))
_defcvt('cvtpd2dq', 64, 32, lambda env: lambda e: FP.fp_to_int(env, e, False))
_defcvt('cvttpd2dq', 64, 32, lambda env: lambda e: FP.fp_to_int(env, e, True))
_defcvt('cvtps2pd', 32, 64, lambda env: lambda e: FP.f32_to_f64(env, e))
_defcvt('cvtpd2ps', 64, 32, lambda env: lambda e: FP.f64_to_f32(env, e))


# ================================================================================================ driver
def execute(m, insn):
    f = SEM.get(insn.mnem)
    if f is None:
        raise Unmodelled(insn.mnem, insn.ops)
    m.undef = set()
    x = X(m, insn)
    return f(x)
