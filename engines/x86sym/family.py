"""Single-opcode program family: recipes for orcdump, compilation driver, mnemonic/shape census.

The family is every opcode of the ``sys`` opcode set  x  second operand {array, parameter, constant}
x  prefix {x1, x2, x4}  (instruction flags 0/1/2, only where every element size stays <= 8 bytes),
accumulator opcodes with an accumulator destination, plus a small set of hand-written extra programs that
exercise code paths a one-instruction program cannot reach (2-D loops, constant n, aligned arrays,
special constant values, 64-bit/float parameters).

Programs whose largest variable size x prefix reaches the vector register size make
``orc_x86_compiler_max_loop_shift`` spin forever; they are skipped exactly as /tmp/probe/dump.c did
(``hang_risk``).  orcdump additionally kills a child after 20 s.

Nothing here is random; the order of the family is the order of the opcode table.
"""
import json
import os
import subprocess

ACCUMULATOR = 1 << 0
FLOAT_SRC = 1 << 1
FLOAT_DEST = 1 << 2
SCALAR = 1 << 3
LOAD = 1 << 4
STORE = 1 << 5
INVARIANT = 1 << 6
ITERATOR = 1 << 7
COPY = 1 << 8

REG_SIZE = {'mmx': 8, 'sse': 16, 'avx': 32}

# target flag bits (orc/orctarget.h)
SSE_FLAGS = {'sse2': 1 << 0, 'sse3': 1 << 1, 'ssse3': 1 << 2, 'sse4.1': 1 << 3, 'sse4.2': 1 << 4, 'sse4a': 1 << 5,
             'sse5': 1 << 6, 'frame_pointer': 1 << 7, 'short_jumps': 1 << 8, '64bit': 1 << 9, 'avx': 1 << 10,
             'avx2': 1 << 11}
MMX_FLAGS = {'mmx': 1 << 0, 'mmxext': 1 << 1, '3dnow': 1 << 2, '3dnowext': 1 << 3, 'ssse3': 1 << 4,
             'sse4.1': 1 << 5, 'sse4.2': 1 << 6, 'frame_pointer': 1 << 7, 'short_jumps': 1 << 8, '64bit': 1 << 9}

KINDS = ('array', 'param', 'const')


def hang_risk(target, sizes):
    """True when orc_x86_compiler_max_loop_shift would not terminate for this program on this target."""
    return max(sizes) >= REG_SIZE[target]


def one_opcode_recipe(op, kind, x, constval=3):
    """Recipe text + list of variable sizes for opcode-table entry `op` (dict from `orcdump opcodes`).

    kind: 'array' | 'param' | 'const' selects the second (scalar) operand; x in (0,1,2) is the x1/x2/x4 prefix.
    Returns (name, text, sizes) or None when the combination does not exist (x prefix with size > 8).
    """
    mul = (1, 2, 4)[x]
    d, s, fl = op['dest'], op['src'], op['flags']
    if x and (d[0] * mul > 8 or s[0] * mul > 8):
        return None
    name = '%s_%s_x%d' % (op['name'], kind, mul)
    lines = ['program ' + name]
    sizes = []
    args = []

    def var(k, size, nm, val=None):
        lines.append('var %s %d %s%s' % (k, size, nm, '' if val is None else ' %x' % val))
        sizes.append(size)
        args.append(nm)

    def scalar(size, nm_p, nm_c, scaled=False):
        # orc's size check multiplies *every* operand size by the x2/x4 factor, scalars included; that product
        # is what drives orc_x86_compiler_max_loop_shift into its endless loop, so account for it here
        sizes.append(size if scaled else size * mul)
        if kind == 'const':
            var('const64' if size == 8 else 'const', size, nm_c, constval)
        else:
            var('param64' if size == 8 else 'param', size, nm_p)

    var('accum' if fl & ACCUMULATOR else 'dest', d[0] * mul, 'd1')
    if d[1]:
        var('dest', d[1] * mul, 'd2')
    if fl & SCALAR:
        if s[1] == 0:
            if kind == 'array':
                return None
            scalar(s[0] * mul, 'p1', 'c1', scaled=True)
        else:
            if kind == 'array':
                return None
            var('src', s[0] * mul, 's1')
            scalar(s[1], 'p1', 'c1')
            if s[2]:
                scalar(s[2], 'p2', 'c2')
    else:
        var('src', s[0] * mul, 's1')
        if s[1]:
            if kind == 'array':
                var('src', s[1] * mul, 's2')
            else:
                scalar(s[1] * mul, 'p1', 'c1', scaled=True)
        elif kind != 'array':
            return None
    lines.append('insn %s %d %s' % (op['name'], x, ' '.join(args)))
    lines.append('end')
    return name, '\n'.join(lines) + '\n', sizes


EXTRA = [
    # (name, recipe body, sizes, targets or None)
    ('x_2d_addw', '2d\nvar dest 2 d1\nvar src 2 s1\nvar src 2 s2\ninsn addw 0 d1 s1 s2\n', [2], None),
    ('x_2d_addf', '2d\nvar dest 4 d1\nvar src 4 s1\nvar src 4 s2\ninsn addf 0 d1 s1 s2\n', [4], None),
    ('x_2d_copyb', '2d\nvar dest 1 d1\nvar src 1 s1\ninsn copyb 0 d1 s1\n', [1], None),
    ('x_2d_constm_addl', '2d\nconstm 3\nvar dest 4 d1\nvar src 4 s1\nvar src 4 s2\ninsn addl 0 d1 s1 s2\n', [4], None),
    ('x_constn_addb', 'constn 7\nvar dest 1 d1\nvar src 1 s1\nvar src 1 s2\ninsn addb 0 d1 s1 s2\n', [1], None),
    ('x_constn64_addw', 'constn 64\nvar dest 2 d1\nvar src 2 s1\nvar src 2 s2\ninsn addw 0 d1 s1 s2\n', [2], None),
    ('x_nmult_addw', 'nmult 16\nvar dest 2 d1\nvar src 2 s1\nvar src 2 s2\ninsn addw 0 d1 s1 s2\n', [2], None),
    ('x_nmin_addw', 'nmin 16\nvar dest 2 d1\nvar src 2 s1\nvar src 2 s2\ninsn addw 0 d1 s1 s2\n', [2], None),
    ('x_nmax_addw', 'nmax 4\nvar dest 2 d1\nvar src 2 s1\nvar src 2 s2\ninsn addw 0 d1 s1 s2\n', [2], None),
    ('x_align_addw', 'var dest 2 d1\nvar src 2 s1\nvar src 2 s2\nalign d1 32\nalign s1 32\nalign s2 32\ninsn addw 0 d1 s1 s2\n', [2], None),
    ('x_align16_addl', 'var dest 4 d1\nvar src 4 s1\nalign d1 16\nalign s1 16\nvar const 4 c1 7\ninsn addl 0 d1 s1 c1\n', [4], None),
    ('x_paramf_addf', 'var dest 4 d1\nvar src 4 s1\nvar paramf 4 p1\ninsn addf 0 d1 s1 p1\n', [4], None),
    ('x_paramd_addd', 'var dest 8 d1\nvar src 8 s1\nvar paramd 8 p1\ninsn addd 0 d1 s1 p1\n', [8], None),
    ('x_param64_addq', 'var dest 8 d1\nvar src 8 s1\nvar param64 8 p1\ninsn addq 0 d1 s1 p1\n', [8], None),
    ('x_temp_chain', 'var dest 2 d1\nvar src 1 s1\nvar src 1 s2\nvar temp 2 t1\nvar temp 2 t2\nvar const 2 c1 80\n'
                     'insn convubw 0 t1 s1\ninsn convubw 0 t2 s2\ninsn mullw 0 t1 t1 t2\ninsn addw 0 t1 t1 c1\n'
                     'insn div255w 0 d1 t1\n', [2], None),
    ('x_acc_two', 'var accum 4 a1\nvar accum 2 a2\nvar src 1 s1\nvar src 1 s2\nvar src 2 s3\n'
                  'insn accsadubl 0 a1 s1 s2\ninsn accw 0 a2 s3\n', [4], None),
    ('x_inplace_addb', 'var dest 1 d1\nvar src 1 s1\ninsn addb 0 d1 d1 s1\n', [1], None),
    ('x_splat_chain', 'var dest 4 d1\nvar src 1 s1\nvar temp 4 t1\nvar param 4 p1\ninsn splatbl 0 t1 s1\n'
                      'insn mulll 0 d1 t1 p1\n', [4], None),
    ('x_loadupdb', 'var dest 1 d1\nvar src 1 s1\nvar temp 1 t1\ninsn loadupdb 0 t1 s1\ninsn copyb 0 d1 t1\n', [1], None),
    ('x_loadupib', 'var dest 1 d1\nvar src 1 s1\nvar temp 1 t1\ninsn loadupib 0 t1 s1\ninsn copyb 0 d1 t1\n', [1], None),
    ('x_loadoffw', 'var dest 2 d1\nvar src 2 s1\nvar temp 2 t1\nvar const 4 c1 1\ninsn loadoffw 0 t1 s1 c1\n'
                   'insn copyw 0 d1 t1\n', [2], None),
    # many arrays: forces general registers beyond the caller-saved ones (callee-saved r12-r15, rbx, rbp get used)
    ('x_many_arrays', 'var dest 1 d1\nvar dest 1 d2\nvar dest 1 d3\nvar dest 1 d4\n' + ''.join('var src 1 s%d\n' % i for i in range(1, 9)) +
     'insn addb 0 d1 s1 s2\ninsn addb 0 d2 s3 s4\ninsn addb 0 d3 s5 s6\ninsn addb 0 d4 s7 s8\n', [1], None),
    ('x_many_arrays_w', 'var dest 2 d1\nvar dest 2 d2\nvar dest 2 d3\n' + ''.join('var src 2 s%d\n' % i for i in range(1, 7)) +
     'insn addw 0 d1 s1 s2\ninsn subw 0 d2 s3 s4\ninsn xorw 0 d3 s5 s6\n', [2], None),
    ('x_ldresnearl', 'var dest 4 d1\nvar src 4 s1\nvar param 4 p1\nvar param 4 p2\ninsn ldresnearl 0 d1 s1 p1 p2\n', [4], None),
    ('x_ldreslinl', 'var dest 4 d1\nvar src 4 s1\nvar param 4 p1\nvar param 4 p2\ninsn ldreslinl 0 d1 s1 p1 p2\n', [4], None),
    ('x_ldresnearb', 'var dest 1 d1\nvar src 1 s1\nvar param 4 p1\nvar param 4 p2\ninsn ldresnearb 0 d1 s1 p1 p2\n', [1], None),
    ('x_ldreslinb', 'var dest 1 d1\nvar src 1 s1\nvar param 4 p1\nvar param 4 p2\ninsn ldreslinb 0 d1 s1 p1 p2\n', [1], None),
]

# constant values that make orc_*_load_constant take its different routes
CONST_VALUES = {1: [0, 0xff, 0x80, 0x01], 2: [0, 0xffff, 0x8000, 0x0101, 0x00ff, 0x1234],
                4: [0, 0xffffffff, 0x80000000, 0x01010101, 0x00ff00ff, 0x00010001, 0x12345678, 0x3f800000],
                8: [0, 0xffffffffffffffff, 0x0101010101010101, 0x123456789abcdef0, 0x3ff0000000000000]}
CONST_OPS = {1: 'addb', 2: 'addw', 4: 'addl', 8: 'addq'}


def family(opcodes, target, extras=True):
    """Deterministic list of (name, recipe_text) for `target`; hang-risk programs are left out."""
    out = []
    for op in opcodes:
        for kind in KINDS:
            for x in (0, 1, 2):
                r = one_opcode_recipe(op, kind, x)
                if r is None:
                    continue
                name, text, sizes = r
                if hang_risk(target, sizes):
                    continue
                out.append((name, text))
    if extras:
        for name, body, sizes, tgts in EXTRA:
            if tgts and target not in tgts:
                continue
            if hang_risk(target, sizes):
                continue
            out.append((name, 'program %s\n%send\n' % (name, body)))
        for size, vals in CONST_VALUES.items():
            if hang_risk(target, [size]):
                continue
            for v in vals:
                name = 'x_const%d_%x' % (size, v)
                body = 'var dest %d d1\nvar src %d s1\nvar %s %d c1 %x\ninsn %s 0 d1 s1 c1\n' % (
                    size, size, 'const64' if size == 8 else 'const', size, v, CONST_OPS[size])
                out.append((name, 'program %s\n%send\n' % (name, body)))
    return out


def load_opcodes(exe):
    # orcdump is only ever run from the scratch directory it was built in
    return json.loads(subprocess.check_output([exe, 'opcodes'], text=True, cwd=os.path.dirname(os.path.abspath(exe))))


def compile_family(exe, target, flags='default', recipes=None, emitasm=False, cwd=None, jobs=None):
    """Run `orcdump compile` over recipes (default: the family of `target`).  Returns list of JSON dicts
    (in family order) with an extra key 'recipe'.  Work is split over `jobs` orcdump processes."""
    import concurrent.futures as cf
    if recipes is None:
        recipes = family(load_opcodes(exe), target)
    jobs = jobs or min(16, os.cpu_count() or 4)
    chunks = [recipes[i::jobs] for i in range(jobs)]
    cmd = [exe, 'compile', target, str(flags)] + (['--emitasm'] if emitasm else [])

    def one(chunk):
        if not chunk:
            return []
        p = subprocess.run(cmd, input=''.join(t for _, t in chunk), capture_output=True, text=True, cwd=cwd)
        res = [json.loads(l) for l in p.stdout.splitlines() if l.strip()]
        if len(res) != len(chunk):
            raise RuntimeError('orcdump produced %d results for %d recipes: %s' % (len(res), len(chunk), p.stderr[:500]))
        for r, (nm, t) in zip(res, chunk):
            r['recipe'] = t
        return res
    with cf.ThreadPoolExecutor(max_workers=jobs) as ex:
        parts = list(ex.map(one, chunks))
    byname = {}
    for part in parts:
        for r in part:
            byname[r['name']] = r
    return [byname[n] for n, _ in recipes]


def reduced_flag_sets(target, default_flags):
    """Flag sets used for the census: default, minimal, and default with each single feature bit removed."""
    sets = [('default', default_flags)]
    if target == 'mmx':
        feat = ['mmxext', 'ssse3', 'sse4.1', 'sse4.2']
        tbl = MMX_FLAGS
        sets.append(('minimal', tbl['mmx'] | tbl['64bit']))
    else:
        feat = ['sse3', 'ssse3', 'sse4.1', 'sse4.2'] + (['avx2'] if target == 'avx' else [])
        tbl = SSE_FLAGS
        if target == 'sse':
            sets.append(('minimal', tbl['sse2'] | tbl['64bit']))
        else:
            sets.append(('minimal', tbl['sse2'] | tbl['64bit'] | tbl['avx']))
    for f in feat:
        if default_flags & tbl[f]:
            sets.append(('no-' + f, default_flags & ~tbl[f]))
    sets.append(('short_jumps', default_flags | tbl['short_jumps']))
    sets.append(('frame_pointer', default_flags | tbl['frame_pointer']))
    return sets


def default_flags(exe):
    t = json.loads(subprocess.check_output([exe, 'targets'], text=True, cwd=os.path.dirname(os.path.abspath(exe))))
    return {x['name']: x['default_flags'] for x in t['targets']}


def census(exe, targets=('sse', 'avx', 'mmx'), all_flag_sets=True, cwd=None, verbose=False):
    """Compile the family for every target / flag set and collect every (mnemonic, operand kinds) shape.

    Returns (shapes, stats): shapes maps shape -> dict(count, example=(target, flags, program, Insn), isa),
    stats is a list of per (target, flagset) dicts (programs, compiled, hangs, failures).
    """
    from . import decoder
    dflt = default_flags(exe)
    opcodes = load_opcodes(exe)
    shapes = {}
    stats = []
    for t in targets:
        fam = family(opcodes, t)
        sets = reduced_flag_sets(t, dflt[t]) if all_flag_sets else [('default', dflt[t])]
        for fname, fl in sets:
            res = compile_family(exe, t, fl, recipes=fam, cwd=cwd)
            ok = [r for r in res if r.get('orccode') and r['orccode'].get('code')]
            codes = [bytes.fromhex(r['orccode']['code']) for r in ok]
            dec = decoder.decode_many(codes)
            for r, ins in zip(ok, dec):
                for i in ins:
                    sh = i.shape
                    e = shapes.get(sh)
                    if e is None:
                        shapes[sh] = dict(count=1, example=(t, fl, r['name'], i), isa=i.isa)
                    else:
                        e['count'] += 1
            st = dict(target=t, flagset=fname, flags=fl, programs=len(res), compiled=len(ok),
                      hangs=sum(1 for r in res if r.get('abnormal') == 'hang'),
                      crashes=sum(1 for r in res if r.get('abnormal') in ('crash', 'exit')),
                      failed=sum(1 for r in res if 'abnormal' not in r and not (r.get('orccode') and r['orccode'].get('code'))))
            stats.append(st)
            if verbose:
                print(st, flush=True)
    return shapes, stats


if __name__ == '__main__':
    import sys
    sys.path.insert(0, os.path.dirname(os.path.dirname(os.path.dirname(os.path.abspath(__file__)))))
    exe = sys.argv[1]
    shapes, stats = census(exe, verbose=True, cwd=os.path.dirname(exe))
    for sh in sorted(shapes):
        e = shapes[sh]
        print('%-14s %-22s %-7s %6d  %s' % (sh[0], ','.join(sh[1]), e['isa'], e['count'], '%s/%s/%s' % e['example'][:3]))
