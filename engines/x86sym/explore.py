"""Path exploration (`explore`) and single-instruction execution (`step`)."""
import time
import z3
from .machine import Machine, Fault, Unmodelled
from . import semantics

__all__ = ['explore', 'step', 'Feasibility']


def step(machine, insn, decide=None):
    """Execute one instruction on `machine` in place and return the list of successor machines.

    Ordinary instructions: [machine] with machine.pc advanced.
    Control transfers: one successor per alternative whose condition does not simplify to False; the condition is
    appended to the successor's pcnd when it is not literally True (no solver is consulted here).  `ret` gives one
    successor with halted=True and pc=None.  cmovcc/setcc are executed with an if-then-else term (no fork) unless
    machine.decided is set.  `rep movs` with a symbolic count yields the two alternatives (count == 0 / one iteration
    done, pc unchanged).
    Raises Unmodelled / Fault.
    """
    machine.pc = insn.addr
    alts = semantics.execute(machine, insn)
    machine.steps += 1
    if Machine.keep_trace:
        machine.trace.append(insn.addr)
    if alts is None:
        machine.pc = insn.addr + insn.size
        return [machine]
    live = [(c, t, e) for c, t, e in alts if not z3.is_false(c)]
    out = []
    for k, (c, t, e) in enumerate(live):
        mm = machine if k == len(live) - 1 else machine.clone()
        if not z3.is_true(c):
            mm.pcnd.append(c)
        if e is not None:
            e(mm)
        if t is None:
            mm.halted = True
        mm.pc = t
        out.append(mm)
    return out


class Feasibility(object):
    """Solver wrapper: one solver kept alive, push/pop per query, query/time counters."""

    def __init__(self, solver):
        self.solver = solver
        self.queries = 0
        self.seconds = 0.0

    def check(self, pcnd, extra):
        """-> model if pcnd + extra is satisfiable else None ('unknown' raises Fault)."""
        s = self.solver
        t0 = time.time()
        s.push()
        try:
            if pcnd:
                s.add(*pcnd)
            s.add(extra)
            self.queries += 1
            r = s.check()
            if r == z3.sat:
                return s.model()
            if r == z3.unsat:
                return None
            raise Fault('solver unknown', s.reason_unknown())
        finally:
            s.pop()
            self.seconds += time.time() - t0


def _holds(model, cond):
    """True/False if the model decides cond, None otherwise."""
    if model is None:
        return None
    try:
        v = model.eval(cond, model_completion=True)
    except z3.Z3Exception:
        return None
    if z3.is_true(v):
        return True
    if z3.is_false(v):
        return False
    return None


def explore(insns, machine0, solver, entry=0, max_steps=20000, max_paths=20000, allowed_isa=None, on_branch=None):
    """Explore every feasible path from `entry` until `ret`.

    insns      list[Insn] of one function (addresses relative to its start)
    machine0   initial Machine (not modified)
    solver     z3.Solver holding the global assumptions (bounds on n, alignment of bases ...).  It must be
               satisfiable; it is used with push/pop only.
    allowed_isa  optional set of ISA classes; an instruction outside it ends the path with fault ('UD', insn)
    on_branch  optional callable(machine, insn, alternatives) invoked for every control transfer with more than
               one feasible alternative (alternatives = list of (cond, target))

    Returns (finals, stats).  finals: one Machine per completed path – normal ones have halted=True and fault None;
    paths that ended abnormally carry fault = ('UD', insn) | ('fault', kind, detail, insn) | ('steps', n).
    Unmodelled propagates to the caller (the result would be inconclusive anyway).
    stats: dict(paths, queries, steps, solver_s, mnemonics=set, wall_s, max_path_steps).

    Feasibility: a conditional alternative is taken when pcnd ∧ cond is satisfiable.  Each machine carries a model
    of its pcnd, so the alternative the model already satisfies needs no query.
    """
    t_start = time.time()
    byaddr = {i.addr: i for i in insns}
    feas = Feasibility(solver)
    m0 = machine0.clone()
    m0.pc = entry
    if m0.model is None:
        m0.model = feas.check(m0.pcnd, z3.BoolVal(True))
        if m0.model is None:
            raise Fault('infeasible start', 'global assumptions and initial pcnd are unsatisfiable')
    work = [m0]
    finals = []
    steps = 0
    mnems = set()
    max_path = 0
    while work:
        m = work.pop()
        while True:
            if m.steps >= max_steps:
                m.fault = ('steps', m.steps)
                finals.append(m)
                break
            insn = byaddr.get(m.pc)
            if insn is None:
                m.fault = ('fault', 'bad pc', hex(m.pc) if m.pc is not None else 'None', None)
                finals.append(m)
                break
            if allowed_isa is not None and insn.isa not in allowed_isa:
                m.fault = ('UD', insn)
                finals.append(m)
                break
            mnems.add(insn.mnem)
            # cmovcc / setcc on symbolic flags: fork on the condition (SPEC) instead of building an ite
            m.decided = None
            dc = semantics.decision_condition(m, insn)
            if dc is not None and not (z3.is_true(dc) or z3.is_false(dc)):
                alts = _feasible(feas, m, [(dc, True), (z3.simplify(z3.Not(dc)), False)])
                if len(alts) == 2:
                    other = m.clone()
                    other.pcnd.append(alts[1][0])
                    other.model = alts[1][2]
                    other.decided = alts[1][1]
                    other.pc = insn.addr        # re-executes the instruction; its pcnd now decides the condition
                    work.append(other)
                m.pcnd.append(alts[0][0])
                m.model = alts[0][2]
                m.decided = alts[0][1]
            m.pc = insn.addr
            try:
                alts = semantics.execute(m, insn)
            except Fault as f:
                m.fault = ('fault', f.kind, f.detail, insn)
                finals.append(m)
                break
            m.decided = None
            m.steps += 1
            steps += 1
            if Machine.keep_trace:
                m.trace.append(insn.addr)
            if alts is None:
                m.pc = insn.addr + insn.size
                continue
            # control transfer
            live = []
            undecided = []
            for c, t, e in alts:
                if z3.is_true(c):
                    live = [(c, t, e, m.model)]
                    undecided = []
                    break
                if z3.is_false(c):
                    continue
                undecided.append((c, t, e))
            if undecided:
                got = _feasible(feas, m, [(c, (t, e)) for c, t, e in undecided])
                live = [(c, te[0], te[1], mdl) for c, te, mdl in got]
            if not live:
                m.fault = ('fault', 'no feasible successor', '', insn)
                finals.append(m)
                break
            if len(live) > 1 and on_branch is not None:
                on_branch(m, insn, [(c, t) for c, t, e, mdl in live])
            succ = []
            for k, (c, t, e, mdl) in enumerate(live):
                mm = m if k == len(live) - 1 else m.clone()
                if not z3.is_true(c):
                    mm.pcnd.append(c)
                mm.model = mdl
                succ.append((mm, t, e))
            ended = True
            cont = None
            for mm, t, e in succ:
                try:
                    if e is not None:
                        mm.pc = insn.addr
                        e(mm)
                except Fault as f:
                    mm.fault = ('fault', f.kind, f.detail, insn)
                    finals.append(mm)
                    continue
                mm.pc = t
                if t is None:
                    mm.halted = True
                    finals.append(mm)
                    max_path = max(max_path, mm.steps)
                elif cont is None:
                    cont = mm
                else:
                    work.append(mm)
            if len(finals) + len(work) > max_paths:
                raise Fault('path bound', 'more than %d paths' % max_paths)
            if cont is None:
                break
            m = cont
    stats = dict(paths=len(finals), queries=feas.queries, steps=steps, solver_s=round(feas.seconds, 3), mnemonics=mnems,
                 wall_s=round(time.time() - t_start, 3), max_path_steps=max_path)
    return finals, stats


def _feasible(feas, m, alts):
    """alts: list of (cond, payload), exhaustive & exclusive under m.pcnd.  Returns [(cond, payload, model)] of the
    feasible ones.  The alternative the machine's model satisfies is feasible for free; if all but one alternative
    are infeasible the last one needs no query either (pcnd itself is satisfiable by invariant)."""
    out = []
    known = None
    for i, (c, p) in enumerate(alts):
        if _holds(m.model, c) is True:
            known = i
            break
    infeasible = 0
    for i, (c, p) in enumerate(alts):
        if i == known:
            out.append((c, p, m.model))
            continue
        if known is None and i == len(alts) - 1 and infeasible == len(alts) - 1:
            # every other alternative is infeasible
            mdl = m.model if m.model is not None else feas.check(m.pcnd, c)
            out.append((c, p, mdl))
            continue
        mdl = feas.check(m.pcnd, c)
        if mdl is None:
            infeasible += 1
        else:
            out.append((c, p, mdl))
    return out
