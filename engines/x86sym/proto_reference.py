#!/usr/bin/env python3
# Scratch prototype: symbolic execution of Orc-emitted x86-64 machine code (objdump-decoded)
# with symbolic n (bounded), symbolic array base residue, symbolic data. Not a deliverable.
import re, subprocess, sys, time
import z3

BV = z3.BitVecVal
def bv(v, w): return z3.BitVecVal(v, w)

GP64 = ['rax','rcx','rdx','rbx','rsp','rbp','rsi','rdi','r8','r9','r10','r11','r12','r13','r14','r15']
GP32 = ['eax','ecx','edx','ebx','esp','ebp','esi','edi'] + ['r%dd'%i for i in range(8,16)]
REG = {}
for i,(a,b) in enumerate(zip(GP64,GP32)):
    REG[a]=(a,64); REG[b]=(a,32)

def decode(binfile):
    out = subprocess.check_output(['objdump','-D','-b','binary','-mi386:x86-64',binfile], text=True)
    insns=[]
    for line in out.splitlines():
        m = re.match(r'^\s*([0-9a-f]+):\t([0-9a-f ]+)\t(\S+)\s*(.*)$', line)
        if not m: continue
        addr=int(m.group(1),16); nbytes=len(m.group(2).split())
        mn=m.group(3); ops=m.group(4).strip()
        ops = re.sub(r'\s*#.*$','',ops)
        insns.append((addr,nbytes,mn,split_ops(ops)))
    return insns

def split_ops(s):
    if not s: return []
    res=[];depth=0;cur=''
    for ch in s:
        if ch=='(' : depth+=1
        if ch==')' : depth-=1
        if ch==',' and depth==0: res.append(cur.strip()); cur=''
        else: cur+=ch
    res.append(cur.strip()); return res

class Fault(Exception): pass

class State:
    def __init__(s):
        s.r={}; s.x={}; s.fl={}; s.pc=0; s.pcnd=[]; s.mem=None; s.log=[]
    def clone(s):
        t=State(); t.r=dict(s.r); t.x=dict(s.x); t.fl=dict(s.fl); t.pc=s.pc; t.pcnd=list(s.pcnd); t.mem=s.mem.clone(); t.log=s.log; return t

class Region:
    def __init__(s,name,base,size,writable,init):
        s.name=name; s.base=base; s.size=size; s.w=writable; s.bytes=dict(init)  # off->BV8
class Memory:
    def __init__(s): s.regions=[]; s.accesses=[]
    def clone(s):
        m=Memory(); m.accesses=s.accesses
        for r in s.regions:
            q=Region(r.name,r.base,r.size,r.w,r.bytes); m.regions.append(q)
        return m
    def resolve(s,addr,solver_ctx):
        a=z3.simplify(addr)
        for r in s.regions:
            off=z3.simplify(a-r.base)
            if z3.is_bv_value(off):
                o=off.as_signed_long()
                return r,o
        raise Fault('unresolvable address %s'%a)
    def load(s,addr,n,st):
        r,o=s.resolve(addr,st)
        s.accesses.append(('R',r.name,o,n,list(st.pcnd)))
        bs=[]
        for i in range(n):
            if (o+i) not in r.bytes:
                r.bytes[o+i]=z3.BitVec('%s_oob_%d'%(r.name,o+i),8)
            bs.append(r.bytes[o+i])
        return z3.Concat(*reversed(bs)) if n>1 else bs[0]
    def store(s,addr,val,n,st):
        r,o=s.resolve(addr,st)
        s.accesses.append(('W',r.name,o,n,list(st.pcnd)))
        for i in range(n):
            r.bytes[o+i]=z3.simplify(z3.Extract(8*i+7,8*i,val))

def lanes(v,w):
    n=v.size()//w
    return [z3.Extract(w*i+w-1,w*i,v) for i in range(n)]
def pack(ls): return z3.Concat(*reversed(ls)) if len(ls)>1 else ls[0]
def sat_s(x,w):
    mx=bv(2**(w-1)-1,x.size()); mn=bv(-(2**(w-1)),x.size())
    return z3.Extract(w-1,0,z3.If(x>mx,mx,z3.If(x<mn,mn,x)))

def run(insns, st0, solver, maxsteps=5000):
    byaddr={a:i for i,(a,_,_,_) in enumerate(insns)}
    work=[st0]; finals=[]
    nq=0
    while work:
        st=work.pop()
        steps=0
        while True:
            steps+=1
            if steps>maxsteps: raise Fault('step bound')
            a,nb,mn,ops=insns[byaddr[st.pc]]
            nxt=a+nb
            def rd(op,w=None):
                if op.startswith('$'): return bv(int(op[1:],16) if op[1:].startswith(('0x','-0x')) else int(op[1:]), w)
                if op.startswith('%'):
                    nm=op[1:]
                    if nm.startswith('xmm'): return st.x[nm]
                    base,ww=REG[nm]; v=st.r[base]
                    return v if ww==64 else z3.Extract(ww-1,0,v)
                return st.mem.load(ea(op), w//8, st)
            def ea(op):
                m=re.match(r'^(-?0x[0-9a-f]+|-?\d+)?\(%(\w+)(?:,%(\w+),(\d))?\)$',op)
                disp=int(m.group(1),16) if m.group(1) else 0
                v=st.r[REG[m.group(2)][0]]+bv(disp,64)
                if m.group(3): v=v+st.r[REG[m.group(3)][0]]*bv(int(m.group(4)),64)
                return v
            def wr(op,val):
                if op.startswith('%'):
                    nm=op[1:]
                    if nm.startswith('xmm'): st.x[nm]=z3.simplify(val); return
                    base,ww=REG[nm]
                    if ww==32: st.r[base]=z3.simplify(z3.ZeroExt(32,val))
                    else: st.r[base]=z3.simplify(val)
                else: st.mem.store(ea(op),val,val.size()//8,st)
            def opw(ops,mn):
                for o in ops:
                    if o.startswith('%') and o[1:] in REG: return REG[o[1:]][1]
                if mn.endswith('l'): return 32
                if mn.endswith('q'): return 64
                if mn.endswith('b'): return 8
                raise Fault('width? %s %s'%(mn,ops))
            def setf(res,w,cf=None,of=None):
                st.fl['zf']=res==0; st.fl['sf']=z3.Extract(w-1,w-1,res)==1
                st.fl['cf']=cf if cf is not None else z3.BoolVal(False)
                st.fl['of']=of if of is not None else z3.BoolVal(False)
            if mn in ('endbr64','nop'): pass
            elif mn=='push':
                st.r['rsp']=z3.simplify(st.r['rsp']-8); st.mem.store(st.r['rsp'],rd(ops[0]),8,st)
            elif mn=='pop':
                wr(ops[0],st.mem.load(st.r['rsp'],8,st)); st.r['rsp']=z3.simplify(st.r['rsp']+8)
            elif mn in ('mov','movl'):
                w=opw(ops,mn); wr(ops[1],rd(ops[0],w))
            elif mn in ('lea',):
                wr(ops[1],ea(ops[0]))
            elif mn in ('add','sub','and','cmp','cmpl','test','testl'):
                w=opw(ops,mn); s=rd(ops[0],w); d=rd(ops[1],w)
                if mn=='add':
                    r=d+s; setf(r,w,z3.ULT(r,d),z3.And((z3.Extract(w-1,w-1,d)==z3.Extract(w-1,w-1,s)),(z3.Extract(w-1,w-1,r)!=z3.Extract(w-1,w-1,d)))); wr(ops[1],r)
                elif mn in ('sub','cmp','cmpl'):
                    r=d-s; setf(r,w,z3.ULT(d,s),z3.And((z3.Extract(w-1,w-1,d)!=z3.Extract(w-1,w-1,s)),(z3.Extract(w-1,w-1,r)!=z3.Extract(w-1,w-1,d))))
                    if mn=='sub': wr(ops[1],r)
                else:
                    r=d&s; setf(r,w)
                    if mn=='and': wr(ops[1],r)
            elif mn=='sar':
                if len(ops)==1: cnt=1; dst=ops[0]
                else: cnt=int(ops[0][1:],16); dst=ops[1]
                w=opw([dst],mn); d=rd(dst,w); r=d>>cnt; setf(r,w); wr(dst,r)
            elif mn in ('jmp','je','jne','jle','jz','jnz'):
                tgt=int(ops[0],16)
                if mn=='jmp': st.pc=tgt; continue
                c={'je':st.fl['zf'],'jz':st.fl['zf'],'jne':z3.Not(st.fl['zf']),'jnz':z3.Not(st.fl['zf']),
                   'jle':z3.Or(st.fl['zf'],st.fl['sf']!=st.fl['of'])}[mn]
                c=z3.simplify(c)
                if z3.is_true(c): st.pc=tgt; continue
                if z3.is_false(c): st.pc=nxt; continue
                outs=[]
                for cond,t in ((c,tgt),(z3.Not(c),nxt)):
                    solver.push(); solver.add(*st.pcnd); solver.add(cond); nq+=1
                    ok=solver.check()==z3.sat; solver.pop()
                    if ok: outs.append((cond,t))
                if len(outs)==2:
                    s2=st.clone(); s2.pcnd.append(outs[1][0]); s2.pc=outs[1][1]; work.append(s2)
                st.pcnd.append(outs[0][0]); st.pc=outs[0][1]; continue
            elif mn in ('ret','retq'):
                st.r['rsp']=z3.simplify(st.r['rsp']+8); finals.append(st); break
            elif mn=='pxor': wr(ops[1],rd(ops[0])^rd(ops[1]))
            elif mn=='paddsw':
                a_=lanes(rd(ops[1]),16); b_=lanes(rd(ops[0],128),16)
                wr(ops[1],pack([sat_s(z3.SignExt(16,x)+z3.SignExt(16,y),16) for x,y in zip(a_,b_)]))
            elif mn=='pinsrw':
                i=int(ops[0][1:],16)&7; v=rd(ops[1],16); d=lanes(rd(ops[2]),16)
                if v.size()>16: v=z3.Extract(15,0,v)
                d[i]=v; wr(ops[2],pack(d))
            elif mn=='pextrw':
                i=int(ops[0][1:],16)&7; v=lanes(rd(ops[1]),16)[i]
                if ops[2].startswith('%'): wr(ops[2],z3.ZeroExt(16,v))
                else: st.mem.store(ea(ops[2]),v,2,st)
            elif mn=='movd':
                if ops[1].startswith('%xmm'): wr(ops[1],z3.ZeroExt(96,rd(ops[0],32)))
                else: wr(ops[1],z3.Extract(31,0,rd(ops[0])))
            elif mn=='movq':
                if ops[1].startswith('%xmm'): wr(ops[1],z3.ZeroExt(64,rd(ops[0],64)))
                else: wr(ops[1],z3.Extract(63,0,rd(ops[0])))
            elif mn in ('movdqu','movdqa'):
                if ops[1].startswith('%xmm'):
                    if mn=='movdqa' and not ops[0].startswith('%'): st.log.append(('aligned',ea(ops[0]),list(st.pcnd)))
                    wr(ops[1],rd(ops[0],128))
                else:
                    if mn=='movdqa': st.log.append(('aligned',ea(ops[1]),list(st.pcnd)))
                    st.mem.store(ea(ops[1]),rd(ops[0]),16,st)
            else:
                raise Fault('unmodelled %s %s'%(mn,ops))
            st.pc=nxt
    return finals,nq

def main():
    N=int(sys.argv[2]) if len(sys.argv)>2 else 40
    insns=decode(sys.argv[1])
    t0=time.time()
    solver=z3.Solver()
    n=z3.BitVec('n',32)
    D=z3.BitVec('D',64); S1=z3.BitVec('S1',64); S2=z3.BitVec('S2',64)
    EX=bv(0x7f0000001000,64); STK=bv(0x7ffff0000000,64)
    for P in (D,S1,S2):
        solver.add(z3.Extract(0,0,P)==0, z3.ULT(P,bv(1<<46,64)), z3.UGT(P,bv(1<<20,64)))
    solver.add(n>=0, n<=N)
    st=State(); st.mem=Memory()
    ex=Region('ex',EX,0x300,True,{})
    def put(reg,off,val,nb):
        for i in range(nb): reg.bytes[off+i]=z3.simplify(z3.Extract(8*i+7,8*i,val))
    put(ex,8,n,4); put(ex,24,D,8); put(ex,56,S1,8); put(ex,64,S2,8)
    a=Region('d',D,2*N,True,{}); b=Region('s1',S1,2*N,False,{}); c=Region('s2',S2,2*N,False,{})
    for r in (b,c):
        for i in range(2*N): r.bytes[i]=z3.BitVec('%s_%d'%(r.name,i),8)
    for i in range(2*N): a.bytes[i]=z3.BitVec('d0_%d'%i,8)
    stk=Region('stk',STK,0,True,{})
    st.mem.regions=[ex,a,b,c,stk]
    for g in GP64: st.r[g]=z3.BitVec('init_'+g,64)
    st.r['rdi']=EX; st.r['rsp']=STK-8
    stk.bytes[-8+0]=None
    for i in range(8): stk.bytes[-8+i]=z3.BitVec('ret_%d'%i,8)
    for i in range(16): st.x['xmm%d'%i]=z3.BitVec('init_xmm%d'%i,128)
    finals,nq=run(insns,st,solver)
    print('paths',len(finals),'feasibility queries',nq,'exec time',round(time.time()-t0,1))
    # check each path: dest bytes == addssw reference for i<n ; untouched beyond; memory accesses in range; callee-saved
    t1=time.time(); viol=0; q=0
    for f in finals:
        dreg=[r for r in f.mem.regions if r.name=='d'][0]
        s1=[r for r in f.mem.regions if r.name=='s1'][0]; s2=[r for r in f.mem.regions if r.name=='s2'][0]
        bad=[]
        for i in range(N):
            x=z3.Concat(s1.bytes[2*i+1],s1.bytes[2*i]); y=z3.Concat(s2.bytes[2*i+1],s2.bytes[2*i])
            ref=sat_s(z3.SignExt(16,x)+z3.SignExt(16,y),16)
            got=z3.Concat(dreg.bytes[2*i+1],dreg.bytes[2*i])
            old=z3.Concat(z3.BitVec('d0_%d'%(2*i+1),8),z3.BitVec('d0_%d'%(2*i),8))
            bad.append(z3.If(z3.BitVecVal(i,32)<n, got!=ref, got!=old))
        extra=[k for k in dreg.bytes if k<0 or k>=2*N]
        solver.push(); solver.add(*f.pcnd); solver.add(z3.Or(*bad) if not extra else z3.BoolVal(True)); q+=1
        r=solver.check()
        if r==z3.sat:
            viol+=1; m=solver.model(); print('VIOLATION path n=',m[n], 'D%32=',m.eval(D&31), 'extra',extra)
        solver.pop()
        for reg in ('rbx','rbp','r12','r13','r14','r15'):
            if not z3.eq(z3.simplify(f.r[reg]), z3.BitVec('init_'+reg,64)): print('callee-saved clobbered',reg); viol+=1
        if not z3.eq(z3.simplify(f.r['rsp']),STK): print('rsp',f.r['rsp']); viol+=1
    # access ranges
    acc=finals[0].mem.accesses; aq=0
    for kind,name,o,nb,pc in acc:
        if name in ('d','s1','s2'):
            solver.push(); solver.add(*pc); solver.add(z3.Or(o<0, z3.BitVecVal(o+nb,32)>2*n)); aq+=1
            if solver.check()==z3.sat:
                m=solver.model(); print('OOB',kind,name,o,nb,'n=',m[n]); viol+=1
            solver.pop()
        if name=='d' and kind=='R': print('read of dest',o)
        if name in ('s1','s2') and kind=='W': print('write to source'); viol+=1
    al=0
    for _,addr,pc in finals[0].log:
        solver.push(); solver.add(*pc); solver.add(addr & 15 != 0); al+=1
        if solver.check()==z3.sat: print('misaligned movdqa possible', z3.simplify(addr)); viol+=1
        solver.pop()
    print('result queries',q,'access queries',aq,'align queries',al,'violations',viol,'check time',round(time.time()-t1,1))
main()
