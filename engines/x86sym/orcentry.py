"""The standard Orc entry state: rdi -> OrcExecutor, symbolic n / arrays / params, plus helpers to run a compiled
program (one JSON line of `orcdump compile`) through the explorer.

Layout of OrcExecutor is measured with offsetof in a tiny C program compiled against /repo's headers (cached per
process); nothing is hard-coded except the ORC_VAR_* enumeration order which is read from the same program.
"""
import json
import os
import subprocess
import tempfile
import z3
from .machine import Machine, Memory, Region
from .decoder import decode
from .explore import explore

__all__ = ['executor_layout', 'orc_entry_state', 'run_program', 'EntryState', 'VARTYPE']

VARTYPE = {0: 'temp', 1: 'src', 2: 'dest', 3: 'const', 4: 'param', 5: 'accum'}

_LAYOUT_C = r'''
#include <stdio.h>
#include <stddef.h>
#include <orc/orc.h>
int main(void){
  printf("{\"sizeof\":%zu,\"program\":%zu,\"n\":%zu,\"counter1\":%zu,\"counter2\":%zu,\"counter3\":%zu,\"arrays\":%zu,"
         "\"params\":%zu,\"accumulators\":%zu,\"n_variables\":%d,"
         "\"D1\":%d,\"S1\":%d,\"A1\":%d,\"A2\":%d,\"A3\":%d,\"A4\":%d,\"C1\":%d,\"P1\":%d,\"T1\":%d,"
         "\"vt_temp\":%d,\"vt_src\":%d,\"vt_dest\":%d,\"vt_const\":%d,\"vt_param\":%d,\"vt_accum\":%d}\n",
    sizeof(OrcExecutor), offsetof(OrcExecutor,program), offsetof(OrcExecutor,n), offsetof(OrcExecutor,counter1),
    offsetof(OrcExecutor,counter2), offsetof(OrcExecutor,counter3), offsetof(OrcExecutor,arrays), offsetof(OrcExecutor,params),
    offsetof(OrcExecutor,accumulators), ORC_N_VARIABLES, ORC_VAR_D1, ORC_VAR_S1, ORC_VAR_A1, ORC_VAR_A2, ORC_VAR_A3, ORC_VAR_A4,
    ORC_VAR_C1, ORC_VAR_P1, ORC_VAR_T1,
    ORC_VAR_TYPE_TEMP, ORC_VAR_TYPE_SRC, ORC_VAR_TYPE_DEST, ORC_VAR_TYPE_CONST, ORC_VAR_TYPE_PARAM, ORC_VAR_TYPE_ACCUMULATOR);
  return 0;
}
'''
_layout = None


def executor_layout(repo=None):
    """dict of OrcExecutor field offsets and ORC_VAR_* indices, measured by compiling a tiny C program."""
    global _layout
    if _layout is not None:
        return _layout
    repo = repo or os.environ.get('ORC_REPO', '/repo')
    d = tempfile.mkdtemp(prefix='x86sym-layout-')
    try:
        src = os.path.join(d, 'l.c')
        exe = os.path.join(d, 'l')
        with open(src, 'w') as f:
            f.write(_LAYOUT_C)
        subprocess.check_call(['gcc', '-I' + repo, '-DORC_ENABLE_UNSTABLE_API', src, '-o', exe], stderr=subprocess.DEVNULL)
        _layout = json.loads(subprocess.check_output([exe], text=True, cwd=d))
    finally:
        import shutil
        shutil.rmtree(d, ignore_errors=True)
    return _layout


class EntryState(object):
    """What orc_entry_state built: machine, the symbols, and per-variable info.

    machine   initial Machine (rdi = EX, rsp = STK with the return address at [rsp])
    n, m      32-bit terms (m only for 2-D programs)
    arrays    dict var name -> dict(index, base (64-bit symbol), region (Region), size (element size), writable, stride (term|None))
    params    dict var name -> dict(index, lo (32-bit term), hi (32-bit term|None), size)
    accums    dict var name -> dict(index, slot)  (slot = position in executor.accumulators, 4 bytes each)
    layout    executor_layout()
    assumptions  list of Bool terms that were added to the solver
    """

    def __init__(self):
        self.machine = None
        self.n = None
        self.m = None
        self.arrays = {}
        self.params = {}
        self.accums = {}
        self.layout = None
        self.assumptions = []
        self.n_max = None
        self.init_mxcsr = None
        self.rows = 1


def initial_mxcsr(rc=0, prefix='init_'):
    """Entry MXCSR: reserved bits 0, FTZ/DAZ/status symbolic, all exceptions masked (assumption), RC = rc (constant)."""
    ftz = z3.BitVec(prefix + 'mxcsr_ftz', 1)
    dazb = z3.BitVec(prefix + 'mxcsr_daz', 1)
    status = z3.BitVec(prefix + 'mxcsr_status', 6)
    return z3.simplify(z3.Concat(z3.BitVecVal(0, 16), ftz, z3.BitVecVal(rc, 2), z3.BitVecVal(0x3f, 6), dazb, status))


def orc_entry_state(prog, solver, n_max, n_min=0, m_max=2, rc=0, symbolic_index=(), constrain_alignment=True, m_min=1):
    """Build the standard entry state for one compiled program.

    prog      JSON dict from `orcdump compile` (uses prog_vars and orccode.is_2d / constant_n)
    solver    z3.Solver; the assumptions (bounds on n and m, natural alignment of the array bases) are added to it
    n_max     bound on the symbolic n (n_min <= n <= n_max, signed)
    symbolic_index  names of source arrays to model as z3-Array backed windows (ldres* resampling)
    Returns EntryState.
    """
    L = executor_layout()
    es = EntryState()
    es.layout = L
    es.n_max = n_max
    mem = Memory()
    EX = z3.BitVec('EX', 64)
    STK = z3.BitVec('STK', 64)
    ex = mem.add(Region('ex', EX, L['sizeof'], True, default=lambda off: z3.BitVec('ex_b%d' % off if off >= 0 else 'ex_bm%d' % -off, 8)))
    stk = mem.add(Region('stack', STK, None, True, default=lambda off: z3.BitVec('stk_b%d' % off if off >= 0 else 'stk_bm%d' % -off, 8)))
    ret = z3.BitVec('RET', 64)
    stk.set_bytes(0, ret, 8)
    n = z3.BitVec('n', 32)
    es.n = n
    ex.set_bytes(L['n'], n, 4)
    asm = [n >= n_min, n <= n_max]
    is2d = bool(prog.get('orccode') and prog['orccode'].get('is_2d'))
    if is2d:
        # a program compiled with a constant m never reads executor.m: the number of rows is that constant
        cm = prog['orccode'].get('constant_m') or 0
        mm_ = z3.BitVec('m', 32)
        es.m = mm_ if not cm else z3.BitVecVal(cm, 32)
        ex.set_bytes(L['params'] + 4 * L['A1'], mm_, 4)
        if cm:
            m_max = cm
            asm += [mm_ == cm]
        else:
            asm += [mm_ >= m_min, mm_ <= m_max]
    es.rows = m_max if is2d else 1
    for v in prog.get('prog_vars', []):
        i, name, vt, size = v['i'], v['name'], VARTYPE.get(v['vartype']), v['size']
        if vt in ('src', 'dest'):
            base = z3.BitVec('A_' + name, 64)
            writable = vt == 'dest'
            stride = z3.BitVec('stride_' + name, 32) if is2d else None
            reg = mem.add(Region(name, base, None, writable, symbolic_index=name in symbolic_index, stride=stride,
                                 rows=m_max if is2d else 1))
            ex.set_bytes(L['arrays'] + 8 * i, base, 8)
            if is2d:
                ex.set_bytes(L['params'] + 4 * i, stride, 4)
            al = v.get('alignment') or size
            if constrain_alignment and al > 1 and (al & (al - 1)) == 0:
                k = al.bit_length() - 1
                asm.append(z3.Extract(k - 1, 0, base) == 0)
                if stride is not None:
                    asm.append(z3.Extract(k - 1, 0, stride) == 0)
            es.arrays[name] = dict(index=i, base=base, region=reg, size=size, writable=writable, stride=stride)
        elif vt == 'param':
            lo = z3.BitVec('p_' + name, 32)
            ex.set_bytes(L['params'] + 4 * i, lo, 4)
            hi = None
            if size == 8:
                hi = z3.BitVec('p_' + name + '_hi', 32)
                ex.set_bytes(L['params'] + 4 * (i + L['T1'] - L['P1']), hi, 4)
            es.params[name] = dict(index=i, lo=lo, hi=hi, size=size)
        elif vt == 'accum':
            es.accums[name] = dict(index=i, slot=i - L['A1'], size=size)
    solver.add(*asm)
    es.assumptions = asm
    m = Machine(mem)
    m.gpr['rdi'] = EX
    m.gpr['rsp'] = STK
    m.df = z3.BoolVal(False)
    m.mxcsr = initial_mxcsr(rc)
    es.init_mxcsr = m.mxcsr
    es.machine = m
    return es


def elements_per_vector(prog, target):
    """register size / largest array element size of the program (used for the default bound on n)."""
    rs = {'mmx': 8, 'sse': 16, 'avx': 32}[target]
    sizes = [v['size'] for v in prog.get('prog_vars', []) if VARTYPE.get(v['vartype']) in ('src', 'dest')]
    return max(1, rs // max(sizes)) if sizes else 1


def default_n_max(prog, target):
    """2 x elements-per-vector + 3, where elements-per-vector is taken for the *smallest* array element so that the
    unrolled main loop is reachable"""
    rs = {'mmx': 8, 'sse': 16, 'avx': 32}[target]
    sizes = [v['size'] for v in prog.get('prog_vars', []) if VARTYPE.get(v['vartype']) in ('src', 'dest')]
    epv = max(1, rs // min(sizes)) if sizes else 1
    return 2 * epv + 3


def run_program(prog, target=None, n_max=None, solver=None, allowed_isa=None, max_steps=20000, max_paths=20000, rc=0,
                symbolic_index=(), n_min=0):
    """decode + entry state + explore for one `orcdump compile` result.  Returns (finals, stats, entry_state, insns)."""
    target = target or prog['target']
    code = bytes.fromhex(prog['orccode']['code'])
    insns = decode(code)
    solver = solver or z3.Solver()
    if n_max is None:
        n_max = default_n_max(prog, target)
    cn = prog['orccode'].get('constant_n') or 0
    es = orc_entry_state(prog, solver, n_max, n_min=n_min, rc=rc, symbolic_index=symbolic_index)
    finals, stats = explore(insns, es.machine, solver, allowed_isa=allowed_isa, max_steps=max_steps, max_paths=max_paths)
    return finals, stats, es, insns
