"""Symbolic machine state and memory model.

Everything is a z3 term.  A Machine is cheap to clone (dict copies + copy-on-write memory regions).
"""
import z3

__all__ = ['Machine', 'Memory', 'Region', 'Fault', 'Unmodelled', 'Access', 'GPR64', 'FLAG_NAMES', 'bv', 'simp', 'byte_name']

GPR64 = ['rax', 'rcx', 'rdx', 'rbx', 'rsp', 'rbp', 'rsi', 'rdi', 'r8', 'r9', 'r10', 'r11', 'r12', 'r13', 'r14', 'r15']
FLAG_NAMES = ('cf', 'pf', 'af', 'zf', 'sf', 'of')     # 'af' is kept in addition to the five flags the SPEC names


def bv(v, w):
    return z3.BitVecVal(v, w)


def simp(t):
    return z3.simplify(t)


class Fault(Exception):
    """The machine cannot continue: unresolvable address, write to a read-only region, step bound, bad jump target.
    `kind` is a short tag, `detail` free text."""

    def __init__(self, kind, detail=''):
        Exception.__init__(self, '%s %s' % (kind, detail))
        self.kind = kind
        self.detail = detail


class Unmodelled(Exception):
    """Instruction (or instruction feature) without semantics.  Callers must report 'inconclusive', never guess."""

    def __init__(self, mnem, ops=()):
        Exception.__init__(self, 'unmodelled %s %s' % (mnem, ','.join(ops) if not isinstance(ops, str) else ops))
        self.mnem = mnem
        self.ops = list(ops) if not isinstance(ops, str) else [ops]


class Access(tuple):
    """One entry of the access log:
    (kind 'R'|'W', region name, offset (int; (row, int) for rows >= 1 of a 2-D array; a 64-bit term for symbolic_index
     regions), nbytes, insn addr,
     pcnd_len (the path condition at the time of the access is machine.pcnd[:pcnd_len]), requires_alignment 0|16|32)"""
    __slots__ = ()
    kind = property(lambda s: s[0])
    region = property(lambda s: s[1])
    offset = property(lambda s: s[2])
    nbytes = property(lambda s: s[3])
    insn_addr = property(lambda s: s[4])
    pcnd_len = property(lambda s: s[5])
    requires_alignment = property(lambda s: s[6])


def byte_name(region, key):
    """Name of the symbol standing for the initial content of one byte: d1_b5, d1_bm3 (offset -3), d1_r1_b5 (row 1)."""
    row, off = (0, key) if isinstance(key, int) else key
    return '%s%s_b%s%d' % (region, '_r%d' % row if row else '', 'm' if off < 0 else '', abs(off))


class Region(object):
    """A contiguous object.

    name      unique name
    base      64-bit z3 term (normally a fresh constant such as BitVec('D1', 64)) or a Python int
    size      int or None (unknown / unbounded).  Offsets outside [0,size) are *not* faults here: they are logged and
              served from `default` so that the caller's entitlement check can see them (int-based regions excepted:
              a concrete address resolves to the int-based region that contains it).
    writable  stores into a read-only region raise Fault('write to read-only region')
    bytes     dict offset -> BitVec(8); shared copy-on-write between forks
    default   callable(offset) -> BitVec(8) used the first time a byte is read that was never written/initialised
              (the created byte is remembered so a second read sees the same value)
    symbolic_index  when True, addresses `base + <symbolic offset>` resolve to this region; such loads are served
              from `array` (z3 Array BitVec64 -> BitVec8, indexed by offset); stores with symbolic offset update it.
              Concrete-offset accesses to such a region also go through the array so both views agree.
    """

    def __init__(self, name, base, size=None, writable=True, init=None, default=None, symbolic_index=False, array=None,
                 stride=None, rows=1):
        self.name = name
        self.base = base if not isinstance(base, int) else int(base)
        self.size = size
        self.writable = writable
        self.bytes = dict(init) if init else {}
        self._owned = True
        self.default = default or (lambda off, _n=name: z3.BitVec(byte_name(_n, off), 8))
        self.symbolic_index = symbolic_index
        self.array = array if array is not None else (z3.Array(name + '_arr', z3.BitVecSort(64), z3.BitVecSort(8)) if symbolic_index else None)
        self._base_id = None if isinstance(self.base, int) else self.base.get_id()
        # 2-D arrays: row k (1 <= k < rows) lives at base + k * zext64(stride); its bytes use keys (k, offset)
        self.stride = stride
        self.rows = rows
        # wide cells: (key, nbytes) -> the whole term last stored there.  `bytes` stays the ground truth; a cell is
        # dropped as soon as any overlapping byte is written.  Avoids re-assembling values from 8 simplified byte terms.
        self.wide = {}
        self._wide_owned = True

    def fork(self):
        r = Region.__new__(Region)
        r.__dict__.update(self.__dict__)
        r._owned = False
        self._owned = False
        r._wide_owned = False
        self._wide_owned = False
        return r

    def _own(self):
        if not self._owned:
            self.bytes = dict(self.bytes)
            self._owned = True

    def get(self, off):
        b = self.bytes.get(off)
        if b is None:
            b = self.default(off)
            self._own()
            self.bytes[off] = b
        return b

    def put(self, off, val):
        self._own()
        self.bytes[off] = val

    @staticmethod
    def key(off, i):
        """byte key i bytes after `off` (off is an int, or (row, int) for rows > 0 of a 2-D array)"""
        return off + i if isinstance(off, int) else (off[0], off[1] + i)

    def _own_wide(self):
        if not self._wide_owned:
            self.wide = dict(self.wide)
            self._wide_owned = True

    def drop_wide(self, off, nbytes):
        """forget every wide cell overlapping [off, off+nbytes)"""
        if not self.wide:
            return
        row = 0 if isinstance(off, int) else off[0]
        lo = off if isinstance(off, int) else off[1]
        dead = []
        for (k, n) in self.wide:
            krow = 0 if isinstance(k, int) else k[0]
            klo = k if isinstance(k, int) else k[1]
            if krow == row and klo < lo + nbytes and lo < klo + n:
                dead.append((k, n))
        if dead:
            self._own_wide()
            for d in dead:
                del self.wide[d]

    def set_bytes(self, off, val, nbytes):
        """Initialise `nbytes` bytes at `off` (little endian) from a term or int; no log entry."""
        if isinstance(val, int):
            val = z3.BitVecVal(val, 8 * nbytes)
        self.drop_wide(off, nbytes)
        for i in range(nbytes):
            self.put(self.key(off, i), z3.simplify(z3.Extract(8 * i + 7, 8 * i, val)))
        if nbytes > 1:
            self._own_wide()
            self.wide[(off, nbytes)] = val

    def peek(self, off, nbytes):
        """Current content (little endian term) without logging."""
        w = self.wide.get((off, nbytes))
        if w is not None:
            return w
        bs = [self.get(self.key(off, i)) for i in range(nbytes)]
        return z3.simplify(z3.Concat(*reversed(bs))) if nbytes > 1 else bs[0]


def _mentions(term, ids, _cache=None):
    """True if `term` contains a sub-term whose id is in `ids`."""
    seen = set()
    stack = [term]
    while stack:
        t = stack.pop()
        i = t.get_id()
        if i in seen:
            continue
        seen.add(i)
        if i in ids:
            return True
        stack.extend(t.children())
    return False


class Memory(object):
    """Region-based memory.  Address resolution: for each region simplify(addr - base) must be a constant; otherwise
    (only for regions with symbolic_index=True) a symbolic offset that no longer mentions any region base; otherwise
    Fault('unresolvable address')."""

    def __init__(self, regions=()):
        self.regions = list(regions)
        self.log = []
        self._byid = None

    def add(self, region):
        self.regions.append(region)
        self._byid = None
        return region

    def region(self, name):
        for r in self.regions:
            if r.name == name:
                return r
        raise KeyError(name)

    def fork(self):
        m = Memory.__new__(Memory)
        m.regions = [r.fork() for r in self.regions]
        m.log = list(self.log)
        m._byid = None
        return m

    # -------------------------------------------------------------------------------------------- resolution
    def _index(self):
        if self._byid is None:
            self._byid = {r._base_id: r for r in self.regions if r._base_id is not None}
        return self._byid

    def resolve(self, addr):
        """-> (region, offset) with offset an int, or a 64-bit term for symbolic_index regions."""
        a = z3.simplify(addr)
        byid = self._index()
        # fast paths: `base` and `const + base`
        r = byid.get(a.get_id())
        if r is not None:
            return r, 0
        if z3.is_bv_value(a):
            v = a.as_long()
            for r in self.regions:
                if isinstance(r.base, int) and r.size is not None and r.base <= v < r.base + r.size:
                    return r, v - r.base
            raise Fault('unresolvable address', '%#x (no concrete region contains it)' % v)
        if z3.is_app_of(a, z3.Z3_OP_BADD) and a.num_args() == 2:
            c0, c1 = a.arg(0), a.arg(1)
            if z3.is_bv_value(c0):
                r = byid.get(c1.get_id())
                if r is not None:
                    return r, c0.as_signed_long()
        for r in self.regions:
            if isinstance(r.base, int):
                continue
            off = z3.simplify(a - r.base)
            if z3.is_bv_value(off):
                return r, off.as_signed_long()
        # rows of 2-D arrays: base + k * zext(stride) + constant
        for r in self.regions:
            if r.stride is None or isinstance(r.base, int):
                continue
            st = z3.ZeroExt(32, r.stride) if r.stride.size() == 32 else r.stride
            for k in range(1, r.rows):
                off = z3.simplify(a - r.base - k * st)
                if z3.is_bv_value(off):
                    return r, (k, off.as_signed_long())
        ids = set(byid)
        for r in self.regions:
            if not r.symbolic_index or isinstance(r.base, int):
                continue
            off = z3.simplify(a - r.base)
            if not _mentions(off, ids):
                return r, off
        raise Fault('unresolvable address', str(a)[:300])

    # -------------------------------------------------------------------------------------------- access
    def load(self, addr, nbytes, m=None, align=0):
        """Little-endian load of nbytes; `m` is the Machine (for pc / path-condition length in the log)."""
        r, o = self.resolve(addr)
        self.log.append(Access(('R', r.name, o, nbytes, m.pc if m is not None else -1, len(m.pcnd) if m is not None else 0, align)))
        if r.symbolic_index:
            ot = o if not isinstance(o, int) else z3.BitVecVal(o, 64)
            bs = [z3.Select(r.array, z3.simplify(ot + i)) for i in range(nbytes)]
        else:
            w = r.wide.get((o, nbytes)) if nbytes > 1 else None
            if w is not None:
                return w
            bs = [r.get(r.key(o, i)) for i in range(nbytes)]
        return z3.Concat(*reversed(bs)) if nbytes > 1 else bs[0]

    def store(self, addr, val, nbytes, m=None, align=0):
        r, o = self.resolve(addr)
        self.log.append(Access(('W', r.name, o, nbytes, m.pc if m is not None else -1, len(m.pcnd) if m is not None else 0, align)))
        if not r.writable:
            raise Fault('write to read-only region', '%s+%s' % (r.name, o))
        assert val.size() == 8 * nbytes, (val.size(), nbytes)
        if r.symbolic_index:
            ot = o if not isinstance(o, int) else z3.BitVecVal(o, 64)
            arr = r.array
            for i in range(nbytes):
                arr = z3.Store(arr, z3.simplify(ot + i), z3.simplify(z3.Extract(8 * i + 7, 8 * i, val)))
            r.array = arr
            return
        v = z3.simplify(val)
        r.drop_wide(o, nbytes)
        for i in range(nbytes):
            r.put(r.key(o, i), z3.simplify(z3.Extract(8 * i + 7, 8 * i, v)))
        if nbytes > 1:
            r._own_wide()
            r.wide[(o, nbytes)] = v


class Machine(object):
    """One symbolic machine state.

    gpr    dict 'rax'..'r15' -> BitVec(64)
    flags  dict 'cf','pf','af','zf','sf','of' -> Bool          df   Bool (direction flag)
    ymm    dict 'ymm0'..'ymm15' -> BitVec(256)  (xmm = low half)
    mm     dict 'mm0'..'mm7' -> BitVec(64)      mmx_dirty  True after any MMX-register instruction, cleared by emms
    mxcsr  BitVec(32)
    mem    Memory        pc  int        pcnd  list[BoolRef]
    fault  None | tuple  ('UD', insn) / ('fault', kind, detail, insn) – set when a path ended abnormally
    halted True once `ret` was executed (pc is then None)
    trace  list of executed instruction addresses (only when Machine.keep_trace) ; steps  count of executed insns
    undef  set of flag names left undefined (SDM) by the *last* executed instruction (validator uses it)
    model  a z3 model known to satisfy pcnd (feasibility witness kept by explore; may be None)
    """
    keep_trace = False

    def __init__(self, mem=None, prefix='init_'):
        self.gpr = {g: z3.BitVec(prefix + g, 64) for g in GPR64}
        self.flags = {f: z3.Bool(prefix + f) for f in FLAG_NAMES}
        self.df = z3.BoolVal(False)
        self.ymm = {'ymm%d' % i: z3.BitVec('%symm%d' % (prefix, i), 256) for i in range(16)}
        self.mm = {'mm%d' % i: z3.BitVec('%smm%d' % (prefix, i), 64) for i in range(8)}
        self.mmx_dirty = False
        self.mxcsr = z3.BitVec(prefix + 'mxcsr', 32)
        self.mem = mem if mem is not None else Memory()
        self.pc = 0
        self.pcnd = []
        self.fault = None
        self.halted = False
        self.trace = []
        self.steps = 0
        self.undef = set()
        self.model = None
        self.decided = None
        self._fresh = [0]          # shared counter: names of fresh symbols stay unique across forks

    def clone(self):
        m = Machine.__new__(Machine)
        m.gpr = dict(self.gpr)
        m.flags = dict(self.flags)
        m.df = self.df
        m.ymm = dict(self.ymm)
        m.mm = dict(self.mm)
        m.mmx_dirty = self.mmx_dirty
        m.mxcsr = self.mxcsr
        m.mem = self.mem.fork()
        m.pc = self.pc
        m.pcnd = list(self.pcnd)
        m.fault = self.fault
        m.halted = self.halted
        m.trace = list(self.trace) if self.keep_trace else []
        m.steps = self.steps
        m.undef = set(self.undef)
        m.model = self.model
        m.decided = self.decided
        m._fresh = self._fresh
        return m

    def fresh(self, what, width=None):
        """Deterministically named fresh symbol (Bool when width is None) for undefined / unmodelled values."""
        self._fresh[0] += 1
        name = 'undef_%s_%d' % (what, self._fresh[0])
        return z3.Bool(name) if width is None else z3.BitVec(name, width)

    def xmm(self, i):
        return z3.simplify(z3.Extract(127, 0, self.ymm['ymm%d' % i]))

    def state_terms(self):
        """Flat dict name -> term of the architectural state (no memory)."""
        d = {}
        d.update(self.gpr)
        d.update(self.flags)
        d['df'] = self.df
        d.update(self.ymm)
        d.update(self.mm)
        d['mxcsr'] = self.mxcsr
        return d
