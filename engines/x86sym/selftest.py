"""Self-test of x86sym:  python3-vt -m engines.x86sym.selftest [--targets sse,avx,mmx] [--fast] [--jobs N]

(1) compiles the single-opcode family (engines.x86sym.family) for sse / avx / mmx with default flags,
(2) symbolically executes every compiled function from the standard Orc entry state and reports per target:
    programs, paths, steps, unmodelled mnemonics (must be none), faults, plus observations on the final states
    (callee-saved registers, rsp, MXCSR[31:6], DF, MMX state left dirty = missing emms).  NOT observed here: whether the
    upper YMM halves are clean on return (vzeroupper) - that is left to the caller's calling-convention check,
(3) for a handful of opcodes compares the final destination bytes with a hand-written z3 reference for every n in
    0..bound and checks that every array access lies inside [0, n*size).

Bounds (printed in the output, nothing is reduced silently):
  * 1-D programs: 0 <= n <= 2 * elements-per-vector + 3 (elements-per-vector for the smallest array element);
    `--fast` halves that bound.
  * 2-D programs (3 per target): n <= 9 and m <= 2 (or the program's constant m).  Each row repeats the whole
    alignment / main / tail decision tree, so the SPEC bound would cost minutes per program; at n <= 9 the unrolled
    main loop is NOT reached for 16-bit elements on sse/avx.
  * ldres* programs: the source array is a symbolic-index window (z3 Array).

Exit status 0 iff no unmodelled mnemonic, no engine exception, and every reference check holds.  Faults and
observations about Orc's code are reported but do not fail the self-test (they are findings about the subject).
"""
import argparse
import collections
import concurrent.futures as cf
import os
import shutil
import sys
import tempfile
import time

import z3

from . import family, orcentry
from .machine import Unmodelled, Fault, GPR64
from .semantics import sat_s, sat_u, lanes, pack

HERE = os.path.dirname(os.path.abspath(__file__))
CALLEE_SAVED = ('rbx', 'rbp', 'r12', 'r13', 'r14', 'r15')
N_2D = 9


def _is_2d(prog):
    return bool(prog['orccode'].get('is_2d'))


def bound_for(prog, target, fast):
    if _is_2d(prog):
        return N_2D
    n = orcentry.default_n_max(prog, target)
    return max(3, n // 2) if fast else n


def _observe(finals, es):
    """Facts about the final states that the property checks will care about (reported, not judged here)."""
    obs = collections.Counter()
    for f in finals:
        if f.fault:
            continue
        for r in CALLEE_SAVED:
            if not z3.eq(z3.simplify(f.gpr[r]), z3.BitVec('init_' + r, 64)):
                obs['callee-saved %s not restored' % r] += 1
        if not z3.eq(z3.simplify(f.gpr['rsp'] - z3.BitVec('STK', 64)), z3.BitVecVal(8, 64)):
            obs['rsp != entry rsp + 8'] += 1
        if not z3.eq(z3.simplify(z3.Extract(31, 6, f.mxcsr)), z3.simplify(z3.Extract(31, 6, es.init_mxcsr))):
            obs['MXCSR[31:6] differs from entry value on return'] += 1
        if f.mmx_dirty:
            obs['MMX state dirty on return (no emms)'] += 1
        if not z3.is_false(z3.simplify(f.df)):
            obs['DF not clear on return'] += 1
    return dict(obs)


def run_one(args):
    prog, target, fast = args
    t0 = time.time()
    name = prog['name']
    out = dict(name=name, target=target, status='ok', paths=0, steps=0, queries=0, faults={}, obs={}, mnemonics=[], n_max=None,
               is_2d=_is_2d(prog))
    try:
        si = tuple(v['name'] for v in prog['prog_vars'] if v['vartype'] == 1) if 'ldres' in name else ()
        n_max = bound_for(prog, target, fast)
        out['n_max'] = n_max
        finals, stats, es, insns = orcentry.run_program(prog, target, n_max=n_max, symbolic_index=si, max_paths=20000)
        out.update(paths=stats['paths'], steps=stats['steps'], queries=stats['queries'], mnemonics=sorted(stats['mnemonics']))
        fl = collections.Counter()
        for f in finals:
            if f.fault:
                fl['%s: %s' % (f.fault[1] if f.fault[0] == 'fault' else f.fault[0], str(f.fault[2])[:80] if len(f.fault) > 2 else '')] += 1
        out['faults'] = dict(fl)
        out['obs'] = _observe(finals, es)
    except Unmodelled as e:
        out['status'] = 'unmodelled'
        out['detail'] = '%s %s' % (e.mnem, ','.join(e.ops))
    except Fault as e:
        out['status'] = 'engine-fault'
        out['detail'] = str(e)[:200]
    except Exception:
        import traceback
        out['status'] = 'exception'
        out['detail'] = traceback.format_exc()[-600:]
    out['wall'] = round(time.time() - t0, 1)
    return out


# ------------------------------------------------------------------------------------------------ reference checks
def _f32(op):
    """reference for addf / cmpltf under the MXCSR Orc establishes (DAZ|FTZ set, RC from the entry state = nearest);
    independent of engines.x86sym.fp: written directly against the z3 FP theory."""
    F = z3.Float32()

    def flush_in(x):
        den = z3.And(z3.Extract(30, 23, x) == 0, z3.Extract(22, 0, x) != 0)
        return z3.If(den, z3.Concat(z3.Extract(31, 31, x), z3.BitVecVal(0, 31)), x)

    def isnan(x):
        return z3.And(z3.Extract(30, 23, x) == 0xff, z3.Extract(22, 0, x) != 0)

    def f(a, b):
        a, b = flush_in(a), flush_in(b)
        fa, fb = z3.fpBVToFP(a, F), z3.fpBVToFP(b, F)
        if op == 'cmplt':
            return z3.If(z3.fpLT(fa, fb), z3.BitVecVal(-1, 32), z3.BitVecVal(0, 32))
        r = z3.fpAdd(z3.RNE(), fa, fb)
        rb = z3.fpToIEEEBV(r)
        rb = z3.If(z3.fpIsSubnormal(r), z3.Concat(z3.Extract(31, 31, rb), z3.BitVecVal(0, 31)), rb)
        return ('nan-or', isnan(a), isnan(b), z3.fpIsNaN(r), rb)
    return f


def _ref_table():
    """opcode -> (recipe kind, dest size, src sizes, reference(list of source element terms) -> dest element term)"""
    sx, zx = z3.SignExt, z3.ZeroExt
    return {
        'addb': ('array', 1, (1, 1), lambda a, b: a + b),
        'addssw': ('array', 2, (2, 2), lambda a, b: sat_s(sx(16, a) + sx(16, b), 16)),
        'mulhsw': ('array', 2, (2, 2), lambda a, b: z3.Extract(31, 16, sx(16, a) * sx(16, b))),
        'shruw': ('const', 2, (2,), lambda a: z3.LShR(a, 3)),              # family constant is 3
        'avgub': ('array', 1, (1, 1), lambda a, b: z3.Extract(8, 1, zx(1, a) + zx(1, b) + 1)),
        'convsuswb': ('array', 1, (2,), lambda a: sat_u(sx(16, a), 8)),
        'select0wb': ('array', 1, (2,), lambda a: z3.Extract(7, 0, a)),
        'mergebw': ('array', 2, (1, 1), lambda a, b: z3.Concat(b, a)),
        'swapl': ('array', 4, (4,), lambda a: z3.Concat(z3.Extract(7, 0, a), z3.Extract(15, 8, a), z3.Extract(23, 16, a), z3.Extract(31, 24, a))),
        'absl': ('array', 4, (4,), lambda a: z3.If(a < 0, -a, a)),
        'addf': ('array', 4, (4, 4), _f32('add')),
        'cmpltf': ('array', 4, (4, 4), _f32('cmplt')),
    }


REF_QUERY_TIMEOUT_MS = 120000


def reference_check(args):
    """One opcode on one target.  Decomposition (each obligation is discharged by the solver, nothing is sampled):
      data      for every *distinct* final destination element term: got == reference(source elements), proved without the
                path condition (the data path does not depend on n) and cached by term identity.  FP results: when the
                reference result is NaN only NaN-ness is compared (callers only rely on that).
      coverage  per path: the set of written destination elements is exactly {i | i < n}; unwritten bytes keep their
                initial symbols; nothing outside [0, n_max*size) is written.
      access    every array access lies in [0, n*size) under the path condition at the time of the access; the queries
                are de-duplicated over paths sharing the same path-condition prefix.
    A solver 'unknown' (timeout REF_QUERY_TIMEOUT_MS per query) is reported as inconclusive, never as holding.
    Returns dict(name, target, op, paths, queries, distinct_terms, violations, inconclusive, status, wall)."""
    prog, target, opname, fast = args
    kind, dsz, ssz, ref = _ref_table()[opname]
    t0 = time.time()
    res = dict(name=prog['name'], target=target, op=opname, paths=0, queries=0, distinct_terms=0, violations=[], inconclusive=[],
               status='ok')
    try:
        solver = z3.Solver()
        n_max = bound_for(prog, target, fast)
        finals, stats, es, insns = orcentry.run_program(prog, target, n_max=n_max, solver=solver)
        res['paths'] = stats['paths']
        res['n_max'] = n_max
        n = es.n
        srcs = [nm for nm, a in sorted(es.arrays.items(), key=lambda kv: kv[1]['index']) if not a['writable']]
        dname = [nm for nm, a in es.arrays.items() if a['writable']][0]
        data_solver = z3.Solver()
        data_solver.set('timeout', REF_QUERY_TIMEOUT_MS)
        solver.set('timeout', REF_QUERY_TIMEOUT_MS)
        verdict = {}            # (lane index, id of got term) -> 'ok' | 'bad' | 'unknown'
        acc_done = {}
        viol, inc = set(), set()

        def initial(i):
            bs = [z3.BitVec('%s_b%d' % (dname, i * dsz + k), 8) for k in range(dsz)]
            return z3.simplify(z3.Concat(*reversed(bs))) if dsz > 1 else bs[0]

        for f in finals:
            if f.fault:
                viol.add('path ended with %s' % (f.fault[:3],))
                continue
            dreg = f.mem.region(dname)
            cov = []
            for i in range(n_max):
                got = z3.simplify(dreg.peek(i * dsz, dsz))
                written = not z3.eq(got, initial(i))
                inb = z3.BitVecVal(i, 32) < n
                cov.append(z3.Not(inb) if written else inb)
                if not written:
                    continue
                key = (i, got.get_id())
                if key not in verdict:
                    elems = [z3.simplify(z3.Concat(*reversed([z3.BitVec('%s_b%d' % (sn, i * sz + k), 8) for k in range(sz)]))) if sz > 1
                             else z3.BitVec('%s_b%d' % (sn, i * sz), 8) for sn, sz in zip(srcs, ssz)]
                    want = ref(*elems)
                    if isinstance(want, tuple):
                        _, na, nb, rnan, rb = want
                        gnan = z3.And(z3.Extract(30, 23, got) == 0xff, z3.Extract(22, 0, got) != 0)
                        wrong = z3.If(rnan, z3.Not(gnan), got != rb)
                    else:
                        wrong = got != want
                    data_solver.push()
                    data_solver.add(wrong)
                    res['queries'] += 1
                    r = data_solver.check()
                    data_solver.pop()
                    verdict[key] = 'ok' if r == z3.unsat else ('bad' if r == z3.sat else 'unknown')
                v = verdict[key]
                if v == 'bad':
                    viol.add('dest element %d != reference' % i)
                elif v == 'unknown':
                    inc.add('data equivalence of element %d: solver gave no answer within %d s' % (i, REF_QUERY_TIMEOUT_MS // 1000))
            stray = [k for k in dreg.bytes if isinstance(k, int) and (k < 0 or k >= n_max * dsz)
                     and not z3.eq(dreg.bytes[k], z3.BitVec('%s_b%s%d' % (dname, 'm' if k < 0 else '', abs(k)), 8))]
            if stray:
                viol.add('dest bytes written outside [0, n_max*size): %s' % sorted(stray)[:6])
            solver.push()
            solver.add(*f.pcnd)
            solver.add(z3.Or(*cov))
            res['queries'] += 1
            r = solver.check()
            if r == z3.sat:
                viol.add('written elements != {i < n}, e.g. n=%s' % solver.model().eval(n))
            elif r != z3.unsat:
                inc.add('coverage query unknown')
            solver.pop()
            for a in f.mem.log:
                if a.region in ('ex', 'stack'):
                    continue
                if not isinstance(a.offset, int):
                    viol.add('non-constant offset into %s' % a.region)
                    continue
                pre = f.pcnd[:a.pcnd_len]
                key = (a.kind, a.region, a.offset, a.nbytes, a.insn_addr, a.pcnd_len, pre[-1].get_id() if pre else 0)
                if key in acc_done:
                    continue
                acc_done[key] = True
                sz = dsz if a.region == dname else ssz[srcs.index(a.region)]
                if a.offset < 0:
                    viol.add('%s access at negative offset %d' % (a.region, a.offset))
                    continue
                if a.kind == 'W' and a.region != dname:
                    viol.add('write to source %s' % a.region)
                solver.push()
                solver.add(*pre)
                solver.add(z3.BitVecVal(a.offset + a.nbytes, 32) > n * sz)
                res['queries'] += 1
                r = solver.check()
                if r == z3.sat:
                    viol.add('%s %s+%d..%d beyond n*size at insn %#x' % (a.kind, a.region, a.offset, a.offset + a.nbytes, a.insn_addr))
                elif r != z3.unsat:
                    inc.add('access query unknown')
                solver.pop()
        res['distinct_terms'] = len(verdict)
        res['violations'] = sorted(viol)[:10]
        res['inconclusive'] = sorted(inc)[:10]
    except Unmodelled as e:
        res['status'] = 'unmodelled'
        res['violations'] = [str(e)]
    except Exception:
        import traceback
        res['status'] = 'exception'
        res['violations'] = [traceback.format_exc()[-500:]]
    res['wall'] = round(time.time() - t0, 1)
    return res


# ------------------------------------------------------------------------------------------------ driver
def selftest(targets=('sse', 'avx', 'mmx'), fast=False, jobs=None, exe=None, limit=None, refs=True, out=sys.stdout):
    """Runs the self-test, prints the report, returns (ok, summary dict)."""
    t_start = time.time()
    w = out.write
    workdir = tempfile.mkdtemp(prefix='x86sym-selftest-')
    jobs = jobs or min(16, os.cpu_count() or 4)
    summary = dict(targets={}, refs=[], ok=True)
    try:
        if exe is None:
            sys.path.insert(0, os.path.dirname(os.path.dirname(HERE)))
            from lib import build
            b = build.Build('x86sym-st')
            exe = b.native_prog('orcdump', [os.path.join(os.path.dirname(os.path.dirname(HERE)), 'native', 'orcdump.c')])
        opcodes = family.load_opcodes(exe)
        for t in targets:
            fam = family.family(opcodes, t)
            res = family.compile_family(exe, t, 'default', recipes=fam, cwd=workdir)
            all_progs = [r for r in res if r.get('orccode') and r['orccode'].get('code')]
            refused = {r['name']: (r.get('error') or r.get('abnormal') or 'no code') for r in res if r not in all_progs}
            not_compiled = len(res) - len(all_progs)
            progs = all_progs[::max(1, len(all_progs) // limit)] if limit else all_progs
            t0 = time.time()
            with cf.ProcessPoolExecutor(max_workers=jobs) as ex:
                rows = list(ex.map(run_one, [(p, t, fast) for p in progs], chunksize=1))
            unm = sorted({r['detail'] for r in rows if r['status'] == 'unmodelled'})
            exc = [r for r in rows if r['status'] in ('exception', 'engine-fault')]
            faults = collections.Counter()
            obs = collections.Counter()
            for r in rows:
                for k, v in r['faults'].items():
                    faults[k] += v
                for k in r['obs']:
                    obs[k] += 1
            mn = set()
            for r in rows:
                mn.update(r['mnemonics'])
            ts = dict(family=len(fam), compiled=len(all_progs), selected=len(progs), not_compiled=not_compiled, executed=sum(r['status'] == 'ok' for r in rows),
                      paths=sum(r['paths'] for r in rows), steps=sum(r['steps'] for r in rows), queries=sum(r['queries'] for r in rows),
                      unmodelled=unm, exceptions=len(exc), faults=dict(faults), observations=dict(obs), mnemonics=len(mn),
                      wall_s=round(time.time() - t0, 1), programs_with_faults=sorted(r['name'] for r in rows if r['faults']),
                      n_bounds=dict(collections.Counter(r['n_max'] for r in rows if r['n_max'] is not None)),
                      two_d=sorted(r['name'] for r in rows if r['is_2d']))
            summary['targets'][t] = ts
            w('== %s: family %d recipes, orc compiled %d / refused %d; selected for execution %d%s, executed %d, paths %d, steps %d, '
              'feasibility queries %d, distinct mnemonics %d, wall %.1fs\n' % (
                  t, ts['family'], ts['compiled'], not_compiled, ts['selected'], ' (SAMPLE: --limit)' if limit else ' (all)', ts['executed'],
                  ts['paths'], ts['steps'], ts['queries'], ts['mnemonics'], ts['wall_s']))
            w('   n bounds used (bound: programs): %s%s; 2-D programs run with n<=%d, m<=2 or constant m: %s\n' % (
                ts['n_bounds'], ' [--fast: halved]' if fast else '', N_2D, ts['two_d']))
            w('   unmodelled: %s\n' % (unm if unm else 'none'))
            if exc:
                summary['ok'] = False
                for r in exc[:10]:
                    w('   ENGINE %s in %s: %s\n' % (r['status'], r['name'], r.get('detail', '')[-300:].replace('\n', ' | ')))
            if unm:
                summary['ok'] = False
            w('   faults: %s\n' % (dict(faults) if faults else 'none'))
            if faults:
                w('   programs with faults: %s\n' % ts['programs_with_faults'][:20])
            w('   observations on final states (programs affected): %s\n' % (dict(obs) if obs else 'none'))
            slow = sorted(rows, key=lambda r: -r['wall'])[:3]
            w('   slowest: %s\n' % [(r['name'], r['paths'], r['wall']) for r in slow])
            out.flush()
            if refs:
                byname = {p['name']: p for p in all_progs}          # never subsampled
                jobs_l = []
                expected = 0
                for opname, (kind, _, _, _) in _ref_table().items():
                    nm = '%s_%s_x1' % (opname, kind)
                    if nm in byname:
                        expected += 1
                        jobs_l.append((byname[nm], t, opname, fast))
                    elif nm in refused:
                        w('   ref %-10s %-4s not applicable: orc refused %s: %s\n' % (opname, t, nm, refused[nm]))
                    else:
                        summary['ok'] = False
                        w('   ref %-10s %-4s MISSING: recipe %s is not in the family (self-test defect)\n' % (opname, t, nm))
                with cf.ProcessPoolExecutor(max_workers=jobs) as ex:
                    rr = list(ex.map(reference_check, jobs_l, chunksize=1))
                for r in rr:
                    summary['refs'].append(r)
                    okr = r['status'] == 'ok' and not r['violations'] and not r['inconclusive']
                    if not okr:
                        summary['ok'] = False
                    word = 'holds' if okr else ('VIOLATED: %s' % r['violations'][:3] if r['violations'] or r['status'] != 'ok'
                                                else 'INCONCLUSIVE: %s' % r['inconclusive'][:2])
                    w('   ref %-10s %-4s n<=%-3s paths %-5d queries %-6d distinct element terms %-4d %s (%.1fs)\n' % (
                        r['op'], t, r.get('n_max'), r['paths'], r['queries'], r['distinct_terms'], word, r['wall']))
                held = sum(1 for r in rr if r['status'] == 'ok' and not r['violations'] and not r['inconclusive'])
                ts['refs'] = dict(expected=expected, run=len(rr), held=held)
                w('   reference checks on %s: held %d / run %d / expected %d\n' % (t, held, len(rr), expected))
                if len(rr) == 0 or len(rr) != expected:
                    summary['ok'] = False
                    w('   FAIL: reference checks did not all run\n')
                out.flush()
        summary['wall_s'] = round(time.time() - t_start, 1)
        w('SELFTEST %s wall %.1fs\n' % ('PASS' if summary['ok'] else 'FAIL', summary['wall_s']))
        return summary['ok'], summary
    finally:
        shutil.rmtree(workdir, ignore_errors=True)


def main(argv=None):
    ap = argparse.ArgumentParser(description='x86sym self-test')
    ap.add_argument('--targets', default='sse,avx,mmx')
    ap.add_argument('--fast', action='store_true', help='halve the bound on n for 1-D programs')
    ap.add_argument('--jobs', type=int, default=None)
    ap.add_argument('--exe', default=None, help='existing orcdump binary')
    ap.add_argument('--limit', type=int, default=None, help='run only about this many programs per target (sampling every k-th)')
    ap.add_argument('--no-refs', action='store_true')
    a = ap.parse_args(argv)
    ok, _ = selftest(tuple(a.targets.split(',')), fast=a.fast, jobs=a.jobs, exe=a.exe, limit=a.limit, refs=not a.no_refs)
    return 0 if ok else 1


if __name__ == '__main__':
    sys.exit(main())
