"""SSE/AVX floating point on z3 terms, MXCSR aware.

All functions take and return *bit-vector* lanes (32 or 64 bit); the z3 FP theory is used inside.

Modelled (and validated against the host CPU by validate.py):
  * DAZ (MXCSR bit 6): denormal inputs are replaced by a zero of the same sign before the operation
  * FTZ (MXCSR bit 15): a tiny non-zero result (tininess detected *after* rounding with unbounded exponent, as x86
    does) is replaced by a zero of the same sign.  All exceptions are assumed masked.
  * RC (bits 13-14): must simplify to a constant, otherwise Unmodelled('symbolic rounding mode')
  * NaN results carry the payload the SDM prescribes (first NaN operand quieted, else real indefinite)
  * min/max return the second source when either operand is NaN or both are zero (plain `a < b ? a : b`)
  * float -> int32 out of range or NaN gives the integer indefinite 0x80000000
The sticky exception flags (MXCSR bits 0-5) are not computed; semantics.py replaces them by fresh symbols after every
instruction that may raise them.
"""
import z3
from .machine import Unmodelled

F32 = z3.Float32()
F64 = z3.Float64()


def _sort(w):
    return F32 if w == 32 else F64


def _eb(w):
    return 8 if w == 32 else 11


def _sb(w):
    return 24 if w == 32 else 53


def _as_bool(t):
    t = z3.simplify(t)
    if z3.is_true(t):
        return True
    if z3.is_false(t):
        return False
    return t


def _If(c, a, b):
    if c is True:
        return a
    if c is False:
        return b
    return z3.If(c, a, b)


def _And(*cs):
    cs = [c for c in cs if c is not True]
    if any(c is False for c in cs):
        return False
    if not cs:
        return True
    return cs[0] if len(cs) == 1 else z3.And(*cs)


class FPEnv(object):
    """View of one MXCSR term."""

    def __init__(self, mxcsr):
        self.mxcsr = mxcsr
        self.daz = _as_bool(z3.Extract(6, 6, mxcsr) == 1)
        self.ftz = _as_bool(z3.Extract(15, 15, mxcsr) == 1)
        self._rm = None

    @property
    def rm(self):
        if self._rm is None:
            rc = z3.simplify(z3.Extract(14, 13, self.mxcsr))
            if not z3.is_bv_value(rc):
                raise Unmodelled('symbolic rounding mode', [str(rc)[:80]])
            self._rm = (z3.RNE(), z3.RTN(), z3.RTP(), z3.RTZ())[rc.as_long()]
        return self._rm


# ------------------------------------------------------------------------------------------------ bit-level predicates
def exp_bits(x):
    w = x.size()
    return z3.Extract(w - 2, _sb(w) - 1, x)


def man_bits(x):
    return z3.Extract(_sb(x.size()) - 2, 0, x)


def sign_bit(x):
    w = x.size()
    return z3.Extract(w - 1, w - 1, x)


def is_nan(x):
    return z3.And(exp_bits(x) == -1, man_bits(x) != 0)


def is_denormal(x):
    return z3.And(exp_bits(x) == 0, man_bits(x) != 0)


def signed_zero(x):
    """zero with the sign of x"""
    w = x.size()
    return z3.Concat(sign_bit(x), z3.BitVecVal(0, w - 1))


def quiet(x):
    w = x.size()
    return x | z3.BitVecVal(1 << (_sb(w) - 2), w)


def default_nan(w):
    """x86 'real indefinite' QNaN: sign set, quiet bit set, payload 0."""
    return z3.BitVecVal(0xffc00000 if w == 32 else 0xfff8000000000000, w)


def daz(env, x):
    return _If(_And(env.daz, is_denormal(x)) if env.daz is not False else False, signed_zero(x), x)


def to_fp(x):
    return z3.fpBVToFP(x, _sort(x.size()))


def _min_normal(sort, w):
    # 2^(1-bias) of the *narrow* format expressed in `sort`
    e = -126 if w == 32 else -1022
    return z3.FPVal(2.0 ** e, sort)


def _finish(env, w, r, nan_bits, tiny):
    """r: native-format FP result (used when not flushed); tiny: Bool|True|False says the result is tiny & non-zero."""
    rb = z3.fpToIEEEBV(r)
    flush = _And(env.ftz, tiny)
    rb = _If(flush, signed_zero(rb), rb)
    return z3.If(z3.fpIsNaN(r), nan_bits, rb)


def _nan_binary(a, b):
    w = a.size()
    return z3.If(is_nan(a), quiet(a), z3.If(is_nan(b), quiet(b), default_nan(w)))


def arith(env, op, a, b):
    """op in 'add','sub','mul','div'; a = first source (destination operand for legacy SSE), b = second source."""
    w = a.size()
    a = daz(env, a)
    b = daz(env, b)
    fa, fb = to_fp(a), to_fp(b)
    rm = env.rm
    f = {'add': z3.fpAdd, 'sub': z3.fpSub, 'mul': z3.fpMul, 'div': z3.fpDiv}[op]
    nanb = _nan_binary(a, b)
    if op in ('add', 'sub'):
        # a denormal sum of two floats is always exact, so "tiny after rounding" == "result is denormal"
        r = f(rm, fa, fb)
        return _finish(env, w, r, nanb, z3.fpIsSubnormal(r) if env.ftz is not False else False)
    if env.ftz is False:
        return _finish(env, w, f(rm, fa, fb), nanb, False)
    # tininess after rounding: round to the same precision with an exponent range wide enough never to underflow
    wide = z3.FPSort(_eb(w) + 3, _sb(w))
    rw = f(rm, z3.fpFPToFP(rm, fa, wide), z3.fpFPToFP(rm, fb, wide))
    tiny = z3.And(z3.fpLT(z3.fpAbs(rw), _min_normal(wide, w)), z3.Not(z3.fpIsZero(rw)))
    if env.ftz is True:
        # not tiny => narrowing the already rounded wide value is exact or overflows exactly like the direct operation
        r = z3.fpFPToFP(rm, rw, _sort(w))
        rb = z3.fpToIEEEBV(r)
        sgn = z3.If(z3.fpIsNegative(rw), z3.BitVecVal(1, 1), z3.BitVecVal(0, 1))
        rb = z3.If(tiny, z3.Concat(sgn, z3.BitVecVal(0, w - 1)), rb)
        return z3.If(z3.fpIsNaN(rw), nanb, rb)
    r = f(rm, fa, fb)
    return _finish(env, w, r, nanb, tiny)


def sqrt(env, a):
    w = a.size()
    a = daz(env, a)
    fa = to_fp(a)
    r = z3.fpSqrt(env.rm, fa)
    nanb = z3.If(is_nan(a), quiet(a), default_nan(w))
    return z3.If(z3.fpIsNaN(r), nanb, z3.fpToIEEEBV(r))


def minmax(env, which, a, b):
    """SDM: IF (a < b) THEN a ELSE b  (min) / IF (a > b) THEN a ELSE b (max); b = second source operand."""
    a = daz(env, a)
    b = daz(env, b)
    fa, fb = to_fp(a), to_fp(b)
    c = z3.fpLT(fa, fb) if which == 'min' else z3.fpGT(fa, fb)
    return z3.If(c, a, b)


# predicate -> (LT, EQ, GT, UNORDERED) truth values, SDM table "Comparison Predicate for CMPPD and CMPPS"
CMP_PRED = {
    0: (0, 1, 0, 0), 1: (1, 0, 0, 0), 2: (1, 1, 0, 0), 3: (0, 0, 0, 1), 4: (1, 0, 1, 1), 5: (0, 1, 1, 1), 6: (0, 0, 1, 1), 7: (1, 1, 1, 0),
    8: (0, 1, 0, 1), 9: (1, 0, 0, 1), 10: (1, 1, 0, 1), 11: (0, 0, 0, 0), 12: (1, 0, 1, 0), 13: (0, 1, 1, 0), 14: (0, 0, 1, 0), 15: (1, 1, 1, 1),
}
for _k in range(16):
    CMP_PRED[16 + _k] = CMP_PRED[_k]      # 16..31 differ only in signalling behaviour
CMP_NAMES = ['eq', 'lt', 'le', 'unord', 'neq', 'nlt', 'nle', 'ord', 'eq_uq', 'nge', 'ngt', 'false', 'neq_oq', 'ge', 'gt', 'true',
             'eq_os', 'lt_oq', 'le_oq', 'unord_s', 'neq_us', 'nlt_uq', 'nle_uq', 'ord_s', 'eq_us', 'nge_uq', 'ngt_uq', 'false_os',
             'neq_os', 'ge_oq', 'gt_oq', 'true_us']


def compare(env, pred, a, b):
    w = a.size()
    a = daz(env, a)
    b = daz(env, b)
    fa, fb = to_fp(a), to_fp(b)
    lt, eq, gt, un = CMP_PRED[pred]
    terms = []
    if lt:
        terms.append(z3.fpLT(fa, fb))
    if eq:
        terms.append(z3.fpEQ(fa, fb))
    if gt:
        terms.append(z3.fpGT(fa, fb))
    if un:
        terms.append(z3.Or(z3.fpIsNaN(fa), z3.fpIsNaN(fb)))
    c = z3.Or(*terms) if terms else z3.BoolVal(False)
    return z3.If(c, z3.BitVecVal(-1, w), z3.BitVecVal(0, w))


# ------------------------------------------------------------------------------------------------ conversions
def int32_to_fp(env, x, w):
    """cvtdq2ps (w=32, rounds) / cvtdq2pd (w=64, exact)"""
    r = z3.fpSignedToFP(env.rm if w == 32 else z3.RNE(), x, _sort(w))
    return z3.fpToIEEEBV(r)


def int64_to_fp(env, x, w):
    r = z3.fpSignedToFP(env.rm, x, _sort(w))
    return z3.fpToIEEEBV(r)


def fp_to_int(env, a, truncate, iw=32):
    """cvt(t)ps2dq / cvt(t)pd2dq lanes (and the 64-bit integer forms with iw=64): indefinite on NaN / out of range."""
    a = daz(env, a)
    fa = to_fp(a)
    rm = z3.RTZ() if truncate else env.rm
    r = z3.fpRoundToIntegral(rm, fa)
    srt = _sort(a.size())
    lo = z3.FPVal(-(2.0 ** (iw - 1)), srt)
    hi = z3.FPVal(2.0 ** (iw - 1), srt)
    ok = z3.And(z3.fpGEQ(r, lo), z3.fpLT(r, hi))
    return z3.If(ok, z3.fpToSBV(z3.RTZ(), r, z3.BitVecSort(iw)), z3.BitVecVal(1 << (iw - 1), iw))


def f32_to_f64(env, a):
    a = daz(env, a)
    r = z3.fpFPToFP(z3.RNE(), to_fp(a), F64)
    nanb = z3.Concat(sign_bit(a), z3.BitVecVal(0x7ff, 11), z3.BitVecVal(1, 1), z3.Extract(21, 0, a), z3.BitVecVal(0, 29))
    return z3.If(is_nan(a), nanb, z3.fpToIEEEBV(r))


def f64_to_f32(env, a):
    a = daz(env, a)
    fa = to_fp(a)
    rm = env.rm
    nanb = z3.Concat(sign_bit(a), z3.BitVecVal(0xff, 8), z3.BitVecVal(1, 1), z3.Extract(50, 29, a))
    r = z3.fpFPToFP(rm, fa, F32)
    if env.ftz is False:
        tiny = False
    else:
        wide = z3.FPSort(11, 24)
        rw = z3.fpFPToFP(rm, fa, wide)
        tiny = z3.And(z3.fpLT(z3.fpAbs(rw), _min_normal(wide, 32)), z3.Not(z3.fpIsZero(rw)))
    rb = z3.fpToIEEEBV(r)
    rb = _If(_And(env.ftz, tiny), signed_zero(rb), rb)
    return z3.If(is_nan(a), nanb, rb)
