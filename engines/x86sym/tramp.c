/* Native validation trampoline for x86sym.
 *
 * Reads test records from stdin, runs each instruction sequence on the host CPU from the given architectural state
 * and writes the resulting state to stdout.  Three pages are mapped at fixed addresses so that the Python side can
 * compute effective addresses:
 *     BUF   0x10000000  scratch data memory (one page; the first BUFSZ bytes are part of the test vector)
 *     STATE 0x20000000  register file image (in at +0x000, out at +0x400, host save area at +0x800)
 *     CODE  0x30000000  [prologue: load state][instruction bytes under test][epilogue: save state, return]
 *
 * State image (in and out):  +0x00 rax rcx rdx rbx rsp rbp rsi rdi r8..r15 | +0x80 rflags | +0x88 mxcsr
 *                            +0x90 mm0..mm7 | +0x100 ymm0..ymm15
 * Record in : u32 codelen, u8 code[28], u8 state[0x300], u8 buf[BUFSZ]
 * Record out: u32 status (0 ok, else signal number), u32 pad, u8 state[0x300], u8 buf[BUFSZ]
 *
 * A faulting test (SIGSEGV/SIGILL/SIGBUS/SIGFPE) is reported through status and the run continues.
 */
#define _GNU_SOURCE
#include <stdio.h>
#include <stdlib.h>
#include <string.h>
#include <stdint.h>
#include <signal.h>
#include <setjmp.h>
#include <unistd.h>
#include <sys/mman.h>

#define BUF_ADDR   0x10000000UL
#define STATE_ADDR 0x20000000UL
#define CODE_ADDR  0x30000000UL
#define BUFSZ 1024
#define STSZ 0x300
#define CODEMAX 28

extern char tramp_pre[], tramp_pre_end[], tramp_post[], tramp_post_end[];

__asm__(
".text\n"
".globl tramp_pre\n.globl tramp_pre_end\n.globl tramp_post\n.globl tramp_post_end\n"
"tramp_pre:\n"
"  push %rbx\n  push %rbp\n  push %r12\n  push %r13\n  push %r14\n  push %r15\n"
"  movabs $0x20000000, %rax\n"
"  mov %rsp, 0x800(%rax)\n"
"  ldmxcsr 0x88(%rax)\n"
"  vmovdqu 0x100(%rax), %ymm0\n  vmovdqu 0x120(%rax), %ymm1\n  vmovdqu 0x140(%rax), %ymm2\n  vmovdqu 0x160(%rax), %ymm3\n"
"  vmovdqu 0x180(%rax), %ymm4\n  vmovdqu 0x1a0(%rax), %ymm5\n  vmovdqu 0x1c0(%rax), %ymm6\n  vmovdqu 0x1e0(%rax), %ymm7\n"
"  vmovdqu 0x200(%rax), %ymm8\n  vmovdqu 0x220(%rax), %ymm9\n  vmovdqu 0x240(%rax), %ymm10\n  vmovdqu 0x260(%rax), %ymm11\n"
"  vmovdqu 0x280(%rax), %ymm12\n  vmovdqu 0x2a0(%rax), %ymm13\n  vmovdqu 0x2c0(%rax), %ymm14\n  vmovdqu 0x2e0(%rax), %ymm15\n"
"  movq 0x90(%rax), %mm0\n  movq 0x98(%rax), %mm1\n  movq 0xa0(%rax), %mm2\n  movq 0xa8(%rax), %mm3\n"
"  movq 0xb0(%rax), %mm4\n  movq 0xb8(%rax), %mm5\n  movq 0xc0(%rax), %mm6\n  movq 0xc8(%rax), %mm7\n"
"  pushq 0x80(%rax)\n  popfq\n"
"  mov 0x08(%rax), %rcx\n  mov 0x10(%rax), %rdx\n  mov 0x18(%rax), %rbx\n  mov 0x28(%rax), %rbp\n"
"  mov 0x30(%rax), %rsi\n  mov 0x38(%rax), %rdi\n  mov 0x40(%rax), %r8\n  mov 0x48(%rax), %r9\n"
"  mov 0x50(%rax), %r10\n  mov 0x58(%rax), %r11\n  mov 0x60(%rax), %r12\n  mov 0x68(%rax), %r13\n"
"  mov 0x70(%rax), %r14\n  mov 0x78(%rax), %r15\n"
"  mov 0x20(%rax), %rsp\n"
"  mov 0x00(%rax), %rax\n"
"tramp_pre_end:\n"
"tramp_post:\n"
"  movabs %rax, 0x20000400\n"
"  movabs $0x20000000, %rax\n"
"  mov %rsp, 0x420(%rax)\n"
"  mov 0x800(%rax), %rsp\n"
"  pushfq\n  popq 0x480(%rax)\n"
"  mov %rcx, 0x408(%rax)\n  mov %rdx, 0x410(%rax)\n  mov %rbx, 0x418(%rax)\n  mov %rbp, 0x428(%rax)\n"
"  mov %rsi, 0x430(%rax)\n  mov %rdi, 0x438(%rax)\n  mov %r8, 0x440(%rax)\n  mov %r9, 0x448(%rax)\n"
"  mov %r10, 0x450(%rax)\n  mov %r11, 0x458(%rax)\n  mov %r12, 0x460(%rax)\n  mov %r13, 0x468(%rax)\n"
"  mov %r14, 0x470(%rax)\n  mov %r15, 0x478(%rax)\n"
"  stmxcsr 0x488(%rax)\n"
"  vmovdqu %ymm0, 0x500(%rax)\n  vmovdqu %ymm1, 0x520(%rax)\n  vmovdqu %ymm2, 0x540(%rax)\n  vmovdqu %ymm3, 0x560(%rax)\n"
"  vmovdqu %ymm4, 0x580(%rax)\n  vmovdqu %ymm5, 0x5a0(%rax)\n  vmovdqu %ymm6, 0x5c0(%rax)\n  vmovdqu %ymm7, 0x5e0(%rax)\n"
"  vmovdqu %ymm8, 0x600(%rax)\n  vmovdqu %ymm9, 0x620(%rax)\n  vmovdqu %ymm10, 0x640(%rax)\n  vmovdqu %ymm11, 0x660(%rax)\n"
"  vmovdqu %ymm12, 0x680(%rax)\n  vmovdqu %ymm13, 0x6a0(%rax)\n  vmovdqu %ymm14, 0x6c0(%rax)\n  vmovdqu %ymm15, 0x6e0(%rax)\n"
"  movq %mm0, 0x490(%rax)\n  movq %mm1, 0x498(%rax)\n  movq %mm2, 0x4a0(%rax)\n  movq %mm3, 0x4a8(%rax)\n"
"  movq %mm4, 0x4b0(%rax)\n  movq %mm5, 0x4b8(%rax)\n  movq %mm6, 0x4c0(%rax)\n  movq %mm7, 0x4c8(%rax)\n"
"  emms\n  vzeroupper\n  cld\n"
"  ldmxcsr 0x808(%rax)\n"
"  pop %r15\n  pop %r14\n  pop %r13\n  pop %r12\n  pop %rbp\n  pop %rbx\n"
"  ret\n"
"tramp_post_end:\n"
);

static sigjmp_buf jb;
static volatile int in_test;

static void on_sig (int sig)
{
  if (in_test) siglongjmp (jb, sig);
  _exit (99);
}

static void *map_fixed (unsigned long addr, size_t len, int prot)
{
  void *p = mmap ((void *) addr, len, prot, MAP_PRIVATE | MAP_ANONYMOUS | MAP_FIXED, -1, 0);
  if (p != (void *) addr) { perror ("mmap"); exit (2); }
  return p;
}

static int read_all (void *p, size_t n)
{
  size_t got = fread (p, 1, n, stdin);
  return got == n;
}

int main (int argc, char **argv)
{
  unsigned char *buf = map_fixed (BUF_ADDR, 0x1000, PROT_READ | PROT_WRITE);
  unsigned char *st = map_fixed (STATE_ADDR, 0x2000, PROT_READ | PROT_WRITE);
  unsigned char *code = map_fixed (CODE_ADDR, 0x1000, PROT_READ | PROT_WRITE | PROT_EXEC);
  size_t pre = tramp_pre_end - tramp_pre, post = tramp_post_end - tramp_post;
  struct sigaction sa;
  static char altstack[65536];
  stack_t ss;
  uint32_t hdr[8];

  if (argc > 1 && !strcmp (argv[1], "--layout")) {
    /* lets the Python side learn where the instruction under test is placed and where the epilogue starts */
    printf ("{\"buf\":%lu,\"state\":%lu,\"code\":%lu,\"pre\":%zu,\"post\":%zu,\"bufsz\":%d,\"stsz\":%d,\"codemax\":%d}\n",
        BUF_ADDR, STATE_ADDR, CODE_ADDR, pre, post, BUFSZ, STSZ, CODEMAX);
    return 0;
  }
  ss.ss_sp = altstack; ss.ss_size = sizeof altstack; ss.ss_flags = 0;
  sigaltstack (&ss, NULL);
  memset (&sa, 0, sizeof sa);
  sa.sa_handler = on_sig;
  sa.sa_flags = SA_ONSTACK | SA_NODEFER;
  sigaction (SIGSEGV, &sa, NULL); sigaction (SIGILL, &sa, NULL); sigaction (SIGBUS, &sa, NULL); sigaction (SIGFPE, &sa, NULL);
  sigaction (SIGTRAP, &sa, NULL);
  *(uint32_t *) (st + 0x808) = 0x1f80;

  for (;;) {
    uint32_t len;
    unsigned char ibytes[CODEMAX];
    uint32_t out_hdr[2] = { 0, 0 };
    int sig;
    if (!read_all (&len, 4)) break;
    if (!read_all (ibytes, CODEMAX) || len > CODEMAX) return 3;
    if (!read_all (st, STSZ)) return 3;
    if (!read_all (buf, BUFSZ)) return 3;
    memset (st + 0x400, 0xee, STSZ);
    memcpy (code, tramp_pre, pre);
    memcpy (code + pre, ibytes, len);
    memcpy (code + pre + len, tramp_post, post);
    in_test = 1;
    sig = sigsetjmp (jb, 1);
    if (sig == 0) {
      ((void (*)(void)) code) ();
    } else {
      out_hdr[0] = sig;
      __asm__ volatile ("emms\n vzeroupper\n cld\n");
      { uint32_t d = 0x1f80; __asm__ volatile ("ldmxcsr %0" :: "m" (d)); }
    }
    in_test = 0;
    fwrite (out_hdr, 4, 2, stdout);
    fwrite (st + 0x400, 1, STSZ, stdout);
    fwrite (buf, 1, BUFSZ, stdout);
  }
  fflush (stdout);
  (void) hdr;
  return 0;
}
