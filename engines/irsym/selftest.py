"""python3-vt -m engines.irsym.selftest [--quick] [--no-stage2] [--no-stage3]

Parses the emulator IR (197 kernels), validates all kernels against the natively compiled code, computes closed forms
for every opcode with n = 1, 2, 3 (x1, x2, x4: n scaled), checks 10 kernels against hand-written z3 references, runs
mutants of the interpreter to show that the validation notices them, and runs the stage-2 bytecode round trip.
"""
import os
import sys
import time
import z3

sys.path.insert(0, os.path.dirname(os.path.dirname(os.path.dirname(os.path.abspath(__file__)))))

from engines.irsym import Module, Executor, kernel_closed_form, validate_kernels, MemFault, StepBound, Unsupported  # noqa: E402
from engines.irsym import kernels as K, validate as VA, values as V  # noqa: E402


# ---------------------------------------------------------------------------------------------- references
def clamp(x, lo, hi, w):
    return z3.Extract(w - 1, 0, z3.If(x < lo, z3.BitVecVal(lo, x.size()), z3.If(x > hi, z3.BitVecVal(hi, x.size()), x)))


def daz(x):       # ORC_DENORMAL as the preamble macro writes it: x & (exponent == 0 ? 0xff800000 : 0xffffffff)
    return x & z3.If((x & 0x7f800000) == 0, z3.BitVecVal(0xff800000, 32), z3.BitVecVal(0xffffffff, 32))


def daz_spec(x):  # "flush denormals to zero of the same sign"
    return z3.If((x & 0x7f800000) == 0, x & 0x80000000, x)


F32 = z3.Float32()


def ref_addf(a, b):
    r = z3.fpAdd(z3.RNE(), z3.fpBVToFP(daz(a), F32), z3.fpBVToFP(daz(b), F32))
    bits = z3.If(z3.fpIsNaN(r), z3.BitVecVal(0x7fc00000, 32), z3.fpToIEEEBV(r))
    return daz(bits)


def ref_convfl(a):
    x = z3.fpBVToFP(a, F32)
    t = z3.fpRoundToIntegral(z3.RTZ(), x)
    inr = z3.And(z3.Not(z3.fpIsNaN(x)), z3.fpGEQ(t, z3.FPVal(-2147483648.0, F32)), z3.fpLT(t, z3.FPVal(2147483648.0, F32)))
    return z3.If(inr, z3.fpToSBV(z3.RTZ(), x, z3.BitVecSort(32)),
                 z3.If(z3.Extract(31, 31, a) == 1, z3.BitVecVal(0x80000000, 32), z3.BitVecVal(0x7fffffff, 32)))


REFS = {
    # name: (function of the element terms of the sources -> tuple of dest element terms, documentation text)
    'addssw': (lambda a, b: (clamp(z3.SignExt(16, a) + z3.SignExt(16, b), -32768, 32767, 16),), 'clamp(a + b)'),
    'mulhsl': (lambda a, b: (z3.Extract(63, 32, z3.SignExt(32, a) * z3.SignExt(32, b)),), '(a * b) >> 32 [doc table says >> 16]'),
    'avgub': (lambda a, b: (z3.Extract(7, 0, z3.LShR(z3.ZeroExt(8, a) + z3.ZeroExt(8, b) + 1, 1)),), '(a + b + 1)>>1'),
    'convsuswb': (lambda a: (clamp(z3.SignExt(16, a), 0, 255, 8),), 'clamp(a) to 0..255'),
    'swapl': (lambda a: (z3.Concat(z3.Extract(7, 0, a), z3.Extract(15, 8, a), z3.Extract(23, 16, a), z3.Extract(31, 24, a)),), 'byte swap'),
    'mergebw': (lambda a, b: (z3.Concat(b, a),), 'a first in memory, then b'),
    'absl': (lambda a: (z3.If(a < 0, -a, a),), '(a < 0) ? -a : a'),
    'divluw': (lambda a, b: (z3.If((b & 255) == 0, z3.BitVecVal(255, 16),
                                   z3.If(z3.UGT(z3.UDiv(a, b & 255), 255), z3.BitVecVal(255, 16), z3.UDiv(a, b & 255))),),
               'clamp(a/(b & 255),0,255), 255 for division by zero'),
    'addf': (lambda a, b: (ref_addf(a, b),), 'a + b (denormals flushed on input and output, NaN canonical)'),
    'convfl': (lambda a: (ref_convfl(a),), 'truncate; positive overflow/NaN -> 0x7fffffff, negative -> 0x80000000'),
}


def reference_checks(m, table, n=2, timeout_ms=60000):
    byname = {o['name']: o for o in table}
    out = []
    x = z3.BitVec('x', 32)
    s0 = z3.Solver()
    s0.add(daz(x) != daz_spec(x))
    out.append(('lemma: mask form of ORC_DENORMAL', 'held' if s0.check() == z3.unsat else 'VIOLATED', 'flush to signed zero', None, 0.0))
    for name, (ref, doc) in REFS.items():
        t0 = time.time()
        cf = kernel_closed_form(m, byname[name], n)
        verdict = 'held'
        cex = None
        for i in range(n):
            want = ref(*[s[i] for s in cf['srcs']])
            for dk, w in enumerate(want):
                got = cf['dest'][dk][i]
                s = z3.Solver()
                s.set('timeout', timeout_ms)
                s.add(got != w)
                r = s.check()
                if r == z3.sat:
                    verdict = 'VIOLATED'
                    md = s.model()
                    cex = {str(d): hex(md[d].as_long()) for d in md.decls()}
                elif r != z3.unsat and verdict == 'held':
                    verdict = 'unknown'
        out.append((name, verdict, doc, cex, time.time() - t0))
    return out


# ---------------------------------------------------------------------------------------------- mutants
def mutation_sensitivity(m, so, table):
    """Each mutant of the interpreter has to be caught by the native validation."""
    sub = [o for o in table if o['name'] in ('addssw', 'subssb', 'cmpgtsw', 'addf', 'convfl', 'convdl', 'swapl', 'avgsb',
                                              'mulhsl', 'shrsw', 'convswl', 'maxf', 'divluw')]
    res = []

    def run():
        r = validate_kernels(m, so, sub, seed=0)
        return sorted(k for k, v in r.items() if v['mismatch_count'])
    o = V.sat_add

    def m1(signed, sub_, a, b, bits):
        r = o(signed, sub_, a, b, bits)
        if type(r) is int and signed and r == (1 << (bits - 1)) - 1:
            return r - 1
        return r
    V.sat_add = m1
    res.append(('signed saturation clamps to MAX-1 (int path)', run()))
    V.sat_add = o
    o2 = V.icmp

    def m2(pred, a, b, bits):
        if pred == 'sgt' and not (type(a) is int and type(b) is int):
            pred = 'sge'
        return o2(pred, a, b, bits)
    V.icmp = m2
    res.append(('icmp sgt evaluated as sge (z3 path)', run()))
    V.icmp = o2
    o3 = V.FP.binop

    def m3(self, op, a, b, bits):
        if not (type(a) is int and type(b) is int) and op == 'fadd':
            return self.from_fp(z3.fpAdd(z3.RTZ(), self.to_fp(a, bits), self.to_fp(b, bits)), bits, (a, b))
        return o3(self, op, a, b, bits)
    V.FP.binop = m3
    res.append(('fadd rounds toward zero (z3 path)', run()))
    V.FP.binop = o3
    o4 = V.FP._fptoint_oor
    V.FP._fptoint_oor = lambda self, s, ib, t: (1 << (ib - 1)) - 1
    res.append(('fptosi out of range gives INT_MAX', run()))
    V.FP._fptoint_oor = o4
    o5 = V.sext

    def m5(a, f, t):
        if type(a) is int:
            return a
        return o5(a, f, t)
    V.sext = m5
    res.append(('sext behaves as zext (int path)', run()))
    V.sext = o5
    res.append(('no mutation (must be clean)', run()))
    return res


# ---------------------------------------------------------------------------------------------- main
def main(argv):
    quick = '--quick' in argv
    no2 = '--no-stage2' in argv
    from lib import build
    t00 = time.time()
    b = build.Build('irsym-selftest')
    src = os.path.join(build.REPO, 'orc', 'orcemulateopcodes.c')
    ll = b.ir('emu', src, wrapv=True)
    ll2 = b.ir('emu', src, wrapv=False)
    exe = b.native_prog('orcdump', [os.path.join(build.VERIF, 'native', 'orcdump.c')])
    so = VA.build_native_so(b)
    print('build: %.1fs' % (time.time() - t00))
    ok = True
    rows = []

    t = time.time()
    m = Module.load(ll)
    m2 = Module.load(ll2)
    nk = len([f for f in m.functions if f.startswith('emulate_')])
    rows.append(('parse emulator IR (wrapv / non-wrapv)', '%d / %d kernels' % (nk, len(m2.functions)), nk == 197 and len(m2.functions) == 197, time.time() - t))
    table = K.opcode_table_native(exe)
    try:
        msys = Module.load(b.ir('opsys', os.path.join(build.REPO, 'orc', 'orcopcodes-sys.c'), wrapv=True))
        t_ir = K.opcode_table_from_ir(msys)
        same = len(t_ir) == len(table) and all(all(a[k] == c[k] for k in ('name', 'flags', 'dest', 'src', 'index')) for a, c in zip(t_ir, table))
        rows.append(('opcode table: IR initialiser == native orcdump', '%d entries' % len(t_ir), same, 0))
    except Exception as e:       # pragma: no cover
        rows.append(('opcode table from IR', repr(e)[:60], False, 0))
    missing = [o['name'] for o in table if 'emulate_' + o['name'] not in m.functions]
    rows.append(('every opcode has a kernel', '%d missing' % len(missing), not missing, 0))

    # ---- native validation
    for tag, mm in (('wrapv', m), ('non-wrapv', m2)):
        t = time.time()
        res = validate_kernels(mm, so, table, seed=0)
        s = VA.summarize(res)
        good = s['mismatches'] == 0 and s['min_vectors'] >= 64
        rows.append(('native validation %s: kernels x vectors' % tag,
                     '%d x (min %d, total %d int + %d sym); mismatches %d; UB-skipped calls %d' % (
                         s['kernels'], s['min_vectors'], s['vectors'], s['sym_vectors'], s['mismatches'], s['ub_skipped_calls']),
                     good, time.time() - t))
        rows.append(('  NaN results differing from native only in payload/sign', str(s['nan_payload_diffs']), True, 0))
        if not good:
            for k in s['mismatching_kernels'][:10]:
                print('MISMATCH', k, res[k].get('error'), res[k]['mismatches'][:2])
        if tag == 'wrapv':
            print('\nper-opcode vector counts (int mode / sym mode):')
            line = []
            for o in table:
                r = res[o['name']]
                line.append('%s %d/%d' % (o['name'], r['vectors'], r['sym_vectors']))
            for i in range(0, len(line), 8):
                print('  ' + '  '.join(line[i:i + 8]))
            print()

    # ---- closed forms
    for tag, mm in (('wrapv', m), ('non-wrapv', m2)):
        t = time.time()
        bad = []
        cnt = 0
        npo = 0
        nub = 0
        for o in table:
            for n in (1, 2, 3):
                for sh in (0, 1, 2):
                    try:
                        cf = kernel_closed_form(mm, o, n << sh)
                        cnt += 1
                        npo += len(cf['poison'])
                        nub += len(cf['ub_notes'])
                        assert all(len(d) == (1 if o['flags'] & K.F_ACCUMULATOR else n << sh) for d in cf['dest'])
                    except Exception as e:
                        bad.append((o['name'], n << sh, repr(e)[:80]))
        rows.append(('closed forms %s: 197 opcodes x n in {1,2,3} x {x1,x2,x4}' % tag,
                     '%d computed, %d failed; %d poison obligations, %d UB notes' % (cnt, len(bad), npo, nub), not bad, time.time() - t))
        for x in bad[:10]:
            print('CLOSED-FORM FAILURE', x)

    # ---- references
    t = time.time()
    rc = reference_checks(m, table)
    for name, verdict, doc, cex, dt in rc:
        rows.append(('reference %s == %s' % (name, doc), verdict + (' ' + str(cex) if cex else ''), verdict == 'held', dt))

    # ---- mutants
    if not quick:
        t = time.time()
        ms = mutation_sensitivity(m, so, table)
        for desc, caught in ms:
            if desc.startswith('no mutation'):
                rows.append(('validation sensitivity: ' + desc, 'mismatching: %s' % caught, not caught, 0))
            else:
                rows.append(('validation sensitivity: ' + desc, 'caught in %s' % caught, bool(caught), 0))
        rows[-1] = rows[-1][:3] + (time.time() - t,)

    # ---- constructs outside the kernels, differentially against gcc
    t = time.time()
    from engines.irsym.tests import difftest
    dr = difftest.run(seed=0, nvec=24 if quick else 40)
    badf = sorted(k for k, v in dr.items() if v['bad'])
    rows.append(('misc.c (switch, indirect calls, nested initialisers, heap, libc stubs, i128, FP): native == interpreter',
                 '%d functions x %d vectors concrete + %d via symbolic paths (%d paths); failing: %s' % (
                     len(dr), sum(v['vectors'] for v in dr.values()) // len(dr), sum(v['sym_vectors'] for v in dr.values()),
                     sum(v['paths'] for v in dr.values()), badf), not badf, time.time() - t))

    # ---- stage 2
    if not no2:
        try:
            from engines.irsym import roundtrip
            rows += roundtrip.selftest_rows(b, quick=quick)
        except ImportError as e:
            rows.append(('stage 2 (bytecode round trip)', 'not available: %s' % e, True, 0))

    # ---- stage 3
    if '--no-stage3' not in argv:
        try:
            from engines.irsym import gencsym
            rows += gencsym.selftest_rows(b, exe, table, m, m2, quick=quick)
        except ImportError as e:
            rows.append(('stage 3 (generated C)', 'not available: %s' % e, True, 0))

    print('%-78s %-8s %7s  %s' % ('check', 'verdict', 'time', 'detail'))
    for name, detail, good, dt in rows:
        ok &= bool(good)
        print('%-78s %-8s %6.1fs  %s' % (name[:78], 'ok' if good else 'FAILED', dt, detail))
    print('\nSELFTEST %s  (%.1fs)' % ('PASSED' if ok else 'FAILED', time.time() - t00))
    return 0 if ok else 1


if __name__ == '__main__':
    sys.exit(main(sys.argv[1:]))
