"""Differential test of constructs outside the Orc kernels (switch, indirect calls, nested global initialisers,
libc stubs, heap, i128, overflow intrinsics, FP conversions): tests/misc.c natively (gcc -O2) vs the interpreter,
concretely (int path) and through symbolic arguments (fork/merge + model evaluation)."""
import ctypes
import os
import random
import struct
import subprocess
import sys
import z3

HERE = os.path.dirname(os.path.abspath(__file__))
sys.path.insert(0, os.path.dirname(os.path.dirname(os.path.dirname(HERE))))
from engines.irsym import Module, Executor  # noqa: E402
from engines.irsym.values import simp, mask  # noqa: E402

I, U, L, UL, D, F = 'i', 'u', 'l', 'ul', 'd', 'f'
FUNCS = {
    # name: (arg kinds, return kind, symbolic-capable)
    't_switch': ([I], I, True), 't_indirect': ([I, I, I], I, True), 't_struct': ([I], I, True),
    't_divrem': ([I, I], I, True), 't_bits': ([U, U], U, True), 't_mulov': ([UL, UL], UL, True),
    't_mem': ([I, I], I, False), 't_str': ([I], I, False), 't_lut': ([U, I], I, True), 't_wide': ([L, I], L, True),
    't_fp': ([D, F, I], D, False), 't_loop': ([I], I, True),
}
CT = {I: ctypes.c_int, U: ctypes.c_uint, L: ctypes.c_longlong, UL: ctypes.c_ulonglong, D: ctypes.c_double, F: ctypes.c_float}
BITS = {I: 32, U: 32, L: 64, UL: 64, D: 64, F: 32}


def vectors(kinds, rnd, n):
    out = []
    for _ in range(n):
        v = []
        for k in kinds:
            if k in (D, F):
                x = rnd.choice([0.0, -0.0, 1.0, -1.5, 3.25, 1e10, -1e-3, 123456.789, 2.5e-310 if k == D else 1e-40,
                                float('inf'), float('nan'), rnd.uniform(-1000, 1000), rnd.uniform(-1e18, 1e18)])
                if k == F:
                    x = struct.unpack('<f', struct.pack('<f', x))[0] if abs(x) < 3e38 or x != x else x
                v.append(x)
            else:
                b = BITS[k]
                x = rnd.choice([0, 1, 2, 3, 7, 100, mask(b), 1 << (b - 1), (1 << (b - 1)) - 1, rnd.getrandbits(b),
                                rnd.getrandbits(8), rnd.getrandbits(16)])
                v.append(x)
        out.append(v)
    return out


def to_bits(k, x):
    if k == D:
        return struct.unpack('<Q', struct.pack('<d', x))[0]
    if k == F:
        return struct.unpack('<I', struct.pack('<f', x))[0]
    return x & mask(BITS[k])


def native_call(lib, name, kinds, rk, v):
    f = getattr(lib, name)
    f.argtypes = [CT[k] for k in kinds]
    f.restype = CT[rk]
    args = []
    for k, x in zip(kinds, v):
        if k in (I, L):
            b = BITS[k]
            x = x - (1 << b) if x >> (b - 1) else x
        args.append(x)
    r = f(*args)
    return to_bits(rk, r)


def run(seed=0, nvec=40, verbose=False):
    ll = os.path.join('/tmp', 'irsym-difftest-%d.ll' % os.getpid())
    so = os.path.join('/tmp', 'irsym-difftest-%d.so' % os.getpid())
    src = os.path.join(HERE, 'misc.c')
    try:
        subprocess.check_call(['clang-14', '-O1', '-fno-vectorize', '-fno-slp-vectorize', '-fno-unroll-loops', '-fno-builtin', '-fwrapv',
                               '-S', '-emit-llvm', src, '-o', ll], stderr=subprocess.DEVNULL)
        subprocess.check_call(['gcc', '-O2', '-shared', '-fPIC', src, '-o', so], stderr=subprocess.DEVNULL)
        m = Module.load(ll)
        lib = ctypes.CDLL(so)
        rnd = random.Random(seed)
        res = {}
        for name, (kinds, rk, symok) in FUNCS.items():
            vs = vectors(kinds, rnd, nvec)
            bad = []
            nsym = 0
            sym_paths = None
            if symok:
                ex = Executor(m, max_steps=500000)
                syms = [z3.BitVec('a%d' % i, BITS[k]) for i, k in enumerate(kinds)]
                try:
                    sym_paths = ex.call(name, syms, on_fault='path')
                except Exception as e:
                    bad.append(('symbolic run', repr(e)[:200]))
            for v in vs:
                want = native_call(lib, name, kinds, rk, v)
                bits = [to_bits(k, x) for k, x in zip(kinds, v)]
                ex = Executor(m, max_steps=500000)
                ps = ex.call(name, bits)
                got = simp(ps[0].ret) if len(ps) == 1 and ps[0].status == 'ok' else ('paths', ps)
                isnan = rk == D and isinstance(got, int) and (got & 0x7ff0000000000000) == 0x7ff0000000000000 and got & 0xfffffffffffff \
                    and (want & 0x7ff0000000000000) == 0x7ff0000000000000 and want & 0xfffffffffffff
                if got != want and not isnan:
                    bad.append(('int', v, got, want))
                if sym_paths:
                    sub = [(s, z3.BitVecVal(b, s.size())) for s, b in zip(syms, bits)]
                    hit = [p for p in sym_paths if all(z3.is_true(z3.simplify(z3.substitute(c, *sub))) for c in p.cond)]
                    if len(hit) != 1:
                        bad.append(('sym: %d paths match' % len(hit), v))
                    elif hit[0].status == 'ok':
                        r = hit[0].ret
                        g = simp(z3.substitute(r, *sub)) if not isinstance(r, int) else r
                        if g != want and not (rk == D and isinstance(g, int) and g != g):
                            isnan2 = rk == D and isinstance(g, int) and (g & 0x7ff0000000000000) == 0x7ff0000000000000 and g & 0xfffffffffffff
                            if not (isnan2 and isnan is not False):
                                bad.append(('sym', v, g, want))
                        nsym += 1
            res[name] = dict(vectors=len(vs), sym_vectors=nsym, paths=len(sym_paths) if sym_paths else 0, bad=bad)
            if verbose:
                print(name, {k: v for k, v in res[name].items() if k != 'bad'}, bad[:3])
        return res
    finally:
        for p in (ll, so):
            if os.path.exists(p):
                os.unlink(p)


if __name__ == '__main__':
    r = run(verbose=True)
    sys.exit(1 if any(x['bad'] for x in r.values()) else 0)
