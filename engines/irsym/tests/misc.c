/* differential test material for constructs that the Orc kernels do not exercise */
#include <string.h>
#include <stdlib.h>
#include <stdio.h>
#include <stdint.h>

struct inner { char tag[6]; short s; int (*fn)(int, int); };
struct outer { int a; struct inner in[2]; const char *name; long long q; };

static int add2 (int a, int b) { return a + b; }
static int mul2 (int a, int b) { return a * b; }
static int sub2 (int a, int b) { return a - b; }

static struct outer table[3] = {
  { 1, { { "ab", 3, add2 }, { "cde", -4, mul2 } }, "first", 0x1122334455667788LL },
  { 2, { { "x", 7, sub2 }, { "", 0, 0 } }, "second", -1 },
  { 0 }
};
static int (*const ops[4])(int, int) = { add2, mul2, sub2, add2 };
static const unsigned short lut[8] = { 1, 2, 3, 5, 8, 13, 21, 34 };

int t_switch (int x)
{
  switch (x) {
    case 0: return 10;
    case 1: return 11;
    case 2: return 14;
    case 7: return -3;
    case 100: return 5;
    default: return x * 2;
  }
}

int t_indirect (int k, int a, int b)
{
  return ops[k & 3](a, b) + table[(unsigned) k % 2].in[k & 1].s;
}

int t_struct (int k)
{
  struct outer *o = &table[(unsigned) k % 3];
  int r = o->a + (int) strlen (o->in[0].tag) * 10 + (int) (o->q >> 40);
  if (o->name) r += o->name[0];
  if (o->in[0].fn) r += o->in[0].fn (k, 3);
  return r;
}

int t_divrem (int a, int b)
{
  if (b == 0 || (a == (-2147483647 - 1) && b == -1)) return 77;
  return (a / b) * 3 + (a % b) + (int) ((unsigned) a / (unsigned) b) - (int) ((unsigned) a % (unsigned) b);
}

unsigned t_bits (unsigned x, unsigned y)
{
  unsigned r = __builtin_popcount (x) + 3 * __builtin_bswap32 (y);
  if (x) r += __builtin_clz (x) * 5 + __builtin_ctz (x) * 7;
  r ^= (x >> (y & 31)) | (x << ((32 - (y & 31)) & 31));
  return r;
}

unsigned long long t_mulov (unsigned long long a, unsigned long long b)
{
  unsigned long long r;
  if (__builtin_mul_overflow (a, b, &r)) return 0xdeadbeef;
  return r;
}

int t_mem (int n, int seed)
{
  unsigned char buf[64];
  unsigned char *p = malloc (32);
  int i, r = 0;
  memset (buf, seed, sizeof buf);
  for (i = 0; i < 32; i++) p[i] = (unsigned char) (i * seed + 1);
  memcpy (buf + 5, p, n & 31);
  memmove (buf + 1, buf, 40);
  p = realloc (p, 48);
  for (i = 32; i < 48; i++) p[i] = (unsigned char) i;
  for (i = 0; i < 64; i++) r = r * 31 + buf[i];
  for (i = 0; i < 48; i++) r = r * 17 + p[i];
  free (p);
  return r;
}

int t_str (int k)
{
  char tmp[40];
  const char *names[4] = { "addw", "addssw", "mulhsl", "" };
  int r;
  sprintf (tmp, "%s_%d_%x", names[k & 3], k, (unsigned) k * 2654435761u);
  r = (int) strlen (tmp) * 1000 + ((strcmp (tmp, "addw_0_0") > 0) - (strcmp (tmp, "addw_0_0") < 0)) * 7;
  r += strncmp (tmp, "addssw", 4) == 0 ? 50 : 0;
  if (strchr (tmp, '5')) r += (int) (strchr (tmp, '5') - tmp);
  {
    char *d = strdup (tmp);
    strcpy (d, "zz");
    r += d[1] + (int) strlen (d);
    free (d);
  }
  return r;
}

int t_lut (unsigned i, int x)
{
  int r = lut[i & 7];
  const int *q = (x & 1) ? &table[0].a : &table[1].a;
  return r * 100 + *q + (x > 10 ? lut[(i + 1) & 7] : -lut[(i + 2) & 7]);
}

long long t_wide (long long a, int sh)
{
  __int128 w = (__int128) a * 1000003;
  return (long long) (w >> (sh & 63)) ^ (long long) (w >> 64);
}

double t_fp (double a, float b, int i)
{
  double r = a * b + (double) i;
  if (r < 0) r = -r;
  if (a != a) return 1.5;
  r = r / 3.0 - (float) a;
  return r > 1e300 ? 2.5 : r + (double) (unsigned) i + (double) (long long) (a < 1e18 && a > -1e18 ? a : 0);
}

int t_loop (int n)
{
  int i, j, r = 0;
  for (i = 0; i < (n & 15); i++)
    for (j = i; j >= 0; j -= 2)
      r += (i ^ j) + (r >> 3);
  return r;
}
