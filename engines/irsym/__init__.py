"""irsym: symbolic executor for clang-14 -O1 LLVM IR text of Orc's C code.  See README.md / SPEC.md."""
from .irparse import Module, ParseError
from .memory import MemFault
from .executor import Executor, StepBound, Unsupported, Path, Note
from .kernels import kernel_closed_form, opcode_table_native, opcode_table_from_ir
from .validate import validate_kernels, build_native_so
from .roundtrip import run_roundtrip, run_parse
from .gencsym import program_closed_form
