"""Stage 3: the same engine on the C text that Orc's C back end generates.

  src  = c_backend_source(exe, recipe_text, flags)        # `orcdump compile c <flags> --emitasm`
  path = wrap_source(b, [src...])                         # + <orc/orc.h> and orc_target_get_asm_preamble("c")
  m    = Module.load(b.ir('genc', path))
  cf   = program_closed_form(m, 'name', vars, n)          # OrcExecutor staged like orc_executor_run would see it

`single_opcode_check` compares, for one opcode, the generated C of the one-instruction program with the emulation
kernel (kernel_closed_form on the same input symbols; scalar operands staged as orc_executor_emulate stages
parameters: sign-extended 32-bit value / two halves of a 64-bit parameter).
"""
import json
import os
import subprocess
import z3
from .irparse import Module
from .executor import Executor, Unsupported
from .values import bvval, simp, mask
from . import kernels as K

ORC_VAR_D1, ORC_VAR_S1, ORC_VAR_A1, ORC_VAR_C1, ORC_VAR_P1, ORC_VAR_T1 = 0, 4, 12, 16, 24, 32
ORC_N_PARAMS = 8

PREAMBLE_C = r'''
#include <stdio.h>
#include <orc/orc.h>
int main (void) { orc_init (); fputs (orc_target_get_asm_preamble ("c"), stdout); return 0; }
'''


def preamble(b):
    p = getattr(b, '_irsym_preamble', None)
    if p is None:
        src = os.path.join(b.dir, 'genc_preamble.c')
        open(src, 'w').write(PREAMBLE_C)
        exe = b.native_prog('genc_preamble', [src])
        p = subprocess.run([exe], stdout=subprocess.PIPE, check=True, text=True).stdout
        b._irsym_preamble = p
    return p


def c_backend_source(exe, recipe_text, flags=0):
    """-> list of dicts (name, result, successful, asm) for every program of the recipe text"""
    r = subprocess.run([exe, 'compile', 'c', str(flags), '--emitasm'], input=recipe_text, stdout=subprocess.PIPE,
                       stderr=subprocess.PIPE, text=True, timeout=120)
    return [json.loads(l) for l in r.stdout.splitlines() if l.strip()]


def wrap_source(b, ctexts, tag='genc'):
    path = os.path.join(b.dir, tag + '.c')
    with open(path, 'w') as f:
        f.write('#include <math.h>\n#include <orc/orc.h>\n')
        f.write(preamble(b))
        for c in ctexts:
            f.write('\n' + c + '\n')
    return path


def executor_layout(m):
    t = m.resolve(('n', 'struct._OrcExecutor'))
    o = m.field_offsets(t)
    # { program*, n, counter1, counter2, counter3, arrays[64], params[64], accumulators[4] }
    return dict(size=m.sizeof(t), program=o[0], n=o[1], arrays=o[5], params=o[6], accumulators=o[7])


def program_closed_form(m, fname, vars_, n, m_rows=None, nan_mode='canonical', src_terms=None, max_steps=400000):
    """vars_: list of dict(index=ORC_VAR_*, kind='dest'|'src'|'param'|'param64'|'accum', size, window=False)
    Returns dict(dest={index: [element terms]}, acc={index: term}, srcs={index: symbols}, params={index: term}, ...)"""
    ex = Executor(m, max_steps=max_steps, nan_mode=nan_mode, pin_addresses='fault')
    L = executor_layout(m)
    e = ex.alloc('executor', L['size'], init='zero')
    ex.write(e, L['n'], n, 4)
    if m_rows is not None:
        ex.write(e, L['params'] + 4 * ORC_VAR_A1, m_rows, 4)
    srcs, params, dptr = {}, {}, {}
    for v in vars_:
        i, kind, size = v['index'], v['kind'], v['size']
        if kind == 'src':
            if v.get('window'):
                p = ex.alloc('arr%d' % i, size << 20, init='symbolic', window=True)
                srcs[i] = ex.state.mem.objs[simp(p)].arr
            else:
                els = (src_terms or {}).get(i) or K.elem_syms('a%d' % i, size, n)
                p = ex.alloc('arr%d' % i, size * n, init='zero')
                for k, t in enumerate(els):
                    ex.write(p, k * size, t, size)
                srcs[i] = list(els)
            ex.write(e, L['arrays'] + 8 * i, p, 8)
        elif kind == 'dest':
            p = ex.alloc('arr%d' % i, size * n, init='symbolic')
            dptr[i] = (p, size)
            ex.write(e, L['arrays'] + 8 * i, p, 8)
        elif kind == 'param':
            t = (src_terms or {}).get(i)
            if t is None:
                t = z3.BitVec('p%d' % i, 32)
            params[i] = t
            ex.write(e, L['params'] + 4 * i, t, 4)
        elif kind == 'param64':
            t = (src_terms or {}).get(i)
            if t is None:
                t = z3.BitVec('p%d' % i, 64)
            params[i] = t
            ex.write(e, L['params'] + 4 * i, z3.Extract(31, 0, t), 4)
            ex.write(e, L['params'] + 4 * (i + ORC_N_PARAMS), z3.Extract(63, 32, t), 4)
        elif kind == 'accum':
            pass
        else:
            raise ValueError(kind)
    paths = ex.call(fname, [e])
    if len(paths) != 1 or paths[0].status != 'ok':
        raise Unsupported('generated C %s: expected one path, got %r' % (fname, paths))
    p0 = paths[0]
    dest = {}
    for i, (p, size) in dptr.items():
        dest[i] = [z3.simplify(x) if not isinstance(x, int) else bvval(x, 8 * size) for x in (p0.read(p, k * size, size) for k in range(n))]
    acc = {}
    for v in vars_:
        if v['kind'] == 'accum':
            x = p0.read(e, L['accumulators'] + 4 * (v['index'] - ORC_VAR_A1), 4)
            acc[v['index']] = z3.simplify(x) if not isinstance(x, int) else bvval(x, 32)
    return dict(dest=dest, acc=acc, srcs=srcs, params=params, ub_notes=p0.ub_notes, poison=p0.poison_obligations,
                accesses=p0.accesses, steps=p0.steps, path=p0)


# ---------------------------------------------------------------------------------------------- one opcode programs
def single_opcode_recipe(op):
    """recipe text + variable description of the program consisting of the single instruction `op`."""
    name = op['name']
    lines = ['program gc_%s' % name]
    vars_ = []
    args = []
    acc = bool(op['flags'] & K.F_ACCUMULATOR)
    nd = 0
    for d in op['dest']:
        if not d:
            continue
        if acc:
            lines.append('var accum %d a%d' % (d, nd + 1))
            vars_.append(dict(index=ORC_VAR_A1 + nd, kind='accum', size=d))
            args.append('a%d' % (nd + 1))
        else:
            lines.append('var dest %d d%d' % (d, nd + 1))
            vars_.append(dict(index=ORC_VAR_D1 + nd, kind='dest', size=d))
            args.append('d%d' % (nd + 1))
        nd += 1
    ns = npar = 0
    srcs = [s for s in op['src'] if s]
    for k, s in enumerate(srcs):
        if K.is_scalar_src(op, k):
            if s == 8:
                lines.append('var param64 8 p%d' % (npar + 1))
                vars_.append(dict(index=ORC_VAR_P1 + npar, kind='param64', size=8, operand=k))
            else:
                lines.append('var param %d p%d' % (s, npar + 1))
                vars_.append(dict(index=ORC_VAR_P1 + npar, kind='param', size=s, operand=k))
            args.append('p%d' % (npar + 1))
            npar += 1
        else:
            lines.append('var src %d s%d' % (s, ns + 1))
            vars_.append(dict(index=ORC_VAR_S1 + ns, kind='src', size=s, operand=k, window=K.uses_window(op) and k == 0))
            args.append('s%d' % (ns + 1))
            ns += 1
    lines.append('insn %s 0 %s' % (name, ' '.join(args)))
    lines.append('end')
    return '\n'.join(lines) + '\n', vars_


def single_opcode_check(m_emu, m_gen, op, n=2, timeout_ms=20000, nan_mode='canonical'):
    """generated C of the one-instruction program == emulation kernel.  -> (verdict, detail)"""
    _, vars_ = single_opcode_recipe(op)
    g = program_closed_form(m_gen, 'gc_' + op['name'], vars_, n, nan_mode=nan_mode)
    srcs = [s for s in op['src'] if s]
    st = [None] * len(srcs)
    for v in vars_:
        if 'operand' not in v:
            continue
        k = v['operand']
        if v['kind'] == 'src':
            st[k] = g['srcs'][v['index']] if not v.get('window') else None
        elif v['kind'] == 'param':
            st[k] = z3.SignExt(32, g['params'][v['index']])      # load_constant(.., 8, (int) ex->params[i])
        else:
            st[k] = g['params'][v['index']]
    acc = bool(op['flags'] & K.F_ACCUMULATOR)
    win = K.uses_window(op)
    kf = K.kernel_closed_form(m_emu, op, n, src_terms=st, acc_init=bvval(0, 32) if acc else None, nan_mode=nan_mode,
                              prefix='')
    if win:
        # both sides index one symbolic array: rename the kernel's array to the generated code's
        garr = [g['srcs'][v['index']] for v in vars_ if v.get('window')][0]
        sub = [(kf['srcs'][0], garr)]
    else:
        sub = []
    pairs = []
    if acc:
        pairs.append((kf['dest'][0][0], list(g['acc'].values())[0]))
    else:
        dk = 0
        for v in vars_:
            if v['kind'] == 'dest':
                for a, c in zip(kf['dest'][dk], g['dest'][v['index']]):
                    pairs.append((a, c))
                dk += 1
    # inputs on which either side has undefined behaviour (oversized shift, division by zero; with the non-wrapv IR
    # also signed overflow = violated nsw/nuw obligations) are compared separately
    ub = []
    for side in (kf, g):
        for nt in side['ub_notes']:
            if nt.kind in ('shift', 'div') and not isinstance(nt.cond, bool):
                ub.append(z3.substitute(nt.cond, *sub) if sub else nt.cond)
        for nt in side['poison']:
            if nt.detail in ('nsw', 'nuw', 'exact') and not isinstance(nt.cond, bool):
                ub.append(z3.Not(z3.substitute(nt.cond, *sub) if sub else nt.cond))
    verdict = 'equal'
    cex = None
    # precondition for parameter-indexed loads: the documented source indices are small non-negative numbers (an index
    # near 2^31 is outside every array); there the 32-bit index arithmetic of the generated C and the 64-bit arithmetic
    # of the emulator coincide
    pre = []
    if op['name'].startswith(('loadoff', 'ldres')):
        for v in vars_:
            if v['kind'] == 'param' and 'operand' in v:
                pv = g['params'][v['index']]
                if op['name'].startswith('loadoff'):
                    pre += [pv > -(1 << 20), pv < (1 << 20)]
                elif v['operand'] == 1:
                    pre += [pv >= 0, pv < (1 << 30)]
                else:
                    pre += [pv >= 0, pv < (1 << 16)]
    for a, c in pairs:
        if sub:
            a = z3.substitute(a, *sub)
        if z3.is_true(z3.simplify(a == c)):
            continue
        s = z3.Solver()
        s.set('timeout', timeout_ms)
        s.add(a != c)
        s.add(*pre)
        r = s.check()
        if r == z3.sat and ub:
            s.add(z3.Not(z3.Or(*ub)))
            r2 = s.check()
            if r2 == z3.unsat:
                verdict = 'equal-modulo-UB'
                s2 = z3.Solver()
                s2.add(a != c)
                s2.check()
                md = s2.model()
                cex = {str(d): (hex(md[d].as_long()) if z3.is_bv_value(md[d]) else str(md[d])[:60]) for d in md.decls()}
                cex['emulator'] = str(md.eval(a, model_completion=True))
                cex['generated_c'] = str(md.eval(c, model_completion=True))
                continue
            r = r2
        if r == z3.sat:
            md = s.model()
            cex = {str(d): (hex(md[d].as_long()) if z3.is_bv_value(md[d]) else str(md[d])[:60]) for d in md.decls()}
            cex['emulator'] = str(md.eval(a, model_completion=True))
            cex['generated_c'] = str(md.eval(c, model_completion=True))
            return 'DIFFERENT', cex
        if r != z3.unsat and verdict == 'equal':
            verdict = 'unknown'
    return verdict, cex


def all_single_opcode_checks(b, exe, table, m_emu, n=2, flags=0, timeout_ms=20000, wrapv=True):
    """Generate, compile and compare the one-instruction program of every opcode. -> dict name -> (verdict, detail)"""
    text = ''
    for op in table:
        text += single_opcode_recipe(op)[0]
    outs = c_backend_source(exe, text, flags)
    res = {}
    good = []
    for op, o in zip(table, outs):
        if not o.get('successful') or not o.get('asm'):
            res[op['name']] = ('not-compiled', 'result %s %s' % (o.get('result'), o.get('error') or o.get('abnormal')))
        else:
            good.append((op, o['asm']))
    path = wrap_source(b, [c for _, c in good], 'genc_all_%d' % flags)
    m_gen = Module.load(b.ir('genc_all_%d' % flags, path, wrapv=wrapv))
    for op, _ in good:
        try:
            res[op['name']] = single_opcode_check(m_emu, m_gen, op, n, timeout_ms)
        except Exception as e:
            res[op['name']] = ('error', '%s: %s' % (type(e).__name__, str(e)[:200]))
    return res


def selftest_rows(b, exe, table, m_emu, m_emu_nowrap, quick=False):
    import time
    import collections
    rows = []
    for tag, mm, wrapv in (('wrapv', m_emu, True), ('non-wrapv', m_emu_nowrap, False)):
        t = time.time()
        res = all_single_opcode_checks(b, exe, table, mm, n=2, timeout_ms=10000, wrapv=wrapv)
        c = collections.Counter(v[0] for v in res.values())
        bad = sorted(k for k, v in res.items() if v[0] in ('error', 'not-compiled'))
        diff = sorted(k for k, v in res.items() if v[0] in ('DIFFERENT', 'equal-modulo-UB'))
        rows.append(('stage3: generated C (flags 0) of 1-insn program == emulation kernel, %s IR' % tag,
                     '%s; not equal everywhere: %s %s' % (dict(c), diff, ('errors: %s' % bad) if bad else ''), not bad and c.get('equal', 0) > 150,
                     time.time() - t))
        if quick:
            break
    return rows
