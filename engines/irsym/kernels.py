"""Orc emulation kernels: opcode table, OrcOpcodeExecutor staging, closed forms."""
import json
import subprocess
import z3
from .executor import Executor, Unsupported
from .values import bvval, simp, mask
from .irparse import Module

F_ACCUMULATOR = 1
F_FLOAT_SRC = 2
F_FLOAT_DEST = 4
F_SCALAR = 8
F_LOAD = 16
F_STORE = 32
F_INVARIANT = 64
F_ITERATOR = 128
F_COPY = 256

CHUNK = 16            # orcexecutor.c CHUNK_SIZE: load_constant() writes 16 x int64
WINDOW_OPS = ('ldresnear', 'ldreslin', 'loadoff')


def opcode_table_native(exe):
    """`orcdump opcodes` -> list of dicts (name, flags, dest[2], src[4], index)"""
    out = subprocess.run([exe, 'opcodes'], stdout=subprocess.PIPE, check=True, timeout=60).stdout
    return json.loads(out)


def opcode_table_from_ir(m, gname='opcodes'):
    """Opcode table read from the initialiser of `static OrcStaticOpcode opcodes[]` (IR of orcopcodes-sys.c)."""
    g = None
    for k, v in m.globals.items():
        if k.split('$')[0] == gname and v.init is not None and v.init[0] == 'agg':
            g = v
    if g is None:
        raise KeyError(gname)
    tab = []
    for i, (et, ev) in enumerate(g.init[1]):
        if ev[0] != 'agg':
            break       # zeroinitializer terminator
        f = ev[1]
        name = f[0][1][1].split(b'\0')[0].decode() if f[0][1][0] == 'str' else ''
        if not name:
            break

        def ints(x):
            return [e[1][1] if e[1][0] == 'c' else 0 for e in x[1][1]] if x[1][0] == 'agg' else [0] * x[0][1]
        fn = f[4][1]
        tab.append(dict(name=name, flags=f[1][1][1], dest=ints(f[2]), src=ints(f[3]), index=i,
                        emulate=fn[1] if fn[0] == 'g' else None))
    return tab


def default_opcode_table(b=None):
    """Opcode table without running native code: parsed from the IR of orc/orcopcodes-sys.c (lib.build)."""
    import os
    from lib import build
    b = b or build.Build('irsym-optable')
    ll = b.ir('opsys', os.path.join(build.REPO, 'orc', 'orcopcodes-sys.c'), wrapv=True)
    return opcode_table_from_ir(Module.load(ll))


def is_scalar_src(op, k):
    """Operand k is read as one staged 64-bit value `((orc_union64 *)ex->src_ptrs[k])->i`."""
    if not op['flags'] & F_SCALAR:
        return False
    if op['flags'] & F_INVARIANT:      # loadp*: the only source is the scalar
        return True
    return k >= 1


def uses_window(op):
    return op['name'].startswith(WINDOW_OPS)


def opx_layout(m):
    t = m.resolve(('n', 'struct._OrcOpcodeExecutor'))
    offs = m.field_offsets(t)
    # { [4 x i32] src_values, [2 x i32] dest_values, emulateN, [4 x i8*] src_ptrs, [2 x i8*] dest_ptrs, i32 shift }
    return dict(size=m.sizeof(t), src_values=offs[0], dest_values=offs[1], emulateN=offs[2], src_ptrs=offs[3],
                dest_ptrs=offs[4], shift=offs[5])


def elem_syms(prefix, size, n):
    return [z3.BitVec('%s_%d' % (prefix, i), 8 * size) for i in range(n)]


def kernel_closed_form(m, opcode_entry, n, offset_term=None, acc_init=None, src_terms=None, staged=None,
                       nan_mode='canonical', simplify=True, prefix='', window_elems=None, ex=None, max_steps=200000, src_elems=None):
    """Run emulate_<op>(opx, offset, n) on fresh symbolic operands and return the closed form.

    src_terms: optional list (per source operand) overriding the fresh inputs: a list of n element terms
               (BitVec(8*size)) for array operands, or one BitVec(64)/int for staged operands.
    staged:    set of source indices passed as staged 64-bit values (16 x int64 as load_constant(.., 8, v));
               default: the scalar operands according to the opcode flags.
    returns dict: dest (list per dest of list of element terms; accumulator: single 32-bit term), srcs (inputs used),
                  accesses, ub_notes, poison, steps, acc_in, offset
    """
    op = opcode_entry
    name = op['name']
    fn = op.get('emulate') or 'emulate_' + name
    if ex is None:
        ex = Executor(m, max_steps=max_steps, nan_mode=nan_mode, pin_addresses='fault')
    L = opx_layout(m)
    opx = ex.alloc(prefix + 'opx', L['size'], init='zero')
    if fn in ex.gaddr:
        ex.write(opx, L['emulateN'], ex.gaddr[fn], 8)
    nsrc = [s for s in op['src'] if s]
    ndst = [d for d in op['dest'] if d]
    if staged is None:
        staged = {k for k in range(len(nsrc)) if is_scalar_src(op, k)}
    srcs = []
    win = uses_window(op)
    for k, size in enumerate(nsrc):
        given = src_terms[k] if src_terms and k < len(src_terms) and src_terms[k] is not None else None
        if k in staged:
            v = given if given is not None else z3.BitVec('%ss%d' % (prefix, k), 64)
            p = ex.alloc('%ssrc%d' % (prefix, k), 8 * CHUNK, init='zero')
            for j in range(CHUNK):
                ex.write(p, 8 * j, v, 8)
            srcs.append(v)
        elif win and k == 0:
            p = ex.alloc('%ssrc%d' % (prefix, k), size * (window_elems or (1 << 20)), init='symbolic', window=True)
            srcs.append(ex.state.mem.objs[simp(p)].arr)
        else:
            els = given if given is not None else elem_syms('%ss%d' % (prefix, k), size, n)
            if len(els) != n:
                raise ValueError('src_terms[%d] must have n=%d elements' % (k, n))
            # src_elems[k]: number of elements the source object really has (default n); an access beyond it faults
            cnt_k = (src_elems or {}).get(k, n)
            p = ex.alloc('%ssrc%d' % (prefix, k), size * cnt_k, init='zero')
            for i, e in enumerate(els[:cnt_k]):
                ex.write(p, i * size, e, size)
            srcs.append(list(els))
        ex.write(opx, L['src_ptrs'] + 8 * k, p, 8)
    dptrs = []
    acc = bool(op['flags'] & F_ACCUMULATOR)
    acc_in = None
    for k, size in enumerate(ndst):
        if acc:
            acc_in = acc_init if acc_init is not None else z3.BitVec('%sacc%d' % (prefix, k), 32)
            p = ex.alloc('%sdst%d' % (prefix, k), 4, init='zero')     # &ex->accumulators[k] is an int
            ex.write(p, 0, acc_in, 4)
        else:
            p = ex.alloc('%sdst%d' % (prefix, k), size * n, init='symbolic')
        dptrs.append(p)
        ex.write(opx, L['dest_ptrs'] + 8 * k, p, 8)
    off = offset_term if offset_term is not None else 0
    paths = ex.call(fn, [opx, off, n])
    if len(paths) != 1 or paths[0].status != 'ok':
        raise Unsupported('kernel %s: expected one path, got %r' % (name, paths))
    p0 = paths[0]
    dest = []
    for k, size in enumerate(ndst):
        if acc:
            els = [p0.read(dptrs[k], 0, 4)]
        else:
            els = [p0.read(dptrs[k], i * size, size) for i in range(n)]
        if simplify:
            els = [e if isinstance(e, int) else z3.simplify(e) for e in els]
        els = [bvval(e, 8 * (4 if acc else size)) if isinstance(e, int) else e for e in els]
        dest.append(els)
    return dict(opcode=name, n=n, dest=dest, srcs=srcs, accesses=p0.accesses, ub_notes=p0.ub_notes,
                poison=p0.poison_obligations, steps=p0.steps, acc_in=acc_in, offset=off, path=p0,
                dest_ptrs=dptrs, executor=ex)
