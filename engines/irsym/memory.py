"""KLEE-style memory: disjoint objects at concrete base addresses, byte-granular sparse contents."""
import bisect
import z3
from .values import bvval, mask, simp


class MemFault(Exception):
    """Access outside every live object, through a dead object, or through an address that cannot be pinned."""

    def __init__(self, msg, addr=None, size=None, kind=None, where=None):
        Exception.__init__(self, msg)
        self.addr = addr
        self.size = size
        self.kind = kind
        self.where = where


WINDOW_BASE = 0x4000_0000_0000
WINDOW_STRIDE = 0x1_0000_0000
BV64 = z3.BitVecSort(64)
BV8 = z3.BitVecSort(8)


class Obj:
    __slots__ = ('name', 'base', 'size', 'live', 'kind', 'default', 'data', 'owner', 'window', 'arr', 'readonly',
                 'freed_at')

    def __init__(self, name, base, size, kind, default, owner):
        self.name = name
        self.base = base
        self.size = size
        self.live = True
        self.kind = kind            # 'global' | 'stack' | 'heap' | 'user' | 'func'
        self.default = default      # 'sym' | int fill byte
        self.data = {}              # offset -> int | BitVec8 | (term, byte_index, nbytes)
        self.owner = owner
        self.window = False
        self.arr = None
        self.readonly = False
        self.freed_at = None

    def copy(self, owner):
        o = Obj(self.name, self.base, self.size, self.kind, self.default, owner)
        o.live = self.live
        o.data = dict(self.data) if self.data is not None else None
        o.window = self.window
        o.arr = self.arr
        o.readonly = self.readonly
        o.freed_at = self.freed_at
        return o


class Layout:
    """Address allocator shared by all states of one Executor (addresses are never reused)."""

    def __init__(self):
        self.next = {'global': 0x0000_1000_0000, 'heap': 0x0000_2000_0000, 'user': 0x0000_3000_0000,
                     'stack': 0x3ff0_0000_0000, 'func': 0x0000_0040_0000}
        self.nwin = 0
        self.counter = 0

    def take(self, kind, size, align=16, window=False):
        if window:
            b = WINDOW_BASE + self.nwin * WINDOW_STRIDE + 0x8000_0000   # room for negative offsets
            self.nwin += 1
            return b
        a = self.next[kind]
        a = (a + align - 1) // align * align
        self.next[kind] = a + max(size, 1) + 64        # red zone
        return a


class Memory:
    _gen = 0

    def __init__(self, layout):
        Memory._gen += 1
        self.gen = Memory._gen
        self.layout = layout
        self.objs = {}        # base -> Obj
        self.bases = []       # sorted
        self.names = {}       # name -> base
        self.log = None       # access log list (owned by the executor state)
        self.uninit = None    # list of (object, offset) of reads of never-written stack/heap bytes
        self.pcdepth = 0

    def clone(self):
        m = Memory(self.layout)
        Memory._gen += 1
        self.gen = Memory._gen      # objects are now shared: both sides copy on write
        m.objs = dict(self.objs)
        m.bases = list(self.bases)
        m.names = dict(self.names)
        return m

    # ------------------------------------------------------------------ objects
    def new(self, name, size, kind='user', init='sym', align=16, window=False):
        base = self.layout.take(kind, size, align, window)
        if name in self.names:
            self.layout.counter += 1
            name = '%s#%d' % (name, self.layout.counter)
        default = 'sym'
        data = None
        if init in ('symbolic', 'sym'):
            default = 'sym'
        elif init == 'zero':
            default = 0
        elif isinstance(init, (bytes, bytearray)):
            default = 0
            data = {i: b for i, b in enumerate(init) if b}
        elif isinstance(init, int):
            default = init & 0xff
        else:
            raise ValueError('init=%r' % (init,))
        o = Obj(name, base, size, kind, default, self.gen)
        if data:
            o.data = data
        if window:
            o.window = True
            o.arr = z3.Array(name + '_arr', BV64, BV8) if default == 'sym' else z3.K(BV64, bvval(default, 8))
            o.data = None
        self.objs[base] = o
        bisect.insort(self.bases, base)
        self.names[name] = base
        return o

    def find(self, addr):
        """object containing addr (live or dead) or None"""
        if addr >= WINDOW_BASE:
            return self.find_window(addr)
        i = bisect.bisect_right(self.bases, addr) - 1
        if i < 0:
            return None
        o = self.objs[self.bases[i]]
        if addr < o.base + o.size or (o.size == 0 and addr == o.base):
            return o
        return None

    def find_window(self, addr):
        """window object whose stride slot contains addr"""
        if addr < WINDOW_BASE:
            return None
        k = (addr - WINDOW_BASE) // WINDOW_STRIDE
        return self.objs.get(WINDOW_BASE + k * WINDOW_STRIDE + 0x8000_0000)

    def obj(self, name):
        return self.objs[self.names[name]]

    def _own(self, o):
        if o.owner != self.gen:
            o = o.copy(self.gen)
            self.objs[o.base] = o
        return o

    def kill(self, base, where=None):
        o = self._own(self.objs[base])
        o.live = False
        o.freed_at = where

    # ------------------------------------------------------------------ bytes
    def _check(self, addr, n, kind, where):
        o = self.find(addr)
        if o is None:
            raise MemFault('%s of %d bytes at 0x%x: no object' % (kind, n, addr), addr, n, kind, where)
        if not o.live:
            raise MemFault('%s of %d bytes at 0x%x: object %s is dead (freed at %s)' % (kind, n, addr, o.name, o.freed_at),
                           addr, n, kind, where)
        off = addr - o.base
        if off + n > o.size and not o.window:
            raise MemFault('%s of %d bytes at %s+%d: object has %d bytes' % (kind, n, o.name, off, o.size), addr, n, kind, where)
        if o.kind == 'func':
            raise MemFault('%s of code object %s' % (kind, o.name), addr, n, kind, where)
        if self.log is not None:
            self.log.append((o.name, off, n, kind, self.pcdepth))
        return o, off

    def load(self, addr, n, where=None):
        """addr concrete int. Returns int or BitVec(8n)."""
        o, off = self._check(addr, n, 'load', where)
        if o.window:
            return self.load_window(o, off, n)
        data = o.data
        dflt = o.default
        # fast paths
        b0 = data.get(off)
        if b0 is None and type(dflt) is int:
            b0 = dflt
        if type(b0) is int:
            val = b0
            ok = True
            for i in range(1, n):
                b = data.get(off + i, dflt)
                if type(b) is not int:
                    ok = False
                    break
                val |= b << (8 * i)
            if ok:
                return val
        elif type(b0) is tuple and b0[1] == 0 and b0[2] == n:
            t = b0[0]
            ok = True
            for i in range(1, n):
                b = data.get(off + i)
                if type(b) is not tuple or b[0] is not t or b[1] != i:
                    ok = False
                    break
            if ok:
                return t
        # general: gather runs
        parts = []      # little endian order, each a BitVec term or (int, nbytes)
        i = 0
        while i < n:
            b = data.get(off + i)
            if b is None:
                if type(dflt) is not int:
                    if o.owner != self.gen:
                        o = self._own(o)
                        data = o.data
                    if dflt == 'uninit':
                        b = z3.BitVec('uninit_%s_%d' % (o.name, off + i), 8)
                        if self.uninit is not None:
                            self.uninit.append((o.name, off + i))
                    else:
                        b = z3.BitVec('%s_%d' % (o.name, off + i), 8)
                    data[off + i] = b
                else:
                    b = dflt
            if type(b) is int:
                parts.append(bvval(b, 8))
                i += 1
            elif type(b) is tuple:
                t, k, tot = b
                j = 1
                while i + j < n:
                    b2 = data.get(off + i + j)
                    if type(b2) is tuple and b2[0] is t and b2[1] == k + j:
                        j += 1
                    else:
                        break
                parts.append(t if (k == 0 and j == tot) else z3.Extract(8 * (k + j) - 1, 8 * k, t))
                i += j
            else:
                parts.append(b)
                i += 1
        if len(parts) == 1:
            return parts[0]
        return z3.Concat(*reversed(parts))

    def store(self, addr, v, n, where=None):
        o, off = self._check(addr, n, 'store', where)
        if o.readonly:
            raise MemFault('store to constant object %s+%d' % (o.name, off), addr, n, 'store', where)
        o = self._own(o)
        if o.window:
            return self.store_window(o, off, v, n)
        data = o.data
        if type(v) is int:
            for i in range(n):
                data[off + i] = (v >> (8 * i)) & 0xff
        elif n == 1:
            if z3.is_bool(v):
                v = z3.If(v, bvval(1, 8), bvval(0, 8))
            data[off] = v
        else:
            for i in range(n):
                data[off + i] = (v, i, n)

    def fill(self, addr, byte, n, where=None):
        """memset with a concrete length; byte int or BitVec8"""
        if n == 0:
            return
        o, off = self._check(addr, n, 'store', where)
        if o.readonly:
            raise MemFault('store to constant object %s+%d' % (o.name, off), addr, n, 'store', where)
        o = self._own(o)
        if o.window:
            for i in range(n):
                self.store_window(o, off + i, byte, 1)
            return
        if off == 0 and n == o.size and type(byte) is int:
            o.data = {}
            o.default = byte
            return
        data = o.data
        if type(byte) is int and byte == o.default:
            for i in range(off, off + n):
                data.pop(i, None)
            return
        for i in range(off, off + n):
            data[i] = byte

    def copy(self, dst, src, n, where=None):
        """memcpy/memmove with concrete length (reads everything first, so overlap is safe)"""
        if n == 0:
            return
        so, soff = self._check(src, n, 'load', where)
        do, doff = self._check(dst, n, 'store', where)
        if do.readonly:
            raise MemFault('store to constant object %s+%d' % (do.name, doff), dst, n, 'store', where)
        if so.window or do.window:
            bs = [self.load(src + i, 1) for i in range(n)]
            for i, b in enumerate(bs):
                self.store(dst + i, b, 1)
            return
        sd = so.data
        dflt = so.default
        if type(dflt) is not int:
            # materialise lazily named bytes so that both copies agree
            for i in range(soff, soff + n):
                if i not in sd:
                    so = self._own(so)
                    sd = so.data
                    sd[i] = z3.BitVec('%s%s_%d' % ('uninit_' if dflt == 'uninit' else '', so.name, i), 8)
            if so.base == do.base:
                do = so
        items = [sd.get(soff + i, dflt) for i in range(n)]
        do = self._own(do)
        dd = do.data
        for i, b in enumerate(items):
            dd[doff + i] = b

    # ------------------------------------------------------------------ windows (z3 Array backed)
    def load_window(self, o, off, n):
        """off: int or BitVec64 (offset relative to base)"""
        offt = bvval(off & mask(64), 64) if type(off) is int else off
        bs = [z3.Select(o.arr, offt + bvval(i, 64) if i else offt) for i in range(n)]
        return bs[0] if n == 1 else z3.Concat(*reversed(bs))

    def store_window(self, o, off, v, n):
        offt = bvval(off & mask(64), 64) if type(off) is int else off
        arr = o.arr
        for i in range(n):
            if type(v) is int:
                b = bvval((v >> (8 * i)) & 0xff, 8)
            elif n == 1:
                b = v
            else:
                b = z3.Extract(8 * i + 7, 8 * i, v)
            arr = z3.Store(arr, offt + bvval(i, 64) if i else offt, b)
        o.arr = arr

    # ------------------------------------------------------------------ convenience
    def read_bytes(self, addr, n):
        """list of per-byte values (int or BitVec8)"""
        return [self.load(addr + i, 1) for i in range(n)]

    def cstring(self, addr, limit=4096):
        """concrete NUL-terminated string at addr -> bytes (raises MemFault / ValueError on symbolic bytes)"""
        out = bytearray()
        for i in range(limit):
            b = simp(self.load(addr + i, 1))
            if type(b) is not int:
                raise ValueError('symbolic byte in string at 0x%x+%d' % (addr, i))
            if b == 0:
                return bytes(out)
            out.append(b)
        raise ValueError('unterminated string')
