"""Dual value representation: a value of an LLVM first-class type iN / pointer / float / double is either

  * a Python int in [0, 2^bits)           (concrete; floats are their IEEE bit pattern)
  * a z3 BitVecRef of `bits` bits         (symbolic; floats again as bit pattern)
  * for i1 only: Python int 0/1 or a z3 BoolRef

Every operation has an int fast path and a z3 path.  Both are validated against the natively compiled kernels
(validate.py: mode 'int' runs the int path, mode 'sym' instantiates the symbolic closed forms).
"""
import math
import struct
import z3
import numpy as np

_bvcache = {}


def bvval(v, bits):
    k = (v, bits)
    r = _bvcache.get(k)
    if r is None:
        r = z3.BitVecVal(v, bits)
        if len(_bvcache) < 200000:
            _bvcache[k] = r
    return r


def is_c(v):
    return type(v) is int


def mask(bits):
    return (1 << bits) - 1


def to_signed(v, bits):
    return v - (1 << bits) if v >> (bits - 1) else v


def tobv(v, bits):
    """int | BitVecRef | BoolRef(bits==1) -> BitVecRef"""
    if type(v) is int:
        return bvval(v, bits)
    if z3.is_bool(v):
        return z3.If(v, bvval(1, bits), bvval(0, bits))
    return v


def tobool(v):
    """i1 value -> Python bool | BoolRef"""
    if type(v) is int:
        return bool(v)
    if z3.is_bool(v):
        return v
    return v == bvval(1, 1)


def simp(v):
    """simplify; BitVec/Bool numerals become Python ints."""
    if type(v) is int:
        return v
    s = z3.simplify(v)
    if z3.is_bv_value(s):
        return s.as_long()
    if z3.is_true(s):
        return 1
    if z3.is_false(s):
        return 0
    return s


# ---------------------------------------------------------------------------------------------- integer ops
def binop(op, a, b, bits):
    """Returns the result value (wrapping semantics). UB/poison side conditions are computed separately."""
    if type(a) is int and type(b) is int:
        m = (1 << bits) - 1
        if op == 'add':
            return (a + b) & m
        if op == 'sub':
            return (a - b) & m
        if op == 'mul':
            return (a * b) & m
        if op == 'and':
            return a & b
        if op == 'or':
            return a | b
        if op == 'xor':
            return a ^ b
        if op == 'shl':
            return (a << b) & m if b < bits else 0
        if op == 'lshr':
            return a >> b if b < bits else 0
        if op == 'ashr':
            s = to_signed(a, bits)
            return (s >> min(b, bits - 1)) & m
        if op == 'udiv':
            return a // b if b else m          # z3 convention for /0 (UB recorded by caller)
        if op == 'urem':
            return a % b if b else a
        if op == 'sdiv':
            if b == 0:
                return m if not (a >> (bits - 1)) else 1   # z3: x/0 = -1 for x>=0, 1 for x<0
            sa, sb = to_signed(a, bits), to_signed(b, bits)
            q = abs(sa) // abs(sb)
            if (sa < 0) != (sb < 0):
                q = -q
            return q & m
        if op == 'srem':
            if b == 0:
                return a
            sa, sb = to_signed(a, bits), to_signed(b, bits)
            r = abs(sa) % abs(sb)
            if sa < 0:
                r = -r
            return r & m
        raise ValueError(op)
    if bits == 1 and op in ('and', 'or', 'xor') and (z3.is_bool(a) or z3.is_bool(b) or True):
        x, y = tobool(a), tobool(b)
        if op == 'and':
            if x is True:
                return y
            if y is True:
                return x
            if x is False or y is False:
                return 0
            return z3.And(x, y)
        if op == 'or':
            if x is False:
                return y
            if y is False:
                return x
            if x is True or y is True:
                return 1
            return z3.Or(x, y)
        if x is False:
            return y
        if y is False:
            return x
        if x is True:
            return z3.Not(y)
        if y is True:
            return z3.Not(x)
        return z3.Xor(x, y)
    # cheap identities keep terms small
    if type(b) is int:
        if b == 0 and op in ('add', 'sub', 'or', 'xor', 'shl', 'lshr', 'ashr'):
            return a
        if op == 'and' and b == mask(bits):
            return a
        if op == 'mul' and b == 1:
            return a
    if type(a) is int:
        if a == 0 and op in ('add', 'or', 'xor'):
            return b
        if op == 'and' and a == mask(bits):
            return b
        if op == 'mul' and a == 1:
            return b
    x, y = tobv(a, bits), tobv(b, bits)
    if op == 'add':
        return x + y
    if op == 'sub':
        return x - y
    if op == 'mul':
        return x * y
    if op == 'and':
        return x & y
    if op == 'or':
        return x | y
    if op == 'xor':
        return x ^ y
    if op == 'shl':
        return x << y
    if op == 'lshr':
        return z3.LShR(x, y)
    if op == 'ashr':
        return x >> y
    if op == 'udiv':
        return z3.UDiv(x, y)
    if op == 'urem':
        return z3.URem(x, y)
    if op == 'sdiv':
        return x / y
    if op == 'srem':
        return z3.SRem(x, y)
    raise ValueError(op)


def ub_cond(op, a, b, bits):
    """Condition under which the instruction has undefined behaviour / yields poison independent of flags:
    division by zero, INT_MIN / -1, shift amount >= width.  Returns False | True | BoolRef."""
    if op in ('udiv', 'urem', 'sdiv', 'srem'):
        if type(b) is int:
            z = b == 0
        else:
            z = b == bvval(0, bits)
        if op in ('sdiv', 'srem'):
            mn = 1 << (bits - 1)
            if type(a) is int and type(b) is int:
                return z or (a == mn and b == mask(bits))
            o = z3.And(tobv(a, bits) == bvval(mn, bits), tobv(b, bits) == bvval(mask(bits), bits))
            return z3.Or(z, o) if z is not False else o
        return z
    if op in ('shl', 'lshr', 'ashr'):
        if type(b) is int:
            return b >= bits
        return z3.UGE(b, bvval(bits, bits))
    return False


def swidth(x, bits, depth=0):
    """Upper bound on the number of bits needed to represent x as a *signed* value (sound, syntactic)."""
    if type(x) is int:
        s = to_signed(x, bits)
        return (s.bit_length() if s >= 0 else (~s).bit_length()) + 1
    if depth > 6:
        return bits
    k = x.decl().kind()
    if k == z3.Z3_OP_BNUM:
        return swidth(x.as_long(), bits)
    if k == z3.Z3_OP_SIGN_EXT:
        return swidth(x.arg(0), x.arg(0).size(), depth + 1)
    if k == z3.Z3_OP_ZERO_EXT:
        return min(bits, uwidth(x.arg(0), x.arg(0).size(), depth + 1) + 1)
    if k == z3.Z3_OP_ITE:
        return max(swidth(x.arg(1), bits, depth + 1), swidth(x.arg(2), bits, depth + 1))
    if k == z3.Z3_OP_BASHR and z3.is_bv_value(x.arg(1)):
        return max(1, swidth(x.arg(0), bits, depth + 1) - min(x.arg(1).as_long(), bits - 1))
    u = uwidth(x, bits, depth)
    return min(bits, u + 1)


def uwidth(x, bits, depth=0):
    """Upper bound on the number of bits needed to represent x as an *unsigned* value (sound, syntactic)."""
    if type(x) is int:
        return x.bit_length()
    if depth > 6:
        return bits
    k = x.decl().kind()
    if k == z3.Z3_OP_BNUM:
        return x.as_long().bit_length()
    if k == z3.Z3_OP_ZERO_EXT:
        return uwidth(x.arg(0), x.arg(0).size(), depth + 1)
    if k == z3.Z3_OP_BAND:
        return min(uwidth(c, bits, depth + 1) for c in x.children())
    if k == z3.Z3_OP_ITE:
        return max(uwidth(x.arg(1), bits, depth + 1), uwidth(x.arg(2), bits, depth + 1))
    if k == z3.Z3_OP_BLSHR and z3.is_bv_value(x.arg(1)):
        return max(0, uwidth(x.arg(0), bits, depth + 1) - min(x.arg(1).as_long(), bits))
    if k == z3.Z3_OP_BMUL and x.num_args() == 2:
        return min(bits, uwidth(x.arg(0), bits, depth + 1) + uwidth(x.arg(1), bits, depth + 1))
    if k == z3.Z3_OP_BADD and x.num_args() == 2:
        return min(bits, max(uwidth(x.arg(0), bits, depth + 1), uwidth(x.arg(1), bits, depth + 1)) + 1)
    if k == z3.Z3_OP_BSUB and x.num_args() == 2 and z3.is_bv_value(x.arg(0)):
        c = x.arg(0).as_long()
        if uwidth(x.arg(1), bits, depth + 1) < c.bit_length():      # max(x) = 2^w - 1 < 2^(len-1) <= c : no borrow
            return c.bit_length()
        return bits
    if k == z3.Z3_OP_CONCAT:
        ch = x.children()
        lead = 0
        for c in ch:
            if z3.is_bv_value(c) and c.as_long() == 0:
                lead += c.size()
            else:
                lead_rest = uwidth(c, c.size(), depth + 1)
                return bits - lead - (c.size() - lead_rest)
        return 0
    return bits


def _trivially_safe(op, flag, a, b, bits):
    """Integer-promotion patterns that cannot overflow (keeps the obligation lists short and solver-friendly)."""
    if flag == 'nsw' and op in ('add', 'sub', 'mul'):
        sa, sb = swidth(a, bits), swidth(b, bits)
        if op == 'mul':
            return sa + sb <= bits
        return max(sa, sb) + 1 <= bits
    if flag == 'nuw' and op in ('add', 'mul'):
        ua, ub = uwidth(a, bits), uwidth(b, bits)
        if op == 'mul':
            return ua + ub <= bits
        return max(ua, ub) + 1 <= bits
    if op == 'shl' and type(b) is int and b < bits:
        if flag == 'nuw':
            return uwidth(a, bits) + b <= bits
        return swidth(a, bits) + b <= bits
    return False


def no_poison(op, flag, a, b, r, bits):
    """Condition "flag does not produce poison" for nsw / nuw / exact.  Returns True | False | BoolRef."""
    if not (type(a) is int and type(b) is int) and _trivially_safe(op, flag, a, b, bits):
        return True
    if type(a) is int and type(b) is int:
        sa, sb = to_signed(a, bits), to_signed(b, bits)
        lo, hi = -(1 << (bits - 1)), (1 << (bits - 1)) - 1
        if flag == 'nsw':
            if op == 'add':
                return lo <= sa + sb <= hi
            if op == 'sub':
                return lo <= sa - sb <= hi
            if op == 'mul':
                return lo <= sa * sb <= hi
            if op == 'shl':
                return b < bits and lo <= (sa << b) <= hi
        if flag == 'nuw':
            if op == 'add':
                return a + b <= mask(bits)
            if op == 'sub':
                return a >= b
            if op == 'mul':
                return a * b <= mask(bits)
            if op == 'shl':
                return b < bits and (a << b) <= mask(bits)
        if flag == 'exact':
            if op in ('lshr', 'ashr'):
                return b < bits and (a & ((1 << b) - 1)) == 0
            if op == 'udiv':
                return b != 0 and a % b == 0
            if op == 'sdiv':
                return b != 0 and abs(sa) % abs(sb) == 0
        raise ValueError((op, flag))
    x, y, rr = tobv(a, bits), tobv(b, bits), tobv(r, bits)
    if flag == 'nsw':
        if op == 'add':
            return z3.SignExt(1, x) + z3.SignExt(1, y) == z3.SignExt(1, rr)
        if op == 'sub':
            return z3.SignExt(1, x) - z3.SignExt(1, y) == z3.SignExt(1, rr)
        if op == 'mul':
            return z3.And(z3.BVMulNoOverflow(x, y, True), z3.BVMulNoUnderflow(x, y))
        if op == 'shl':
            return z3.And(z3.ULT(y, bvval(bits, bits)), (rr >> y) == x)
    if flag == 'nuw':
        if op == 'add':
            return z3.UGE(rr, x)
        if op == 'sub':
            return z3.UGE(x, y)
        if op == 'mul':
            return z3.BVMulNoOverflow(x, y, False)
        if op == 'shl':
            return z3.And(z3.ULT(y, bvval(bits, bits)), z3.LShR(rr, y) == x)
    if flag == 'exact':
        if op in ('lshr', 'ashr'):
            return z3.And(z3.ULT(y, bvval(bits, bits)), (rr << y) == x)
        if op in ('udiv', 'sdiv'):
            return z3.And(y != bvval(0, bits), rr * y == x)
    raise ValueError((op, flag))


def icmp(pred, a, b, bits):
    if type(a) is int and type(b) is int:
        if pred == 'eq':
            return int(a == b)
        if pred == 'ne':
            return int(a != b)
        if pred[0] == 'u':
            x, y = a, b
        else:
            x, y = to_signed(a, bits), to_signed(b, bits)
        p = pred[1:]
        return int(x > y if p == 'gt' else x >= y if p == 'ge' else x < y if p == 'lt' else x <= y)
    if bits == 1:
        x, y = tobv(a, 1), tobv(b, 1)
    else:
        x, y = tobv(a, bits), tobv(b, bits)
    if pred == 'eq':
        return x == y
    if pred == 'ne':
        return x != y
    if pred == 'sgt':
        return x > y
    if pred == 'sge':
        return x >= y
    if pred == 'slt':
        return x < y
    if pred == 'sle':
        return x <= y
    if pred == 'ugt':
        return z3.UGT(x, y)
    if pred == 'uge':
        return z3.UGE(x, y)
    if pred == 'ult':
        return z3.ULT(x, y)
    if pred == 'ule':
        return z3.ULE(x, y)
    raise ValueError(pred)


def select(c, a, b, bits):
    if type(c) is int:
        return a if c else b
    if type(a) is int and type(b) is int and a == b:
        return a
    c = tobool(c)
    if bits == 1:
        x, y = tobool(a), tobool(b)
        if x is True and y is False:
            return c
        if x is True:
            return z3.Or(c, y)
        if y is False:
            return z3.And(c, x)
        if x is False and y is True:
            return z3.Not(c)
        x = z3.BoolVal(x) if isinstance(x, bool) else x
        y = z3.BoolVal(y) if isinstance(y, bool) else y
        return z3.If(c, x, y)
    return z3.If(c, tobv(a, bits), tobv(b, bits))


def trunc(a, frm, to):
    if type(a) is int:
        return a & mask(to)
    if to == 1:
        return z3.Extract(0, 0, a) == bvval(1, 1)
    return z3.Extract(to - 1, 0, a)


def zext(a, frm, to):
    if type(a) is int:
        return a
    if frm == 1:
        return z3.If(tobool(a), bvval(1, to), bvval(0, to))
    return z3.ZeroExt(to - frm, a)


def sext(a, frm, to):
    if type(a) is int:
        return to_signed(a, frm) & mask(to)
    if frm == 1:
        return z3.If(tobool(a), bvval(mask(to), to), bvval(0, to))
    return z3.SignExt(to - frm, a)


def extract_bytes(v, lo, n, total):
    """bytes lo..lo+n-1 (little endian) of an int/BitVec value of `total` bytes"""
    if type(v) is int:
        return (v >> (8 * lo)) & mask(8 * n)
    if n == total:
        return v
    return z3.Extract(8 * (lo + n) - 1, 8 * lo, v)


# ---------------------------------------------------------------------------------------------- intrinsics
def sat_add(signed, sub, a, b, bits):
    if type(a) is int and type(b) is int:
        if signed:
            x, y = to_signed(a, bits), to_signed(b, bits)
            r = x - y if sub else x + y
            lo, hi = -(1 << (bits - 1)), (1 << (bits - 1)) - 1
            return max(lo, min(hi, r)) & mask(bits)
        r = a - b if sub else a + b
        return max(0, min(mask(bits), r))
    x, y = tobv(a, bits), tobv(b, bits)
    if signed:
        xe, ye = z3.SignExt(1, x), z3.SignExt(1, y)
        r = xe - ye if sub else xe + ye
        lo, hi = bvval(1 << (bits - 1), bits), bvval((1 << (bits - 1)) - 1, bits)
        loe, hie = z3.SignExt(1, lo), z3.SignExt(1, hi)
        return z3.If(r < loe, lo, z3.If(r > hie, hi, z3.Extract(bits - 1, 0, r)))
    if sub:
        return z3.If(z3.ULT(x, y), bvval(0, bits), x - y)
    s = x + y
    return z3.If(z3.ULT(s, x), bvval(mask(bits), bits), s)


def minmax(kind, a, b, bits):
    if type(a) is int and type(b) is int:
        if kind[0] == 's':
            x, y = to_signed(a, bits), to_signed(b, bits)
        else:
            x, y = a, b
        pick_a = (x < y) if kind.endswith('min') else (x > y)
        return a if pick_a else b
    x, y = tobv(a, bits), tobv(b, bits)
    c = {'smin': x < y, 'smax': x > y, 'umin': z3.ULT(x, y), 'umax': z3.UGT(x, y)}[kind]
    return z3.If(c, x, y)


def iabs(a, bits):
    if type(a) is int:
        return (-to_signed(a, bits)) & mask(bits) if a >> (bits - 1) else a
    return z3.If(a < bvval(0, bits), -a, a)


def bswap(a, bits):
    n = bits // 8
    if type(a) is int:
        return int.from_bytes(a.to_bytes(n, 'little'), 'big')
    return z3.Concat(*[z3.Extract(8 * i + 7, 8 * i, a) for i in range(n)])


def funnel(left, a, b, c, bits):
    """fshl(a,b,c): (a:b << (c mod bits)) high half; fshr: (a:b >> (c mod bits)) low half"""
    if type(a) is int and type(b) is int and type(c) is int:
        s = c % bits
        w = (a << bits) | b
        if left:
            return ((w << s) >> bits) & mask(bits)
        return (w >> s) & mask(bits)
    x, y = tobv(a, bits), tobv(b, bits)
    if type(c) is int:
        s = c % bits
        if s == 0:
            return x if left else y
        if left:
            return z3.Concat(z3.Extract(bits - 1 - s, 0, x), z3.Extract(bits - 1, bits - s, y))
        return z3.Concat(z3.Extract(s - 1, 0, x), z3.Extract(bits - 1, s, y))
    s = z3.ZeroExt(bits, z3.URem(tobv(c, bits), bvval(bits, bits)))
    w = z3.Concat(x, y)
    if left:
        return z3.Extract(2 * bits - 1, bits, w << s)
    return z3.Extract(bits - 1, 0, z3.LShR(w, s))


def ctpop(a, bits):
    if type(a) is int:
        return bin(a).count('1')
    r = bvval(0, bits)
    for i in range(bits):
        r = r + z3.ZeroExt(bits - 1, z3.Extract(i, i, a))
    return r


def ctlz(a, bits):
    if type(a) is int:
        return bits - a.bit_length()
    r = bvval(bits, bits)
    for i in range(bits):          # lowest set bit first so that the highest wins
        r = z3.If(z3.Extract(i, i, a) == bvval(1, 1), bvval(bits - 1 - i, bits), r)
    return r


def cttz(a, bits):
    if type(a) is int:
        return bits if a == 0 else (a & -a).bit_length() - 1
    r = bvval(bits, bits)
    for i in reversed(range(bits)):
        r = z3.If(z3.Extract(i, i, a) == bvval(1, 1), bvval(i, bits), r)
    return r


# ---------------------------------------------------------------------------------------------- floating point
RNE = z3.RNE()
RTZ = z3.RTZ()
SORT = {32: z3.Float32(), 64: z3.Float64()}
EXPMASK = {32: 0x7f800000, 64: 0x7ff0000000000000}
MANTMASK = {32: 0x007fffff, 64: 0x000fffffffffffff}
QUIET = {32: 0x00400000, 64: 0x0008000000000000}
CANON_NAN = {32: 0x7fc00000, 64: 0x7ff8000000000000}
X86_DEFAULT_NAN = {32: 0xffc00000, 64: 0xfff8000000000000}


def f2b(x, bits):
    if bits == 32:
        return int(np.float32(x).view(np.uint32))
    return struct.unpack('<Q', struct.pack('<d', x))[0]


def b2f(b, bits):
    if bits == 32:
        return np.uint32(b).view(np.float32)
    return np.uint64(b).view(np.float64)


def c_isnan(b, bits):
    return (b & EXPMASK[bits]) == EXPMASK[bits] and (b & MANTMASK[bits]) != 0


class FP:
    """Floating point semantics (IEEE-754 binary32/64, round-to-nearest-even, no FTZ/DAZ, exceptions masked).

    nan_mode 'canonical': every NaN produced by an arithmetic instruction is the positive quiet NaN
                          (0x7fc00000 / 0x7ff8000000000000) -- LLVM leaves payload and sign unspecified.
    nan_mode 'x86':       SSE rule: first NaN operand (in IR operand order) quieted, else the default NaN
                          0xffc00000 / 0xfff8...; conversions keep sign and the top payload bits.
    """

    def __init__(self, nan_mode='canonical'):
        assert nan_mode in ('canonical', 'x86')
        self.nan_mode = nan_mode
        self.fpterm = {}     # BitVec term id -> (FP term, bv term) produced by an FP instruction (avoids BV->FP->BV chains)

    # -- helpers
    def to_fp(self, v, bits):
        if type(v) is int:
            return z3.fpBVToFP(bvval(v, bits), SORT[bits])
        hit = self.fpterm.get(v.get_id())
        if hit is not None:
            return hit[0]
        return z3.fpBVToFP(v, SORT[bits])

    def _isnan_bv(self, v, bits):
        return z3.And((v & bvval(EXPMASK[bits], bits)) == bvval(EXPMASK[bits], bits),
                      (v & bvval(MANTMASK[bits], bits)) != bvval(0, bits))

    def from_fp(self, r, bits, nan_ops=()):
        """FP term -> bit pattern term with the NaN policy applied. nan_ops: operand bit patterns (terms/ints)"""
        raw = z3.fpToIEEEBV(r)
        if self.nan_mode == 'canonical':
            out = z3.If(z3.fpIsNaN(r), bvval(CANON_NAN[bits], bits), raw)
        else:
            out = z3.If(z3.fpIsNaN(r), bvval(X86_DEFAULT_NAN[bits], bits), raw)
            for o in reversed(nan_ops):
                ob = tobv(o, bits)
                out = z3.If(self._isnan_bv(ob, bits), ob | bvval(QUIET[bits], bits), out)
        if len(self.fpterm) < 100000:
            self.fpterm[out.get_id()] = (r, out)
        return out

    def _nan_c(self, bits, nan_ops):
        if self.nan_mode == 'canonical':
            return CANON_NAN[bits]
        for o in nan_ops:
            if c_isnan(o, bits):
                return o | QUIET[bits]
        return X86_DEFAULT_NAN[bits]

    # -- arithmetic
    def binop(self, op, a, b, bits):
        if type(a) is int and type(b) is int:
            x, y = b2f(a, bits), b2f(b, bits)
            with np.errstate(all='ignore'):
                if op == 'fadd':
                    r = x + y
                elif op == 'fsub':
                    r = x - y
                elif op == 'fmul':
                    r = x * y
                elif op == 'fdiv':
                    r = x / y
                else:
                    raise ValueError(op)
            if r != r:
                return self._nan_c(bits, (a, b))
            return int(r.view(np.uint32 if bits == 32 else np.uint64))
        x, y = self.to_fp(a, bits), self.to_fp(b, bits)
        if op == 'fadd':
            r = z3.fpAdd(RNE, x, y)
        elif op == 'fsub':
            r = z3.fpSub(RNE, x, y)
        elif op == 'fmul':
            r = z3.fpMul(RNE, x, y)
        elif op == 'fdiv':
            r = z3.fpDiv(RNE, x, y)
        else:
            raise ValueError(op)
        return self.from_fp(r, bits, (a, b))

    def sqrt(self, a, bits):
        if type(a) is int:
            x = b2f(a, bits)
            with np.errstate(all='ignore'):
                r = np.sqrt(x)
            if r != r:
                return self._nan_c(bits, (a,))
            return int(r.view(np.uint32 if bits == 32 else np.uint64))
        return self.from_fp(z3.fpSqrt(RNE, self.to_fp(a, bits)), bits, (a,))

    def fma(self, a, b, c, bits):
        x, y, z = self.to_fp(a, bits), self.to_fp(b, bits), self.to_fp(c, bits)
        r = self.from_fp(z3.fpFMA(RNE, x, y, z), bits, (a, b, c))
        if type(a) is int and type(b) is int and type(c) is int:
            return z3.simplify(r).as_long()
        return r

    def neg(self, a, bits):
        s = 1 << (bits - 1)
        return a ^ s if type(a) is int else a ^ bvval(s, bits)

    def fabs(self, a, bits):
        m = mask(bits - 1)
        return a & m if type(a) is int else a & bvval(m, bits)

    def fcmp(self, pred, a, b, bits):
        if pred == 'true':
            return 1
        if pred == 'false':
            return 0
        if type(a) is int and type(b) is int:
            x, y = float(b2f(a, bits)), float(b2f(b, bits))
            un = x != x or y != y
            if pred == 'ord':
                return int(not un)
            if pred == 'uno':
                return int(un)
            p = pred[1:]
            o = (x == y if p == 'eq' else x > y if p == 'gt' else x >= y if p == 'ge' else x < y if p == 'lt'
                 else x <= y if p == 'le' else x != y)
            if pred[0] == 'o':
                return int(o and not un)
            return int(o or un)
        x, y = self.to_fp(a, bits), self.to_fp(b, bits)
        un = z3.Or(z3.fpIsNaN(x), z3.fpIsNaN(y))
        if pred == 'ord':
            return z3.Not(un)
        if pred == 'uno':
            return un
        p = pred[1:]
        o = {'eq': z3.fpEQ, 'gt': z3.fpGT, 'ge': z3.fpGEQ, 'lt': z3.fpLT, 'le': z3.fpLEQ}.get(p)
        if p == 'ne':
            if pred[0] == 'o':
                return z3.And(z3.Not(un), z3.Not(z3.fpEQ(x, y)))
            return z3.Or(un, z3.Not(z3.fpEQ(x, y)))
        if pred[0] == 'o':
            return o(x, y)            # IEEE comparisons are false on NaN
        return z3.Or(un, o(x, y))

    # -- conversions
    def fptoint(self, signed, a, fbits, ibits):
        """Returns (value, ub) where ub is the condition 'NaN or truncated value out of range' (C/LLVM: UB/poison).
        In that case the value is the x86 integer indefinite 0x80..0 (for widths 32/64; narrower widths are produced by
        x86 code through a 32-bit conversion + truncation, which this models too)."""
        indef = 1 << (ibits - 1) if ibits >= 32 else 0
        if type(a) is int:
            x = float(b2f(a, fbits))
            if x != x or x in (float('inf'), float('-inf')):
                return self._fptoint_oor(signed, ibits, None), True
            t = math.trunc(x)
            lo, hi = (-(1 << (ibits - 1)), (1 << (ibits - 1)) - 1) if signed else (0, mask(ibits))
            if lo <= t <= hi:
                return t & mask(ibits), False
            return self._fptoint_oor(signed, ibits, t), True
        x = self.to_fp(a, fbits)
        t = z3.fpRoundToIntegral(RTZ, x)
        S = SORT[fbits]
        if signed:
            lo = z3.FPVal(-float(1 << (ibits - 1)), S)
            hi = z3.FPVal(float(1 << (ibits - 1)), S)
            ok = z3.And(z3.Not(z3.fpIsNaN(x)), z3.fpGEQ(t, lo), z3.fpLT(t, hi))
            v = z3.fpToSBV(RTZ, x, z3.BitVecSort(ibits))
        else:
            lo = z3.FPVal(0.0, S)
            hi = z3.FPVal(float(1 << ibits), S)
            ok = z3.And(z3.Not(z3.fpIsNaN(x)), z3.fpGEQ(t, lo), z3.fpLT(t, hi))
            v = z3.fpToUBV(RTZ, x, z3.BitVecSort(ibits))
        oor = self._fptoint_oor(signed, ibits, None)
        return z3.If(ok, v, bvval(oor, ibits)), z3.Not(ok)

    def _fptoint_oor(self, signed, ibits, t):
        # x86: cvttss2si/cvttsd2si deliver the integer indefinite value.  (fptoui is compiled to a 64-bit signed
        # conversion by x86-64 compilers; its out-of-range result is unspecified here and chosen as the indefinite.)
        if ibits >= 32:
            return 1 << (ibits - 1)
        return 0

    def inttofp(self, signed, a, ibits, fbits):
        if type(a) is int:
            v = to_signed(a, ibits) if signed else a
            if fbits == 64:
                return f2b(float(v), 64)          # Python int->float is correctly rounded
            if abs(v) < (1 << 53):
                return f2b(np.float32(float(v)), 32)   # exact in double, one rounding to float
            t = bvval(a, ibits)
            r = z3.fpSignedToFP(RNE, t, SORT[32]) if signed else z3.fpUnsignedToFP(RNE, t, SORT[32])
            return z3.simplify(z3.fpToIEEEBV(r)).as_long()
        t = tobv(a, ibits)
        r = z3.fpSignedToFP(RNE, t, SORT[fbits]) if signed else z3.fpUnsignedToFP(RNE, t, SORT[fbits])
        out = z3.fpToIEEEBV(r)            # never NaN
        self.fpterm[out.get_id()] = (r, out)
        return out

    def fpconv(self, a, frm, to):
        """fpext / fptrunc"""
        if type(a) is int:
            if c_isnan(a, frm):
                if self.nan_mode == 'canonical':
                    return CANON_NAN[to]
                return self._conv_nan_c(a, frm, to)
            x = b2f(a, frm)
            with np.errstate(all='ignore'):
                r = np.float64(x) if to == 64 else np.float32(x)
            return int(r.view(np.uint32 if to == 32 else np.uint64))
        x = self.to_fp(a, frm)
        r = z3.fpFPToFP(RNE, x, SORT[to])
        raw = z3.fpToIEEEBV(r)
        if self.nan_mode == 'canonical':
            out = z3.If(z3.fpIsNaN(x), bvval(CANON_NAN[to], to), raw)
        else:
            out = z3.If(z3.fpIsNaN(x), self._conv_nan_s(tobv(a, frm), frm, to), raw)
        self.fpterm[out.get_id()] = (r, out)
        return out

    def _conv_nan_c(self, a, frm, to):
        sign = a >> (frm - 1)
        if frm == 32:   # to 64
            return (sign << 63) | EXPMASK[64] | QUIET[64] | ((a & MANTMASK[32]) << 29)
        return (sign << 31) | EXPMASK[32] | QUIET[32] | ((a & MANTMASK[64]) >> 29)

    def _conv_nan_s(self, a, frm, to):
        sign = z3.Extract(frm - 1, frm - 1, a)
        if frm == 32:
            return z3.Concat(sign, bvval(0x7ff, 11), z3.Extract(22, 0, a), bvval(0, 29)) | bvval(QUIET[64], 64)
        return z3.Concat(sign, bvval(0xff, 8), z3.Extract(51, 29, a)) | bvval(QUIET[32], 32)
