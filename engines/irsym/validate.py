"""Translator validation: the interpreter against the natively compiled kernels (ctypes), on every use.

Two interpreter modes are compared with the native code on the same operand vectors:
  'int'  all inputs are Python ints -> the concrete fast path of every instruction (what stage 2 relies on);
  'sym'  the closed form is built once on symbolic inputs (z3 term path of every instruction) and then instantiated
         with each operand vector (substitute + simplify); this validates exactly the terms handed to the checks.
Mismatch => the interpreter is wrong.
"""
import ctypes
import os
import random
import struct
import subprocess
import time
import zlib
import z3
from .executor import Executor, Unsupported
from .irparse import Module
from .values import bvval, simp, mask
from . import kernels as K

GUARD = 16          # bytes after every destination array that must stay untouched
LEAD = 64           # elements in front of / behind window sources


# ------------------------------------------------------------------------------------------------ native side
def build_native_so(b, out=None, source=None, opt='-O2'):
    """gcc -O2 -shared -fPIC with the build layer's cflags from the same source."""
    source = source or os.path.join(os.environ.get('ORC_REPO', '/repo'), 'orc', 'orcemulateopcodes.c')
    out = out or os.path.join(b.dir, 'emu-native.so')
    cmd = ['gcc', opt, '-shared', '-fPIC'] + list(b.cflags) + [source, '-o', out, '-lm']
    r = subprocess.run(cmd, stdout=subprocess.PIPE, stderr=subprocess.PIPE, text=True, timeout=600)
    if r.returncode != 0:
        raise RuntimeError('native kernel build failed:\n' + r.stderr[:3000])
    return out


class Native:
    def __init__(self, so_path, layout):
        self.lib = ctypes.CDLL(so_path)
        self.L = layout

    def run(self, fn, case):
        """case: dict(n, offset, src=[('arr', bytes, lead_bytes)|('scalar', int)], dest=[bytes...]) -> [bytes...]"""
        L = self.L
        opx = ctypes.create_string_buffer(L['size'])
        keep = []
        for k, s in enumerate(case['src']):
            if s[0] == 'arr':
                buf = ctypes.create_string_buffer(bytes(s[1]), len(s[1]) + 1)
                p = ctypes.addressof(buf) + s[2]
            else:
                buf = ctypes.create_string_buffer(struct.pack('<Q', s[1] & mask(64)) * K.CHUNK, 8 * K.CHUNK + 1)
                p = ctypes.addressof(buf)
            keep.append(buf)
            struct.pack_into('<Q', opx, L['src_ptrs'] + 8 * k, p)
        dbufs = []
        for k, d in enumerate(case['dest']):
            buf = ctypes.create_string_buffer(bytes(d), len(d) + 1)
            dbufs.append(buf)
            struct.pack_into('<Q', opx, L['dest_ptrs'] + 8 * k, ctypes.addressof(buf))
        f = getattr(self.lib, fn)
        f.restype = None
        f.argtypes = [ctypes.c_void_p, ctypes.c_int, ctypes.c_int]
        f(ctypes.addressof(opx), case['offset'], case['n'])
        return [bytes(b.raw[:len(d)]) for b, d in zip(dbufs, case['dest'])]


# ------------------------------------------------------------------------------------------------ interpreter, int mode
def run_int(m, L, fn, case, nan_mode='canonical'):
    ex = Executor(m, nan_mode=nan_mode, log_accesses=False)
    opx = ex.alloc('opx', L['size'], init='zero')
    for k, s in enumerate(case['src']):
        if s[0] == 'arr':
            p = simp(ex.alloc('src%d' % k, len(s[1]), init=bytes(s[1]))) + s[2]
        else:
            p = simp(ex.alloc('src%d' % k, 8 * K.CHUNK, init=struct.pack('<Q', s[1] & mask(64)) * K.CHUNK))
        ex.write(opx, L['src_ptrs'] + 8 * k, p, 8)
    dps = []
    for k, d in enumerate(case['dest']):
        p = ex.alloc('dst%d' % k, len(d), init=bytes(d))
        dps.append(p)
        ex.write(opx, L['dest_ptrs'] + 8 * k, p, 8)
    paths = ex.call(fn, [opx, case['offset'] & mask(32), case['n'] & mask(32)])
    if len(paths) != 1 or paths[0].status != 'ok':
        raise Unsupported('concrete run of %s gave %r' % (fn, paths))
    p0 = paths[0]
    out = []
    for p, d in zip(dps, case['dest']):
        bs = bytearray()
        for i in range(len(d)):
            b = simp(p0.read(p, i, 1))
            if type(b) is not int:
                raise Unsupported('non-constant byte in concrete run of %s' % fn)
            bs.append(b)
        out.append(bytes(bs))
    ub = [n for n in p0.ub_notes if n.kind in ('shift', 'div') and (n.cond is True or z3.is_true(z3.simplify(n.cond) if not isinstance(n.cond, bool) else z3.BoolVal(n.cond)))]
    return out, ub, p0


# ------------------------------------------------------------------------------------------------ operand vectors
def int_boundaries(size):
    bits = 8 * size
    mx = (1 << (bits - 1)) - 1
    vals = [0, 1, 2, 3, mask(bits), mask(bits) - 1, mx, mx - 1, mx + 1, mx + 2, 0x7f, 0x80, 0xff, 0x100 & mask(bits),
            0x55 * (mask(bits) // 0xff), 0xaa * (mask(bits) // 0xff)]
    for pat in (0x7f, 0x80, 0xff, 0x01, 0xfe):
        vals.append(pat * (mask(bits) // 0xff))
    if size >= 2:
        vals += [0x7fff, 0x8000, 0xffff, 0x00ff, 0xff00 & mask(bits), 0x7f80 & mask(bits), 0x807f & mask(bits), 255 * 255]
    if size >= 4:
        vals += [0x7fffffff, 0x80000000, 0xffffffff, 0x0000ffff, 0xffff0000, 0x7fff8000, 0x00010000, 0x00ff00ff]
    if size >= 8:
        vals += [0x7fffffff80000000, 0x00000000ffffffff, 0xffffffff00000000, 0x8000000000000001, 0x0000000100000000]
    out = []
    for v in vals:
        v &= mask(bits)
        if v not in out:
            out.append(v)
    return out


def f32(x):
    try:
        return struct.unpack('<I', struct.pack('<f', x))[0]
    except OverflowError:
        return 0x7f800000 if x > 0 else 0xff800000


def f64(x):
    return struct.unpack('<Q', struct.pack('<d', x))[0]


def float_boundaries(size):
    if size == 4:
        v = [0x00000000, 0x80000000, 0x3f800000, 0xbf800000, 0x00000001, 0x007fffff, 0x00800000, 0x80800000, 0x807fffff,
             0x7f7fffff, 0xff7fffff, 0x7f800000, 0xff800000, 0x7fc00000, 0xffc00000, 0x7f800001, 0xff800001, 0x7fffffff,
             0x7fa00000, 0x3f000000, 0x3fc00000, 0x40490fdb, 0x4f000000, 0xcf000000, 0x4effffff, 0xceffffff, 0xcf000001,
             0x4b800000, 0x4b7fffff, 0x3f7fffff, 0xbf7fffff, 0x00ffffff, 0x01000000, 0x33800000, 0x7e967699,
             f32(2147483520.0), f32(-2147483904.0), f32(0.1), f32(-0.75), f32(65536.0), f32(1e-38), f32(3e-39), f32(255.5)]
    else:
        v = [0, 1 << 63, f64(1.0), f64(-1.0), 1, 0x000fffffffffffff, 0x0010000000000000, 0x8010000000000000,
             0x800fffffffffffff, 0x7fefffffffffffff, 0xffefffffffffffff, 0x7ff0000000000000, 0xfff0000000000000,
             0x7ff8000000000000, 0xfff8000000000000, 0x7ff0000000000001, 0xfff0000000000001, 0x7fffffffffffffff,
             0x7ff4000000000000, f64(0.5), f64(1.5), f64(3.141592653589793), f64(2147483648.0), f64(-2147483648.0),
             f64(2147483647.0), f64(2147483647.5), f64(-2147483648.5), f64(-2147483649.0), f64(2147483648.5),
             f64(4294967296.0), f64(1e308), f64(-1e308), f64(1e-308), f64(3e-310), f64(0.1), f64(-0.75), f64(1e39),
             f64(3.4028235677973366e+38), f64(1.401298464324817e-45), f64(7e-46), f64(1.1754943508222875e-38),
             f64(1.1754942e-38), f64(9007199254740993.0), f64(16777217.0)]
    out = []
    for x in v:
        if x not in out:
            out.append(x)
    return out


def operand_values(size, is_float, rnd, nrandom):
    b = float_boundaries(size) if (is_float and size in (4, 8)) else int_boundaries(size)
    r = []
    for _ in range(nrandom):
        x = rnd.getrandbits(8 * size)
        if is_float and size in (4, 8) and rnd.random() < 0.5:
            # a "reasonable" float: random sign/mantissa, exponent near bias
            if size == 4:
                x = (rnd.getrandbits(1) << 31) | ((127 + rnd.randint(-30, 31)) << 23) | rnd.getrandbits(23)
            else:
                x = (rnd.getrandbits(1) << 63) | ((1023 + rnd.randint(-40, 40)) << 52) | rnd.getrandbits(52)
        r.append(x)
    return b, r


def scalar_values(op, k, rnd):
    """values for staged scalar operand k (64-bit staged values as orc_executor_emulate produces them)"""
    name = op['name']
    size = op['src'][k]
    if name.startswith(('shl', 'shrs', 'shru')):
        # the C promotes the left operand: b/w/l shift in 32 bits, q in 64; larger counts are UB (reported, not compared)
        lim = 64 if name.endswith('q') else 32
        w = 8 * op['src'][0]
        vals = sorted(set([0, 1, 2, 3, w - 1, w // 2, 7, 8, 15, 16, w, lim - 1] + [rnd.randrange(lim) for _ in range(3)]))
        vals = [v for v in vals if v < lim]
        return vals + [lim, lim + 5, mask(64)]       # the last three: undefined shift, must raise a UB note
    if name.startswith('loadp'):
        return int_boundaries(8)[:24] + [rnd.getrandbits(64) for _ in range(8)]
    if name.startswith('loadoff'):
        return [0, 1, 2, 5, mask(64), mask(64) - 2, 17]       # +-small element offsets
    if name.startswith('ldres'):
        if k == 1:    # start (16.16)
            return [0, 0x8000, 0x1234, 0x30000, mask(64) - 0xffff, 0xffff]
        return [0x10000, 0x8000, 0x18000, 0, 0x2aaa, mask(64) - 0x7fff, 0x20001]
    return int_boundaries(8)[:12]


def make_cases(op, seed, nrandom=64, max_pairs=160):
    """-> list of cases; each case is one kernel call.  Returns (cases, vectors_per_case)."""
    name = op['name']
    rnd = random.Random((seed << 32) ^ zlib.crc32(name.encode()))
    srcs = [s for s in op['src'] if s]
    dsts = [d for d in op['dest'] if d]
    fsrc = bool(op['flags'] & K.F_FLOAT_SRC)
    staged = [K.is_scalar_src(op, k) for k in range(len(srcs))]
    arr_idx = [k for k in range(len(srcs)) if not staged[k]]
    window = K.uses_window(op)
    # element vectors for the array operands
    pools = []
    for k in arr_idx:
        fl = fsrc and not name.startswith(('convl', 'convw'))
        b, r = operand_values(srcs[k], fl, rnd, nrandom)
        pools.append((b, r))
    vecs = []
    if len(arr_idx) == 1:
        b, r = pools[0]
        if srcs[arr_idx[0]] == 1:
            r = r + list(range(256))          # single byte operand: exhaustive
        vecs = [(x,) for x in b + r]
    elif len(arr_idx) == 2:
        (b0, r0), (b1, r1) = pools
        pairs = [(x, y) for x in b0 for y in b1]
        rnd.shuffle(pairs)
        diag = [(x, x) for x in b0 if x in b1 or True][:len(b0)]
        vecs = diag + pairs[:max_pairs] + list(zip(r0, r1))
    elif len(arr_idx) == 0:
        vecs = [()] * 4
    else:
        pools3 = [p[0] + p[1] for p in pools]
        vecs = [tuple(rnd.choice(p) for p in pools3) for _ in range(max_pairs)]
    # scalar combinations
    sc_idx = [k for k in range(len(srcs)) if staged[k]]
    if not sc_idx:
        combos = [()]
    elif len(sc_idx) == 1:
        combos = [(v,) for v in scalar_values(op, sc_idx[0], rnd)]
    else:
        a = scalar_values(op, sc_idx[0], rnd)
        b = scalar_values(op, sc_idx[1], rnd)
        combos = [(x, y) for x in a for y in b]
        rnd.shuffle(combos)
        combos = combos[:16]
    cases = []
    acc = bool(op['flags'] & K.F_ACCUMULATOR)
    for ci, combo in enumerate(combos):
        if window:
            # the indexed source: LEAD elements of slack on both sides; n small so that indices stay inside
            n = 12
            size = srcs[0]
            total = (2 * LEAD + n) * size
            data = bytes(rnd.getrandbits(8) for _ in range(total))
            offset = [0, 3, 1, 7][ci % 4]
            case_src = [None] * len(srcs)
            case_src[0] = ('arr', data, LEAD * size)
            for k, v in zip(sc_idx, combo):
                case_src[k] = ('scalar', v)
            if not window_case_in_range(name, combo, offset, n):
                continue
        else:
            if len(sc_idx) and len(vecs) > 96 and ci >= 4:
                vv = vecs[:96]
            else:
                vv = vecs
            n = len(vv)
            offset = 0
            case_src = [None] * len(srcs)
            for j, k in enumerate(arr_idx):
                case_src[k] = ('arr', b''.join(v[j].to_bytes(srcs[k], 'little') for v in vv), 0)
            for k, v in zip(sc_idx, combo):
                case_src[k] = ('scalar', v)
        if acc:
            # several accumulator calls with different lengths and initial values
            dest = [struct.pack('<I', rnd.choice([0, 1, 0xffffffff, 0x7fffffff, 0xffff, rnd.getrandbits(32)])) + bytes(rnd.getrandbits(8) for _ in range(GUARD))]
        else:
            dest = [bytes(rnd.getrandbits(8) for _ in range(d * n + GUARD)) for d in dsts]
        cases.append(dict(n=n, offset=offset, src=case_src, dest=dest, scalars=combo))
    if acc:
        # split the long vector list into calls of various n
        base = cases[0]
        cases = []
        pos = 0
        total = base['n']
        for n in [1, 2, 3, 5, 2, 2, 2, 2, 16, 31, 2, 2] + [16] * 100:
            if pos >= total:
                break
            n = min(n, total - pos)
            src = []
            for k, s in enumerate(base['src']):
                sz = srcs[k]
                src.append(('arr', s[1][pos * sz:(pos + n) * sz], 0))
            dest = [struct.pack('<I', rnd.choice([0, 1, 0xffffffff, 0x7fffffff, 0xffff, rnd.getrandbits(32)])) + bytes(rnd.getrandbits(8) for _ in range(GUARD))]
            cases.append(dict(n=n, offset=0, src=src, dest=dest, scalars=()))
            pos += n
    if op['flags'] & K.F_ITERATOR and not acc and len(arr_idx) == 1 and len(srcs) == 1:
        # loadupdb/loadupib read ptr[(offset+i)>>1 (+1)]: position dependent -> extra short calls (sym mode uses these)
        base = cases[0]
        sz = srcs[0]
        data = base['src'][0][1]
        for j in range(0, min(base['n'], 160) - 3, 4):
            chunk = data[j * sz:(j + 4) * sz]
            cases.append(dict(n=4, offset=0, src=[('arr', chunk, 0)],
                              dest=[bytes(rnd.getrandbits(8) for _ in range(d * 4 + GUARD)) for d in dsts], scalars=()))
        for j, off in enumerate([1, 2, 5, 16, 17]):
            chunk = bytes(rnd.getrandbits(8) for _ in range(16 * sz))
            cases.append(dict(n=4, offset=off, src=[('arr', chunk, 0)], nosym=True,
                              dest=[bytes(rnd.getrandbits(8) for _ in range(d * 4 + GUARD)) for d in dsts], scalars=()))
    return cases


def window_case_in_range(name, combo, offset, n):
    """keep the source index of ldres*/loadoff* inside the LEAD slack (native code must not fault)"""
    sx = lambda v: v - (1 << 64) if v >> 63 else v
    if name.startswith('loadoff'):
        p = sx(combo[0])
        return all(-LEAD <= offset + i + p < LEAD + n for i in range(n))
    p1, p2 = sx(combo[0]), sx(combo[1])
    for i in range(n):
        for d in (0, 1):
            # both 32-bit (ldreslin: int tmp) and 64-bit (ldresnear) evaluations must be in range
            t64 = (p1 + (offset + i) * p2) >> 16
            t32 = ((p1 + (offset + i) * p2) & 0xffffffff)
            t32 = (t32 - (1 << 32) if t32 >> 31 else t32) >> 16
            if not (-LEAD + 1 <= t64 + d < LEAD + n - 1 and -LEAD + 1 <= t32 + d < LEAD + n - 1):
                return False
    return True


# ------------------------------------------------------------------------------------------------ sym mode
def run_sym(m, L, op, cases, nan_mode, ksym=2, max_inst=96):
    """Closed form on ksym symbolic elements, instantiated on the operand vectors of `cases`.
    Returns list of (case_index, element_index, dest_k, got_int|None) plus counters."""
    name = op['name']
    srcs = [s for s in op['src'] if s]
    dsts = [d for d in op['dest'] if d]
    acc = bool(op['flags'] & K.F_ACCUMULATOR)
    window = K.uses_window(op)
    off = z3.BitVec('offs', 32)
    cf = K.kernel_closed_form(m, op, ksym, offset_term=off if window else None, nan_mode=nan_mode, simplify=False)
    staged = [K.is_scalar_src(op, k) for k in range(len(srcs))]
    results = []
    ub_skipped = 0
    ninst = 0
    ubnotes = [n for n in cf['ub_notes'] if n.kind in ('shift', 'div')]
    for ci, case in enumerate(cases):
        n = case['n']
        step = ksym
        # spread the instantiations over the case
        starts = list(range(0, n - ksym + 1, step)) if not acc else ([0] if n == ksym else [])
        if window or (op['flags'] & K.F_ITERATOR):
            starts = [0]
        budget = max(1, max_inst // max(1, len(cases)))
        if len(starts) > budget:
            stride = len(starts) / float(budget)
            starts = [starts[int(i * stride)] for i in range(budget)]
        for st in starts:
            sub = []
            for k, s in enumerate(case['src']):
                if staged[k]:
                    sub.append((cf['srcs'][k], bvval(s[1] & mask(64), 64)))
                elif window and k == 0:
                    arr = z3.K(z3.BitVecSort(64), bvval(0, 8))
                    data, lead = s[1], s[2]
                    for j, b in enumerate(data):
                        arr = z3.Store(arr, bvval((j - lead) & mask(64), 64), bvval(b, 8))
                    sub.append((cf['srcs'][0], arr))
                else:
                    sz = srcs[k]
                    for i in range(ksym):
                        e = int.from_bytes(s[1][(st + i) * sz:(st + i + 1) * sz], 'little')
                        sub.append((cf['srcs'][k][i], bvval(e, 8 * sz)))
            if window:
                sub.append((off, bvval(case['offset'] & mask(32), 32)))
            if acc:
                sub.append((cf['acc_in'], bvval(struct.unpack('<I', case['dest'][0][:4])[0], 32)))
            if any(z3.is_true(z3.simplify(z3.substitute(nt.cond, *sub))) for nt in ubnotes if not isinstance(nt.cond, bool)) or \
               any(nt.cond is True for nt in ubnotes):
                ub_skipped += 1
                continue
            ninst += 1
            for dk, els in enumerate(cf['dest']):
                for i, e in enumerate(els):
                    v = z3.simplify(z3.substitute(e, *sub))
                    results.append((ci, st + i, dk, v.as_long() if z3.is_bv_value(v) else None))
    return results, ninst, ub_skipped, cf


# ------------------------------------------------------------------------------------------------ comparison
def _isnan_bits(v, size):
    if size == 4:
        return (v & 0x7f800000) == 0x7f800000 and (v & 0x7fffff) != 0
    if size == 8:
        return (v & 0x7ff0000000000000) == 0x7ff0000000000000 and (v & 0xfffffffffffff) != 0
    return False


def validate_one(m, lib, L, op, seed=0, modes=('int', 'sym'), nan_modes=('canonical', 'x86')):
    """-> result dict for one opcode"""
    name = op['name']
    fn = op.get('emulate') or 'emulate_' + name
    t0 = time.time()
    cases = make_cases(op, seed)
    dsts = [d for d in op['dest'] if d]
    acc = bool(op['flags'] & K.F_ACCUMULATOR)
    fdest = bool(op['flags'] & K.F_FLOAT_DEST)
    res = dict(name=name, calls=len(cases), vectors=0, mismatches=[], nan_payload_diffs={}, ub_skipped=0, sym_vectors=0,
               notes=[], ub_kinds=set())
    native = [lib.run(fn, c) for c in cases]

    def compare(tag, ci, el, dk, got, want_bytes):
        size = 4 if acc else dsts[dk]
        want = int.from_bytes(want_bytes[el * size:(el + 1) * size], 'little')
        if got == want:
            return True
        if fdest and size in (4, 8) and got is not None and _isnan_bits(got, size) and _isnan_bits(want, size):
            res['nan_payload_diffs'][tag] = res['nan_payload_diffs'].get(tag, 0) + 1
            return True
        if len(res['mismatches']) < 5:
            c = cases[ci]
            ins = []
            for k, s in enumerate(c['src']):
                if s[0] == 'arr':
                    sz = [x for x in op['src'] if x][k]
                    ins.append(s[1][s[2] + el * sz:s[2] + (el + 1) * sz][::-1].hex() if not acc else s[1][:sz * c['n']].hex())
                else:
                    ins.append('scalar=%x' % s[1])
            res['mismatches'].append(dict(mode=tag, case=ci, element=el, dest=dk, got=None if got is None else '%x' % got,
                                          want='%x' % want, inputs=ins, offset=c['offset'], n=c['n']))
        else:
            res['mismatches'].append(None)
        return False

    for nm in nan_modes:
        if 'int' in modes:
            for ci, c in enumerate(cases):
                out, ub, p0 = run_int(m, L, fn, c, nm)
                if ub:
                    if nm == nan_modes[0]:
                        res['ub_skipped'] += 1
                        res['ub_kinds'].update(n.kind + ':' + n.detail for n in ub)
                    continue
                for dk, (o, w) in enumerate(zip(out, native[ci])):
                    size = 4 if acc else dsts[dk]
                    nel = 1 if acc else c['n']
                    for el in range(nel):
                        compare('int/' + nm, ci, el, dk, int.from_bytes(o[el * size:(el + 1) * size], 'little'), w)
                    # guard bytes / untouched tail
                    if o[nel * size:] != w[nel * size:]:
                        res['mismatches'].append(dict(mode='int/' + nm, case=ci, what='bytes beyond n elements differ'))
                if nm == nan_modes[0]:
                    res['vectors'] += c['n']
        if 'sym' in modes:
            ks = 2
            symcases = cases
            if acc:
                symcases = [c for c in cases if c['n'] == ks]
            elif op['flags'] & K.F_ITERATOR:
                ks = 4
                symcases = [c for c in cases if c['n'] == ks and not c.get('nosym')]
            r, ninst, ubs, cf = run_sym(m, L, op, symcases, nm, ksym=ks)
            idx = {id(c): i for i, c in enumerate(cases)}
            for ci, el, dk, got in r:
                real_ci = idx[id(symcases[ci])]
                compare('sym/' + nm, real_ci, el, dk, got, native[real_ci][dk])
            if nm == nan_modes[0]:
                res['sym_vectors'] += ninst * ks
    res['mismatch_count'] = len(res['mismatches'])
    res['mismatches'] = [x for x in res['mismatches'] if x]
    res['ub_kinds'] = sorted(res['ub_kinds'])
    res['wall_s'] = round(time.time() - t0, 2)
    return res


_W = {}


def _worker_init(ll_path, so_path):
    m = Module.load(ll_path)
    _W['m'] = m
    _W['L'] = K.opx_layout(m)
    _W['lib'] = Native(so_path, _W['L'])


def _worker(arg):
    op, seed, modes = arg
    try:
        return validate_one(_W['m'], _W['lib'], _W['L'], op, seed, modes)
    except Exception as e:       # an interpreter crash is a validation failure, not a skip
        import traceback
        return dict(name=op['name'], error='%s: %s' % (type(e).__name__, e), trace=traceback.format_exc()[-1500:],
                    mismatch_count=1, mismatches=[], vectors=0, sym_vectors=0, nan_payload_diffs={}, ub_skipped=0, calls=0,
                    ub_kinds=[], wall_s=0)


def validate_kernels(m, so_path, opcodes=None, seed=0, workers=None, modes=('int', 'sym'), ll_path=None):
    """Validate every kernel of `opcodes` (default: table from the IR if present, else all emulate_* functions with
    the table given).  Returns dict(name -> result).  `m` must have been loaded from one file (m.units[0]) so that
    workers can re-load it; pass ll_path otherwise."""
    import multiprocessing as mp
    if opcodes is None:
        opcodes = K.default_opcode_table()
    ll_path = ll_path or m.units[0]
    workers = workers or min(16, os.cpu_count() or 4)
    args = [(op, seed, modes) for op in opcodes]
    if workers <= 1:
        _worker_init(ll_path, so_path)
        out = [_worker(a) for a in args]
    else:
        ctx = mp.get_context('fork')
        with ctx.Pool(workers, initializer=_worker_init, initargs=(ll_path, so_path)) as pool:
            out = pool.map(_worker, args, chunksize=1)
    return {r['name']: r for r in out}


def summarize(results):
    tot = dict(kernels=len(results), vectors=sum(r['vectors'] for r in results.values()),
               sym_vectors=sum(r['sym_vectors'] for r in results.values()),
               mismatching_kernels=sorted(n for n, r in results.items() if r['mismatch_count']),
               mismatches=sum(r['mismatch_count'] for r in results.values()),
               ub_skipped_calls=sum(r['ub_skipped'] for r in results.values()),
               min_vectors=min(r['vectors'] for r in results.values()) if results else 0,
               nan_payload_diffs={})
    for r in results.values():
        for k, v in r['nan_payload_diffs'].items():
            tot['nan_payload_diffs'][k] = tot['nan_payload_diffs'].get(k, 0) + v
    return tot
