"""Stage 2: OrcProgram -> orc_bytecode_from_program -> orc_bytecode_parse_function -> OrcProgram, on the real C code
(IR of orcbytecode.c, orcprogram.c, orcopcode.c, orcopcodes-sys.c, orcutils.c linked as one Module).

recipe (dict):
  name:   str | None                              program name (orc_program_set_name); None keeps "func_%p"
  props:  {constant_n|n_multiple|n_minimum|n_maximum|constant_m: V, is_2d: bool}
  vars:   [ {kind: dest|src|temp|accum|const|const64|param|paramf|param64|paramd, size: V, name: str,
             alignment: V (dest/src only, passed to orc_program_add_*_full; also for others through
             orc_program_set_var_alignment when given), value: V (const/const64)} ... ]
  insns:  [ {op: str, flags: V, args: [var names or indices, up to 4]} ... ]
  assume: [z3 Bool, ...] | callable(syms: dict) -> [z3 Bool]        extra constraints over the symbols
V is an int, a z3 BitVec term (32 bits; 64 for const64 values) or one of
  'sym'                   fresh symbol named after the field (e.g. 'v0_size', 'i1_flags', 'constant_n')
  ('sym', lo, hi)         fresh symbol with the signed range assumption lo <= x <= hi
Returns list[Path]; every path has `.rt`: dict(stage, p1, p2, bytecode, symbols) where p1/p2 are the field
dictionaries of the original and the re-parsed program (terms), see `program_fields`.
"""
import json
import os
import subprocess
import time
import z3
from .irparse import Module
from .executor import Executor, Path, Unsupported
from .values import bvval, simp, mask
from . import kernels as K

TUS = ['orcbytecode.c', 'orcprogram.c', 'orcopcode.c', 'orcopcodes-sys.c', 'orcutils.c']

OFFSETS_C = r'''
#include <stdio.h>
#include <stddef.h>
#include <orc/orc.h>
#include <orc/orcinternal.h>
#include <orc/orcbytecode.h>
#define O(T,f) printf("\"%s\":%zu,", #f, offsetof(T,f))
int main(void){
  printf("{\"program\":{");
  O(OrcProgram,n_insns);O(OrcProgram,n_src_vars);O(OrcProgram,n_dest_vars);O(OrcProgram,n_param_vars);O(OrcProgram,n_const_vars);
  O(OrcProgram,n_temp_vars);O(OrcProgram,n_accum_vars);O(OrcProgram,name);O(OrcProgram,insns);O(OrcProgram,vars);
  O(OrcProgram,is_2d);O(OrcProgram,constant_n);O(OrcProgram,n_multiple);O(OrcProgram,n_minimum);O(OrcProgram,n_maximum);
  O(OrcProgram,constant_m);O(OrcProgram,error_msg);
  printf("\"sizeof\":%zu},\"var\":{", sizeof(OrcProgram));
  O(OrcVariable,name);O(OrcVariable,type_name);O(OrcVariable,size);O(OrcVariable,vartype);O(OrcVariable,alignment);
  O(OrcVariable,value);O(OrcVariable,param_type);
  printf("\"sizeof\":%zu},\"insn\":{", sizeof(OrcVariable));
  O(OrcInstruction,opcode);O(OrcInstruction,dest_args);O(OrcInstruction,src_args);O(OrcInstruction,flags);
  printf("\"sizeof\":%zu},\"bytecode\":{", sizeof(OrcInstruction));
  O(OrcBytecode,bytecode);O(OrcBytecode,length);O(OrcBytecode,alloc_len);
  printf("\"sizeof\":%zu},\"opcode\":{", sizeof(OrcBytecode));
  O(OrcStaticOpcode,name);O(OrcStaticOpcode,flags);O(OrcStaticOpcode,dest_size);O(OrcStaticOpcode,src_size);
  printf("\"sizeof\":%zu},", sizeof(OrcStaticOpcode));
  printf("\"const\":{\"ORC_VAR_D1\":%d,\"ORC_VAR_S1\":%d,\"ORC_VAR_A1\":%d,\"ORC_VAR_C1\":%d,\"ORC_VAR_P1\":%d,\"ORC_VAR_T1\":%d,"
         "\"ORC_N_VARIABLES\":%d,\"ORC_N_INSNS\":%d,\"ORC_BC_absb\":%d}}\n",
         ORC_VAR_D1, ORC_VAR_S1, ORC_VAR_A1, ORC_VAR_C1, ORC_VAR_P1, ORC_VAR_T1, ORC_N_VARIABLES, ORC_N_INSNS, ORC_BC_absb);
  return 0;
}
'''


class Setup:
    """Built once per Build: linked module + struct offsets."""

    def __init__(self, b, wrapv=True):
        from lib import build
        self.b = b
        self.lls = [b.ir('rt_' + t[:-2].replace('-', '_'), os.path.join(build.REPO, 'orc', t), wrapv=wrapv) for t in TUS]
        self.m = Module.load(self.lls)
        src = os.path.join(b.dir, 'rt_offsets.c')
        exe = os.path.join(b.dir, 'rt_offsets')
        open(src, 'w').write(OFFSETS_C)
        r = subprocess.run(['gcc', '-O0'] + list(b.cflags) + [src, '-o', exe], stdout=subprocess.PIPE, stderr=subprocess.PIPE, text=True)
        if r.returncode:
            raise RuntimeError('offsets program failed: ' + r.stderr[:2000])
        self.off = json.loads(subprocess.run([exe], stdout=subprocess.PIPE, check=True, text=True).stdout)
        # cross-check against the IR type table
        assert self.m.sizeof(('n', 'struct._OrcProgram')) == self.off['program']['sizeof']
        assert self.m.sizeof(('n', 'struct._OrcVariable')) == self.off['var']['sizeof']
        assert self.m.sizeof(('n', 'struct._OrcInstruction')) == self.off['insn']['sizeof']
        assert self.m.sizeof(('n', 'struct._OrcStaticOpcode')) == self.off['opcode']['sizeof']
        self.optable = K.opcode_table_from_ir(self.m)

    def executor(self, max_steps=3000000, **kw):
        ex = Executor(self.m, max_steps=max_steps, **kw)
        ps = ex.call('orc_opcode_sys_init', [])
        assert len(ps) == 1 and ps[0].status == 'ok'
        return ex


_setup_cache = {}


def get_setup(b=None):
    if b is None:
        from lib import build
        b = _setup_cache.get('b') or build.Build('irsym-rt')
        _setup_cache['b'] = b
    s = _setup_cache.get(id(b))
    if s is None:
        s = _setup_cache[id(b)] = Setup(b)
    return s


def _cstr(ex, s, name):
    data = s.encode() + b'\0'
    return simp(ex.alloc(name, len(data), init=data))


class _Syms:
    def __init__(self):
        self.syms = {}
        self.assume = []

    def val(self, v, name, bits=32):
        if isinstance(v, tuple) and v and v[0] == 'sym':
            x = z3.BitVec(name, bits)
            self.syms[name] = x
            if len(v) >= 3:
                self.assume.append(z3.And(x >= v[1], x <= v[2]))
            return x
        if isinstance(v, str) and v == 'sym':
            x = z3.BitVec(name, bits)
            self.syms[name] = x
            return x
        if isinstance(v, int):
            return v & mask(bits)
        if z3.is_bv(v):
            for d in z3.z3util.get_vars(v):
                self.syms[str(d)] = d
            return v
        raise ValueError('bad recipe value %r for %s' % (v, name))


def program_fields(path, p, off, optable_base, nops, max_name=64):
    """Read an OrcProgram at concrete address p from the final memory of `path` -> dict of terms/ints."""
    P, Vr, I = off['program'], off['var'], off['insn']
    rd = lambda a, n: simp(path.read(a, 0, n))
    out = {}
    for f in ('n_insns', 'n_src_vars', 'n_dest_vars', 'n_param_vars', 'n_const_vars', 'n_temp_vars', 'n_accum_vars',
              'is_2d', 'constant_n', 'n_multiple', 'n_minimum', 'n_maximum', 'constant_m'):
        out[f] = rd(p + P[f], 4)

    def string(addr):
        if type(addr) is not int:
            return addr
        if addr == 0:
            return None
        bs = []
        for i in range(max_name):
            c = rd(addr + i, 1)
            if type(c) is int and c == 0:
                break
            bs.append(c)
        if all(type(c) is int for c in bs):
            return bytes(bs).decode('latin-1')
        return bs
    out['name'] = string(rd(p + P['name'], 8))
    out['error_msg'] = string(rd(p + P['error_msg'], 8))
    vs = {}
    for i in range(off['const']['ORC_N_VARIABLES']):
        a = p + P['vars'] + i * Vr['sizeof']
        size = rd(a + Vr['size'], 4)
        if type(size) is int and size == 0:
            continue
        vs[i] = dict(size=size, vartype=rd(a + Vr['vartype'], 4), alignment=rd(a + Vr['alignment'], 4),
                     param_type=rd(a + Vr['param_type'], 4), value=rd(a + Vr['value'], 8), name=string(rd(a + Vr['name'], 8)))
    out['vars'] = vs
    ins = []
    n = out['n_insns']
    if type(n) is int:
        for j in range(min(n, off['const']['ORC_N_INSNS'])):
            a = p + P['insns'] + j * I['sizeof']
            opc = rd(a + I['opcode'], 8)
            if type(opc) is int:
                k = (opc - optable_base) // off['opcode']['sizeof']
                opi = k if 0 <= k < nops and (opc - optable_base) % off['opcode']['sizeof'] == 0 else ('ptr', opc)
            else:
                opi = opc
            ins.append(dict(opcode=opi, flags=rd(a + I['flags'], 4),
                            dest_args=[rd(a + I['dest_args'] + 4 * k, 4) for k in range(2)],
                            src_args=[rd(a + I['src_args'] + 4 * k, 4) for k in range(4)]))
    out['insns'] = ins
    return out


VAR_FUNCS = {
    'dest': 'orc_program_add_destination', 'src': 'orc_program_add_source', 'temp': 'orc_program_add_temporary',
    'accum': 'orc_program_add_accumulator', 'const': 'orc_program_add_constant', 'const64': 'orc_program_add_constant_int64',
    'param': 'orc_program_add_parameter', 'paramf': 'orc_program_add_parameter_float',
    'param64': 'orc_program_add_parameter_int64', 'paramd': 'orc_program_add_parameter_double',
}


def run_roundtrip(recipe, setup=None, max_steps=3000000, max_paths=4096, solver_timeout_ms=20000, stop_after=None):
    """See module docstring.  Returns list[Path] (all terminal paths: status ok / aborted / fault / stepbound)."""
    S = setup or get_setup()
    ex = S.executor(max_steps=max_steps, max_paths=max_paths, solver_timeout_ms=solver_timeout_ms, log_accesses=False)
    off = S.off
    sy = _Syms()
    t0 = time.time()
    # ---- the call sequence
    steps = []          # (label, function, args builder(pathctx) )
    strs = {}

    def cs(s):
        if s not in strs:
            strs[s] = _cstr(ex, s, 'str_%d' % len(strs))
        return strs[s]
    if recipe.get('name') is not None:
        steps.append(('set_name', 'orc_program_set_name', lambda c, s=cs(recipe['name']): [c['p1'], s]))
    props = recipe.get('props', {})
    if props.get('is_2d'):
        steps.append(('set_2d', 'orc_program_set_2d', lambda c: [c['p1']]))
    for k in ('constant_n', 'n_multiple', 'n_minimum', 'n_maximum', 'constant_m'):
        if k in props:
            v = sy.val(props[k], k)
            steps.append(('set_' + k, 'orc_program_set_' + k, lambda c, v=v: [c['p1'], v]))
    names = {}
    for i, v in enumerate(recipe.get('vars', [])):
        kind = v['kind']
        nm = v.get('name') or 'v%d' % i
        size = sy.val(v.get('size', 4), 'v%d_size' % i)
        fn = VAR_FUNCS[kind]
        nmp = cs(nm)
        if kind in ('dest', 'src') and v.get('alignment') is not None:
            al = sy.val(v['alignment'], 'v%d_alignment' % i)
            steps.append(('var%d' % i, fn + '_full', lambda c, size=size, nmp=nmp, al=al: [c['p1'], size, nmp, 0, al]))
        elif kind == 'const':
            val = sy.val(v.get('value', 0), 'v%d_value' % i, 32)
            steps.append(('var%d' % i, fn, lambda c, size=size, nmp=nmp, val=val: [c['p1'], size, val, nmp]))
        elif kind == 'const64':
            val = sy.val(v.get('value', 0), 'v%d_value' % i, 64)
            steps.append(('var%d' % i, fn, lambda c, size=size, nmp=nmp, val=val: [c['p1'], size, val, nmp]))
        else:
            steps.append(('var%d' % i, fn, lambda c, size=size, nmp=nmp: [c['p1'], size, nmp]))
        names[nm] = i
        if kind not in ('dest', 'src') and v.get('alignment') is not None:
            al = sy.val(v['alignment'], 'v%d_alignment' % i)
            steps.append(('align%d' % i, 'orc_program_set_var_alignment', lambda c, i=i, al=al: [c['p1'], c['varidx'][i], al]))
    for j, ins in enumerate(recipe.get('insns', [])):
        fl = sy.val(ins.get('flags', 0), 'i%d_flags' % j)
        opn = cs(ins['op'])
        argl = list(ins.get('args', []))

        def build(c, fl=fl, opn=opn, argl=argl, j=j):
            av = []
            for a in argl:
                if isinstance(a, str):
                    if a not in names:
                        raise ValueError('unknown variable %s' % a)
                    av.append(c['varidx'][names[a]])
                elif isinstance(a, tuple) or a == 'sym':
                    av.append(sy.val(a, 'i%d_arg%d' % (j, len(av))))
                else:
                    av.append(a)
            while len(av) < 4:
                av.append(0)
            return [c['p1'], opn, fl] + av
        steps.append(('insn%d' % j, 'orc_program_append_2', build))
    extra = recipe.get('assume')
    # symbols of insn args are created lazily inside build(); pre-create them so that `assume` can see them
    for j, ins in enumerate(recipe.get('insns', [])):
        for k, a in enumerate(ins.get('args', [])):
            if isinstance(a, tuple) or a == 'sym':
                sy.val(a, 'i%d_arg%d' % (j, k))
    sy.assume = list(dict.fromkeys(sy.assume))
    if callable(extra):
        extra = extra(sy.syms)
    for a in sy.assume + list(extra or []):
        ex.assume(a)

    # ---- run: every step continues from every live path of the previous step
    root = Path(ex.state, 'ok', None)
    r0 = ex.call('orc_program_new', [], from_path=root, on_fault='path')
    live = []
    done = []
    for p in r0:
        p.ctx = dict(p1=simp(p.ret) if p.status == 'ok' else None, varidx={}, stage='new')
        (live if p.status == 'ok' else done).append(p)

    def advance(live, label, fn, argb, post=None):
        nxt = []
        for p in live:
            args = argb(p.ctx)
            rs = ex.call(fn, args, from_path=p, on_fault='path')
            for q in rs:
                q.ctx = dict(p.ctx)
                q.ctx['varidx'] = dict(p.ctx['varidx'])
                q.ctx['stage'] = label
                if q.status == 'ok':
                    if post:
                        post(q)
                    nxt.append(q)
                else:
                    done.append(q)
        return nxt
    for label, fn, argb in steps:
        post = None
        if label.startswith('var'):
            i = int(label[3:])

            def post(q, i=i):
                q.ctx['varidx'][i] = simp(q.ret)
        live = advance(live, label, fn, argb, post)
        if stop_after == label:
            break
    if stop_after is None:
        live = advance(live, 'from_program', 'orc_bytecode_from_program', lambda c: [c['p1']],
                       lambda q: q.ctx.__setitem__('bc', simp(q.ret)))
        live = advance(live, 'new2', 'orc_program_new', lambda c: [], lambda q: q.ctx.__setitem__('p2', simp(q.ret)))

        def bcptr(c):
            return [c['p2'], c['bcdata']]
        for p in live:
            p.ctx['bcdata'] = simp(p.read(p.ctx['bc'], off['bytecode']['bytecode'], 8))
            p.ctx['bclen'] = simp(p.read(p.ctx['bc'], off['bytecode']['length'], 4))
        live = advance(live, 'parse', 'orc_bytecode_parse_function', bcptr, lambda q: q.ctx.__setitem__('parse_ret', q.ret))
        # re-encode the reconstruction: the bytes must come out the same again
        live = advance(live, 'reencode', 'orc_bytecode_from_program', lambda c: [c['p2']],
                       lambda q: q.ctx.__setitem__('bc2', simp(q.ret)))
        for p in live:
            if p.ctx.get('bc2') is not None and p.status == 'ok':
                p.ctx['bcdata2'] = simp(p.read(p.ctx['bc2'], off['bytecode']['bytecode'], 8))
                p.ctx['bclen2'] = simp(p.read(p.ctx['bc2'], off['bytecode']['length'], 4))
    base = ex.gaddr[[k for k in S.m.globals if k.split('$')[0] == 'opcodes'][0]]
    nops = len(S.optable)
    out = []
    for p in live + done:
        c = p.ctx
        rt = dict(stage=c['stage'], symbols=dict(sy.syms), assumptions=list(sy.assume) + list(extra or []), p1=None, p2=None, bytecode=None)
        try:
            if c.get('p1') and p.status in ('ok', 'aborted'):
                rt['p1'] = program_fields(p, c['p1'], off, base, nops)
            if c.get('p2') and p.status in ('ok', 'aborted'):
                rt['p2'] = program_fields(p, c['p2'], off, base, nops)
            if c.get('bcdata') and type(c.get('bclen')) is int:
                rt['bytecode'] = [simp(p.read(c['bcdata'], i, 1)) for i in range(c['bclen'])]
            if c.get('bcdata2') and type(c.get('bclen2')) is int:
                rt['bytecode2'] = [simp(p.read(c['bcdata2'], i, 1)) for i in range(c['bclen2'])]
            elif c.get('bclen2') is not None:
                rt['bytecode2_len'] = c.get('bclen2')
            rt['parse_ret'] = c.get('parse_ret')
        except Exception as e:       # reading back must not hide the path
            rt['readback_error'] = repr(e)
        p.rt = rt
        out.append(p)
    run_roundtrip.last_stats = dict(ex.stats, wall_s=time.time() - t0, paths=len(out))
    return out


def compare_programs(rt, ignore=('name', 'error_msg')):
    """List of (field, term1, term2, equal-condition) for every compared field of p1/p2 (names excluded: the parser
    gives fixed names).  equal-condition is a Python bool or a z3 Bool."""
    a, b = rt['p1'], rt['p2']
    res = []

    def eq(x, y):
        if isinstance(x, int) and isinstance(y, int):
            return x == y
        if isinstance(x, (int,)):
            x = bvval(x, y.size())
        if isinstance(y, (int,)):
            y = bvval(y, x.size())
        return z3.simplify(x == y)
    for f in ('n_insns', 'n_src_vars', 'n_dest_vars', 'n_param_vars', 'n_const_vars', 'n_temp_vars', 'n_accum_vars',
              'is_2d', 'constant_n', 'n_multiple', 'n_minimum', 'n_maximum', 'constant_m'):
        res.append((f, a[f], b[f], eq(a[f], b[f])))
    for i in sorted(set(a['vars']) | set(b['vars'])):
        va, vb = a['vars'].get(i), b['vars'].get(i)
        if va is None or vb is None:
            res.append(('vars[%d]' % i, va and va['size'], vb and vb['size'], False))
            continue
        for f in ('size', 'vartype', 'alignment', 'param_type', 'value'):
            res.append(('vars[%d].%s' % (i, f), va[f], vb[f], eq(va[f], vb[f])))
    for j in range(max(len(a['insns']), len(b['insns']))):
        if j >= len(a['insns']) or j >= len(b['insns']):
            res.append(('insns[%d]' % j, None, None, False))
            continue
        ia, ib = a['insns'][j], b['insns'][j]
        res.append(('insns[%d].opcode' % j, ia['opcode'], ib['opcode'], ia['opcode'] == ib['opcode'] if not z3.is_expr(ia['opcode']) and not z3.is_expr(ib['opcode']) else eq(ia['opcode'], ib['opcode'])))
        res.append(('insns[%d].flags' % j, ia['flags'], ib['flags'], eq(ia['flags'], ib['flags'])))
        for k in range(2):
            res.append(('insns[%d].dest_args[%d]' % (j, k), ia['dest_args'][k], ib['dest_args'][k], eq(ia['dest_args'][k], ib['dest_args'][k])))
        for k in range(4):
            res.append(('insns[%d].src_args[%d]' % (j, k), ia['src_args'][k], ib['src_args'][k], eq(ia['src_args'][k], ib['src_args'][k])))
    return res


def differences(path, timeout_ms=20000):
    """Fields of p1/p2 that can differ on this path (solver-checked): list of (field, model dict | None)."""
    out = []
    if not path.rt.get('p1') or not path.rt.get('p2'):
        return out
    for f, x, y, e in compare_programs(path.rt):
        if e is True or (z3.is_expr(e) and z3.is_true(e)):
            continue
        if e is False or (z3.is_expr(e) and z3.is_false(e)):
            s = z3.Solver()
            s.set('timeout', timeout_ms)
            s.add(*path.cond)
            r = s.check()
            md = s.model() if r == z3.sat else None
            out.append((f, x, y, {str(d): md[d].as_long() for d in md.decls()} if md else None))
            continue
        s = z3.Solver()
        s.set('timeout', timeout_ms)
        s.add(*path.cond)
        s.add(z3.Not(e))
        r = s.check()
        if r != z3.unsat:
            md = s.model() if r == z3.sat else None
            out.append((f, x, y, {str(d): md[d].as_long() for d in md.decls()} if md else str(r)))
    return out


# ---------------------------------------------------------------------------------------------- native cross-check
NATIVE_C = r"""
#include <stdio.h>
#include <string.h>
#include <stdlib.h>
#include <orc/orc.h>
#include <orc/orcinternal.h>
#include <orc/orcbytecode.h>
static void dump (OrcProgram *p, OrcStaticOpcode *base) {
  int i, k;
  printf ("{\"n_insns\":%d,\"n_src_vars\":%d,\"n_dest_vars\":%d,\"n_param_vars\":%d,\"n_const_vars\":%d,\"n_temp_vars\":%d,\"n_accum_vars\":%d,"
          "\"is_2d\":%d,\"constant_n\":%d,\"n_multiple\":%d,\"n_minimum\":%d,\"n_maximum\":%d,\"constant_m\":%d,\"name\":\"%s\",\"vars\":{",
          p->n_insns, p->n_src_vars, p->n_dest_vars, p->n_param_vars, p->n_const_vars, p->n_temp_vars, p->n_accum_vars,
          p->is_2d, p->constant_n, p->n_multiple, p->n_minimum, p->n_maximum, p->constant_m, p->name ? p->name : "");
  k = 0;
  for (i = 0; i < ORC_N_VARIABLES; i++) {
    OrcVariable *v = p->vars + i;
    if (!v->size) continue;
    printf ("%s\"%d\":{\"size\":%d,\"vartype\":%d,\"alignment\":%d,\"param_type\":%d,\"value\":%llu,\"name\":\"%s\"}", k++ ? "," : "", i,
            v->size, v->vartype, v->alignment, v->param_type, (unsigned long long) v->value.i, v->name ? v->name : "");
  }
  printf ("},\"insns\":[");
  for (i = 0; i < p->n_insns; i++) {
    OrcInstruction *in = p->insns + i;
    printf ("%s{\"opcode\":%d,\"flags\":%u,\"dest_args\":[%d,%d],\"src_args\":[%d,%d,%d,%d]}", i ? "," : "", (int) (in->opcode - base), in->flags,
            in->dest_args[0], in->dest_args[1], in->src_args[0], in->src_args[1], in->src_args[2], in->src_args[3]);
  }
  printf ("]}");
}
int main (void) {
  OrcProgram *p, *p2; OrcBytecode *bc; int v[64]; int i;
  OrcStaticOpcode *base;
  orc_init ();
  base = orc_opcode_set_get ("sys")->opcodes;
  p = orc_program_new ();
  (void) v;
@@BODY@@
  bc = orc_bytecode_from_program (p);
  printf ("{\"bytecode\":\"");
  for (i = 0; i < bc->length; i++) printf ("%02x", bc->bytecode[i]);
  printf ("\",\"p1\":");
  dump (p, base);
  p2 = orc_program_new ();
  orc_bytecode_parse_function (p2, bc->bytecode);
  printf (",\"p2\":");
  dump (p2, base);
  printf ("}\n");
  return 0;
}
"""


def gen_c(recipe):
    """C program performing the same API calls as run_roundtrip for a fully concrete recipe."""
    L = []
    if recipe.get('name') is not None:
        L.append('  orc_program_set_name (p, "%s");' % recipe['name'])
    props = recipe.get('props', {})
    if props.get('is_2d'):
        L.append('  orc_program_set_2d (p);')
    for k in ('constant_n', 'n_multiple', 'n_minimum', 'n_maximum', 'constant_m'):
        if k in props:
            L.append('  orc_program_set_%s (p, %d);' % (k, props[k]))
    names = {}
    for i, v in enumerate(recipe.get('vars', [])):
        kind = v['kind']
        nm = v.get('name') or 'v%d' % i
        names[nm] = i
        fn = VAR_FUNCS[kind]
        size = v.get('size', 4)
        if kind in ('dest', 'src') and v.get('alignment') is not None:
            L.append('  v[%d] = %s_full (p, %d, "%s", NULL, %d);' % (i, fn, size, nm, v['alignment']))
        elif kind == 'const':
            L.append('  v[%d] = %s (p, %d, (int) %dU, "%s");' % (i, fn, size, v.get('value', 0) & 0xffffffff, nm))
        elif kind == 'const64':
            L.append('  v[%d] = %s (p, %d, (orc_int64) %dULL, "%s");' % (i, fn, size, v.get('value', 0) & mask(64), nm))
        else:
            L.append('  v[%d] = %s (p, %d, "%s");' % (i, fn, size, nm))
        if kind not in ('dest', 'src') and v.get('alignment') is not None:
            L.append('  orc_program_set_var_alignment (p, v[%d], %d);' % (i, v['alignment']))
    for ins in recipe.get('insns', []):
        av = []
        for a in ins.get('args', []):
            av.append('v[%d]' % names[a] if isinstance(a, str) else str(a))
        while len(av) < 4:
            av.append('0')
        L.append('  orc_program_append_2 (p, "%s", %dU, %s);' % (ins['op'], ins.get('flags', 0), ', '.join(av)))
    return NATIVE_C.replace('@@BODY@@', '\n'.join(L))


def native_roundtrip(b, recipe, tag='rt_native'):
    src = os.path.join(b.dir, tag + '.c')
    open(src, 'w').write(gen_c(recipe))
    exe = b.native_prog(tag, [src])
    r = subprocess.run([exe], stdout=subprocess.PIPE, stderr=subprocess.PIPE, text=True, timeout=60)
    if r.returncode != 0:
        return dict(abnormal=r.returncode, stderr=r.stderr[-300:])
    return json.loads(r.stdout)


def random_recipe(rnd, optable):
    """fully concrete, valid-looking recipe"""
    vars_ = []
    kinds = ['dest'] * rnd.randint(1, 3) + ['src'] * rnd.randint(1, 5) + ['temp'] * rnd.randint(0, 5) + \
        ['const'] * rnd.randint(0, 3) + ['const64'] * rnd.randint(0, 2) + ['accum'] * rnd.randint(0, 2) + \
        [rnd.choice(['param', 'paramf', 'param64', 'paramd']) for _ in range(rnd.randint(0, 4))]
    for i, k in enumerate(kinds):
        size = 8 if k in ('const64', 'param64', 'paramd') else rnd.choice([1, 2, 4, 8])
        v = dict(kind=k, size=size, name='%s%d' % (k[0], i))
        if k in ('dest', 'src') and rnd.random() < 0.5:
            v['alignment'] = rnd.choice([0, 1, 2, 4, 8, 16, 32, 300])
        if k == 'const':
            v['value'] = rnd.choice([0, 1, 0xff, 0x7fffffff, 0x80000000, 0xffffffff, rnd.getrandbits(32)])
        if k == 'const64':
            v['value'] = rnd.choice([0, 1, 0xffffffffffffffff, 1 << 63, rnd.getrandbits(64)])
        vars_.append(v)
    insns = []
    for _ in range(rnd.randint(0, 12)):
        op = rnd.choice(optable)
        nargs = sum(1 for x in op['dest'] if x) + sum(1 for x in op['src'] if x)
        insns.append(dict(op=op['name'], flags=rnd.choice([0, 0, 1, 2, 3]), args=[rnd.choice(vars_)['name'] for _ in range(min(nargs, 4))]))
    props = {}
    for k in ('constant_n', 'n_multiple', 'n_minimum', 'n_maximum', 'constant_m'):
        if rnd.random() < 0.4:
            props[k] = rnd.choice([0, 1, 8, 254, 255, 256, 1000, 65534])
    if rnd.random() < 0.3:
        props['is_2d'] = True
    return dict(name=rnd.choice([None, 'x', 'a_longer_program_name_%d' % rnd.randint(0, 999)]), props=props, vars=vars_, insns=insns)


def _norm(fields):
    """interpreter field dict -> same shape as the native JSON"""
    out = {k: (v - (1 << 32) if isinstance(v, int) and k != 'name' and v >> 31 else v) for k, v in fields.items()
           if k not in ('vars', 'insns', 'error_msg')}
    out['name'] = fields['name'] or ''
    out['vars'] = {str(i): dict(size=_s32(v['size']), vartype=v['vartype'], alignment=_s32(v['alignment']), param_type=v['param_type'],
                                 value=v['value'], name=v['name'] or '') for i, v in fields['vars'].items()}
    out['insns'] = [dict(opcode=i['opcode'], flags=i['flags'], dest_args=[_s32(x) for x in i['dest_args']],
                         src_args=[_s32(x) for x in i['src_args']]) for i in fields['insns']]
    return out


def _strip_default_name(hexstr):
    """remove the SET_NAME record of the default name "func_%p" (it contains a heap address)"""
    raw = bytes.fromhex(hexstr)
    i = raw.find(b'func_0x')
    if i < 2 or raw[i - 2] != 9:
        return hexstr
    return (raw[:i - 2] + raw[i + raw[i - 1]:]).hex()


def _s32(v):
    return v - (1 << 32) if isinstance(v, int) and v >> 31 else v


def validate_roundtrip(b, S, recipes):
    """Interpreter vs natively compiled liborc on concrete recipes: bytecode bytes and all compared fields of both
    programs must agree.  Returns list of (index, ok, detail)."""
    res = []
    for i, rec in enumerate(recipes):
        nat = native_roundtrip(b, rec, 'rt_native_%d' % i)
        ps = run_roundtrip(rec, S)
        if 'abnormal' in nat:
            ok = len(ps) == 1 and ps[0].status in ('aborted', 'fault')
            res.append((i, ok, 'native exit %s, interpreter %s' % (nat['abnormal'], [p.status for p in ps])))
            continue
        if len(ps) != 1 or ps[0].status != 'ok':
            res.append((i, False, 'interpreter paths %r' % ps))
            continue
        rt = ps[0].rt
        bc = bytes(rt['bytecode']).hex()
        p1, p2 = _norm(rt['p1']), _norm(rt['p2'])
        n1, n2 = nat['p1'], nat['p2']
        if nat['p1']['name'].startswith('func_0x'):
            p1['name'] = n1['name'] = ''
            # the default name contains the heap address and travels through the bytecode
            ok_bc = _strip_default_name(nat['bytecode']) == _strip_default_name(bc)
            p2['name'] = n2['name'] = ''
        else:
            ok_bc = nat['bytecode'] == bc
        ok = ok_bc and p1 == n1 and p2 == n2
        det = ''
        if not ok:
            det = 'bytecode %s' % ('same' if ok_bc else 'differs: %s vs %s' % (nat['bytecode'][:80], bc[:80]))
            for tag, x, y in (('p1', p1, n1), ('p2', p2, n2)):
                for k in x:
                    if x[k] != y.get(k):
                        det += '; %s.%s interp=%r native=%r' % (tag, k, str(x[k])[:120], str(y.get(k))[:120])
        res.append((i, ok, det))
    return res


def run_parse(byte_values, setup=None, max_steps=3000000, max_paths=2048):
    """orc_bytecode_parse_function(orc_program_new(), buffer) on a caller supplied buffer (ints and/or 8-bit terms).
    Returns the paths (on_fault='path': out-of-bounds reads of hostile bytecode show up as status 'fault')."""
    S = setup or get_setup()
    ex = S.executor(max_steps=max_steps, max_paths=max_paths, log_accesses=False)
    buf = ex.alloc('bytecode', len(byte_values), init='zero')
    for i, v in enumerate(byte_values):
        ex.write(buf, i, v, 1)
    r0 = ex.call('orc_program_new', [])
    p2 = simp(r0[0].ret)
    ps = ex.call('orc_bytecode_parse_function', [p2, buf], on_fault='path')
    base = ex.gaddr[[k for k in S.m.globals if k.split('$')[0] == 'opcodes'][0]]
    for p in ps:
        try:
            p.rt = dict(p2=program_fields(p, p2, S.off, base, len(S.optable)))
        except Exception as e:
            p.rt = dict(readback_error=repr(e))
    return ps


# ---------------------------------------------------------------------------------------------- selftest rows
DEMO_CONCRETE = dict(
    name='demo', props=dict(constant_n=8, n_multiple=4),
    vars=[dict(kind='dest', size=2, name='d1'), dict(kind='src', size=2, name='s1'), dict(kind='src', size=2, name='s2', alignment=16),
          dict(kind='const', size=2, name='c1', value=0x1234), dict(kind='param', size=2, name='p1'),
          dict(kind='temp', size=2, name='t1'), dict(kind='accum', size=4, name='a1'), dict(kind='const64', size=8, name='c2', value=0x1122334455667788)],
    insns=[dict(op='addw', flags=0, args=['t1', 's1', 's2']), dict(op='mullw', flags=0, args=['t1', 't1', 'c1']),
           dict(op='addw', flags=0, args=['d1', 't1', 'p1'])])

DEMO_SYMBOLIC = dict(
    name='demo', props=dict(constant_n=('sym', 0, 70000), n_minimum=('sym', 0, 300)),
    vars=[dict(kind='dest', size=('sym', 1, 8), name='d1', alignment=('sym', 0, 64)), dict(kind='src', size=('sym', 0, 8), name='s1'),
          dict(kind='const', size=('sym', 1, 8), name='c1', value='sym'), dict(kind='param', size=('sym', 1, 8), name='p1')],
    insns=[dict(op='addw', flags=('sym', 0, 3), args=['d1', 's1', 'c1'])])


def selftest_rows(b, quick=False):
    import random
    rows = []
    t = time.time()
    S = Setup(b)
    rows.append(('stage2: link %d TUs, offsets cross-checked with IR layout' % len(TUS),
                 '%d functions, %d globals' % (len(S.m.functions), len(S.m.globals)), True, time.time() - t))
    t = time.time()
    ps = run_roundtrip(DEMO_CONCRETE, S)
    okp = [p for p in ps if p.status == 'ok']
    d = differences(okp[0]) if okp else [('no path',)]
    rows.append(('stage2: concrete round trip (8 vars, 3 insns)', '%d path(s), %d steps, bytecode %d bytes, differing fields: %s' % (
        len(ps), sum(p.steps for p in ps), len(okp[0].rt['bytecode']) if okp else -1, [x[0] for x in d]), len(okp) == 1 and not d, time.time() - t))
    t = time.time()
    rnd = random.Random(1)
    recs = [DEMO_CONCRETE] + [random_recipe(rnd, S.optable) for _ in range(4 if quick else 16)]
    vr = validate_roundtrip(b, S, recs)
    bad = [x for x in vr if not x[1]]
    rows.append(('stage2: native validation (liborc compiled by gcc) bytecode + both programs', '%d recipes, %d disagreements %s' % (
        len(vr), len(bad), bad[:2]), not bad, time.time() - t))
    t = time.time()
    ps = run_roundtrip(DEMO_SYMBOLIC, S)
    st = run_roundtrip.last_stats
    by = {}
    for p in ps:
        by[p.status] = by.get(p.status, 0) + 1
    fields = set()
    for p in ps:
        if p.status == 'ok':
            for x in differences(p):
                fields.add(x[0])
    rows.append(('stage2: symbolic round trip (4 sizes, alignment, constant value, flags, constant_n, n_minimum)',
                 'paths %s, %d solver checks, %d steps; fields that can differ: %s' % (by, st['solver_checks'], st['steps'], sorted(fields)),
                 by.get('ok', 0) > 0, time.time() - t))
    t = time.time()
    ps = run_parse([1, 0xff, 0x00, 0x10, 0, 0, 0, 0, 0, 0, 0, 0], S)
    rows.append(('stage2: parser on bytecode with opcode index 4064 (beyond the table)', '%s' % [(p.status, str(p.error)[:60]) for p in ps],
                 any(p.status == 'fault' for p in ps), time.time() - t))
    return rows
