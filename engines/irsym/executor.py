"""Symbolic executor for the parsed IR.  See README.md for semantics and simplifications."""
import z3
from . import values as V
from .values import bvval, simp, tobv, tobool, mask
from .memory import Memory, Layout, MemFault, WINDOW_BASE
from .irparse import Module, I1, PTR
from . import cfg


class Unsupported(Exception):
    """IR construct / external function the engine has no semantics for."""


class StepBound(Exception):
    """Step budget of a path exhausted (loops are never cut silently)."""


class Aborted(Exception):
    pass


class _NoMerge(Exception):
    pass


class _PathEnd(Exception):
    def __init__(self, status, ret=None, error=None):
        Exception.__init__(self, status)
        self.status = status
        self.ret = ret
        self.error = error


class Note:
    """ub_notes: cond = condition under which the undefined behaviour happens (True if unconditional on this path).
    poison_obligations: cond = 'no poison' condition that has to be valid under the path condition."""
    __slots__ = ('kind', 'where', 'cond', 'pc_index', 'detail')

    def __init__(self, kind, where, cond, pc_index, detail=''):
        self.kind = kind
        self.where = where
        self.cond = cond
        self.pc_index = pc_index
        self.detail = detail

    def __repr__(self):
        return 'Note(%s @%s:%s#%d %s | %s)' % (self.kind, self.where[0], self.where[1], self.where[2], self.detail,
                                               str(self.cond)[:80])


class Frame:
    __slots__ = ('fn', 'env', 'label', 'prev', 'block', 'ip', 'allocas', 'dest', 'varargs')

    def __init__(self, fn, env, dest):
        self.fn = fn
        self.env = env
        self.label = None
        self.prev = None
        self.block = None
        self.ip = 0
        self.allocas = []
        self.dest = dest
        self.varargs = ()

    def copy(self):
        f = Frame(self.fn, dict(self.env), self.dest)
        f.label = self.label
        f.prev = self.prev
        f.block = self.block
        f.ip = self.ip
        f.allocas = list(self.allocas)
        f.varargs = self.varargs
        return f


class State:
    def __init__(self, mem):
        self.frames = []
        self.mem = mem
        self.pc = []
        self.known = {}        # ast id -> bool: conditions decided on this path (in pc, or implied by it)
        self.accesses = []
        self.ub = []
        self.poison = []
        self.uninit = []
        self.steps = 0
        self.marks = (0, 0, 0, 0)
        self._bind()

    def _bind(self):
        self.mem.log = self.accesses
        self.mem.uninit = self.uninit
        self.mem.pcdepth = len(self.pc)

    def clone(self, truncate=False):
        s = State.__new__(State)
        s.frames = [f.copy() for f in self.frames]
        s.mem = self.mem.clone()
        s.pc = list(self.pc)
        s.known = dict(self.known)
        if truncate:
            a, b, c, d = self.marks
            s.accesses = self.accesses[:a]
            s.ub = self.ub[:b]
            s.poison = self.poison[:c]
            s.uninit = self.uninit[:d]
        else:
            s.accesses = list(self.accesses)
            s.ub = list(self.ub)
            s.poison = list(self.poison)
            s.uninit = list(self.uninit)
        s.steps = self.steps
        s.marks = self.marks
        s._bind()
        self._bind()
        return s

    def add_pc(self, c, val=True):
        """c: BoolRef that is asserted to be `val`"""
        self.known[c.get_id()] = (val, c)       # the AST is kept alive so that its id stays unique
        self.pc.append(c if val else z3.Not(c))
        self.mem.pcdepth = len(self.pc)


class Path:
    """One explored path.  status: 'ok' | 'aborted' | 'fault' | 'stepbound' | 'unreachable'"""

    def __init__(self, st, status, ret, error=None):
        self.cond = list(st.pc)
        self.ret = ret
        self.mem = st.mem
        self.accesses = st.accesses
        self.ub_notes = st.ub
        self.poison_obligations = st.poison
        self.uninit_reads = st.uninit
        self.status = status
        self.error = error
        self.state = st
        self.steps = st.steps

    def read(self, p, off, n):
        a = simp(p)
        if type(a) is not int:
            raise MemFault('Path.read needs a concrete pointer')
        log, self.mem.log = self.mem.log, None
        try:
            return self.mem.load((a + off) & mask(64), n)
        finally:
            self.mem.log = log

    def __repr__(self):
        return '<Path %s ret=%s |pc|=%d steps=%d%s>' % (self.status, self.ret, len(self.cond), self.steps,
                                                        ' ' + str(self.error) if self.error else '')


def type_bits(t):
    k = t[0]
    if k in ('i', 'f'):
        return t[1]
    if k in ('p', 'fn'):
        return 64
    raise Unsupported('first-class value of type %r' % (t,))


class Executor:
    def __init__(self, m, solver=None, max_steps=200000, nan_mode='canonical', log_accesses=True, max_paths=20000,
                 solver_timeout_ms=30000, merge=True, pin_addresses='fork'):
        self.pin_addresses = pin_addresses   # 'fork': enumerate feasible values of a symbolic address with the solver;
                                             # 'fault': an address that does not simplify to a constant is a MemFault
        self.merge = merge            # merge the two sides of call-free acyclic diamonds into If-terms (no path split)
        self._merging = 0
        self.m = m
        self.solver = solver
        self.max_steps = max_steps
        self.max_paths = max_paths
        self.log_accesses = log_accesses
        self.fp = V.FP(nan_mode)
        self.layout = Layout()
        self.stubs = {}          # external function name -> stub(ex, st, argv, fr, ins)
        self.overrides = {}      # defined function name -> stub used instead of its body
        self.stats = {'solver_checks': 0, 'solver_s': 0.0, 'forks': 0, 'undef_evaluated': 0, 'unknown': 0, 'steps': 0}
        self._scope = []
        self.solver_timeout_ms = solver_timeout_ms
        self.gaddr = {}
        self.faddr = {}
        self.addr2fn = {}
        self.unsupported_seen = {}
        self.work = []
        mem = Memory(self.layout)
        self.state = State(mem)
        self._init_globals(mem)
        self._dispatch = {
            'load': self.op_load, 'store': self.op_store, 'getelementptr': self.op_gep, 'br': self.op_br,
            'icmp': self.op_icmp, 'select': self.op_select, 'call': self.op_call, 'ret': self.op_ret,
            'switch': self.op_switch, 'alloca': self.op_alloca, 'fcmp': self.op_fcmp, 'fneg': self.op_fneg,
            'unreachable': self.op_unreachable, 'extractvalue': self.op_extractvalue, 'freeze': self.op_freeze,
            'insertvalue': self.op_insertvalue, 'phi': self.op_phi_stray,
        }
        for o in ('add', 'sub', 'mul', 'udiv', 'sdiv', 'urem', 'srem', 'shl', 'lshr', 'ashr', 'and', 'or', 'xor'):
            self._dispatch[o] = self.op_bin
        for o in ('fadd', 'fsub', 'fmul', 'fdiv'):
            self._dispatch[o] = self.op_fbin
        for o in ('trunc', 'zext', 'sext', 'fptrunc', 'fpext', 'fptoui', 'fptosi', 'uitofp', 'sitofp', 'ptrtoint',
                  'inttoptr', 'bitcast', 'addrspacecast'):
            self._dispatch[o] = self.op_cast
        try:
            from . import libc
            libc.install(self)
        except ImportError:
            pass

    # ============================================================================================ globals
    def _init_globals(self, mem):
        m = self.m
        names = list(m.functions) + [d for d in m.declared if d not in m.functions]
        for n in names:
            o = mem.new('fn:' + n, 1, kind='func', init='zero')
            self.gaddr[n] = o.base
            self.addr2fn[o.base] = n
        for g in m.globals.values():
            if g.external and g.init is None:
                try:
                    sz = m.sizeof(g.ty)
                except Exception:
                    sz = 8
                o = mem.new('@' + g.name, sz, kind='global', init='sym', align=max(16, 1))
            else:
                o = mem.new('@' + g.name, m.sizeof(g.ty), kind='global', init='zero', align=16)
            self.gaddr[g.name] = o.base
        for g in m.globals.values():
            if g.init is not None:
                o = mem.objs[self.gaddr[g.name]]
                self._write_const(mem, o.base, g.ty, g.init)
        for g in m.globals.values():
            if g.const:
                mem.objs[self.gaddr[g.name]].readonly = True
        mem.log = self.state.accesses
        del self.state.accesses[:]

    def _write_const(self, mem, addr, ty, c):
        m = self.m
        k = c[0]
        if k == 'z' or k == 'u':
            return
        ty = m.resolve(ty)
        if k == 'str':
            mem.log = None
            for i, b in enumerate(c[1]):
                if b:
                    mem.store(addr + i, b, 1)
            return
        if k == 'agg':
            mem.log = None
            if ty[0] == 's':
                offs = m.field_offsets(ty)
                for (et, ev), off in zip(c[1], offs):
                    self._write_const(mem, addr + off, et, ev)
            elif ty[0] in ('a', 'vec'):
                es = m.sizeof(ty[2])
                for i, (et, ev) in enumerate(c[1]):
                    self._write_const(mem, addr + i * es, et, ev)
            else:
                raise Unsupported('aggregate constant of type %r' % (ty,))
            return
        v = self.const_value(c)
        mem.log = None
        mem.store(addr, v, m.sizeof(ty))

    def const_value(self, c):
        k = c[0]
        if k == 'c':
            return c[1]
        if k == 'g':
            try:
                return self.gaddr[c[1]]
            except KeyError:
                raise Unsupported('reference to unknown symbol @%s' % c[1])
        if k == 'u':
            self.stats['undef_evaluated'] += 1
            return 0
        if k == 'z':
            return 0
        if k == 'ce':
            if c[1] == 'gep':
                base = self.const_value(c[3])
                off = self._gep_offset(c[2], [(t, self.const_value(v)) for t, v in c[4]])
                return (base + off) & mask(64)
            if c[1] == 'cast':
                op, ft, fv, tt = c[2], c[3], c[4], c[5]
                v = self.const_value(fv)
                if op in ('bitcast', 'ptrtoint', 'inttoptr', 'addrspacecast'):
                    fb, tb = type_bits(ft), type_bits(tt)
                    return v & mask(tb)
                if op == 'trunc':
                    return v & mask(type_bits(tt))
                if op == 'zext':
                    return v
                if op == 'sext':
                    return V.sext(v, type_bits(ft), type_bits(tt))
                raise Unsupported('constant cast ' + op)
            if c[1] == 'bin':
                return V.binop(c[2], self.const_value(c[4]), self.const_value(c[5]), type_bits(c[3]))
            if c[1] == 'icmp':
                return V.icmp(c[2], self.const_value(c[4]), self.const_value(c[5]), type_bits(c[3]))
            if c[1] == 'select':
                return self.const_value(c[4]) if self.const_value(c[2]) else self.const_value(c[5])
        raise Unsupported('constant %r' % (c,))

    def _gep_offset(self, base_ty, idx):
        """idx: list of (type, value); returns int or BitVec64 offset"""
        m = self.m
        off = 0
        ty = base_ty
        for k, (it, iv) in enumerate(idx):
            ib = it[1]
            if type(iv) is int:
                sv = V.to_signed(iv, ib)
            else:
                sv = V.sext(iv, ib, 64) if ib < 64 else iv
            if k == 0:
                sc = m.sizeof(ty)
            else:
                ty = m.resolve(ty)
                if ty[0] == 's':
                    if type(sv) is not int:
                        raise Unsupported('symbolic struct index')
                    off = off + m.field_offsets(ty)[sv]
                    ty = ty[1][sv]
                    continue
                elif ty[0] in ('a', 'vec'):
                    ty = ty[2]
                    sc = m.sizeof(ty)
                else:
                    raise Unsupported('gep into %r' % (ty,))
            if type(sv) is int:
                off = off + sv * sc
            else:
                off = off + (sv * bvval(sc, 64) if sc != 1 else sv)
        return off

    # ============================================================================================ public API
    def alloc(self, name, size, init='symbolic', window=False):
        o = self.state.mem.new(name, size, kind='user', init=init, window=window)
        return bvval(o.base, 64)

    def _ptr(self, p):
        a = simp(p)
        if type(a) is not int:
            raise MemFault('pointer must be concrete here')
        return a

    def write(self, p, off, term, nbytes):
        mem = self.state.mem
        log, mem.log = mem.log, None
        try:
            v = term
            if not isinstance(v, int):
                if z3.is_bv_value(v):
                    v = v.as_long()
                elif z3.is_fp(v):
                    v = z3.fpToIEEEBV(v)
            mem.store((self._ptr(p) + off) & mask(64), v, nbytes)
        finally:
            mem.log = log

    def read(self, p, off, nbytes):
        mem = self.state.mem
        log, mem.log = mem.log, None
        try:
            return mem.load((self._ptr(p) + off) & mask(64), nbytes)
        finally:
            mem.log = log

    def assume(self, cond):
        """Constrain the current (between calls) state."""
        self.state.add_pc(cond, True)

    def function_address(self, name):
        return self.gaddr[name]

    def global_address(self, name):
        return self.gaddr[name]

    def call(self, fname, args, from_path=None, on_fault='raise', adopt=True):
        """Run function `fname` on `args` (ints or z3 terms).  Returns list[Path].
        from_path: continue from the final state of an earlier Path (default: the executor's current state).
        on_fault: 'raise' (MemFault/StepBound propagate) or 'path' (recorded as a Path with status fault/stepbound).
        If exactly one path ends 'ok' and adopt is True, its final state becomes the executor's current state."""
        f = self.m.functions.get(fname)
        if f is None:
            raise Unsupported('no definition of function %s' % fname)
        base = from_path.state if from_path is not None else self.state
        st = base.clone()
        st.steps = 0
        argv = []
        for a in args:
            if not isinstance(a, int):
                if z3.is_bv_value(a):
                    a = a.as_long()
                elif z3.is_fp(a):
                    a = z3.fpToIEEEBV(a)
            argv.append(a)
        if len(argv) < len(f.params):
            raise ValueError('%s expects %d arguments' % (fname, len(f.params)))
        self._push_frame(st, f, argv, None)
        self.work = [st]
        paths = []
        while self.work:
            st = self.work.pop()
            if len(paths) >= self.max_paths:
                raise StepBound('more than %d paths' % self.max_paths)
            try:
                self._run(st)
            except _PathEnd as e:
                if e.status == 'infeasible':
                    continue
                paths.append(Path(st, e.status, e.ret, e.error))
            except MemFault as e:
                if on_fault == 'raise':
                    self.work = []
                    raise
                paths.append(Path(st, 'fault', None, e))
            except StepBound as e:
                if on_fault == 'raise':
                    self.work = []
                    raise
                paths.append(Path(st, 'stepbound', None, e))
        ok = [p for p in paths if p.status == 'ok']
        if adopt and from_path is None and len(ok) == 1 and len(paths) == 1:
            self.state = ok[0].state
            self.state.frames = []
        return paths

    # ============================================================================================ solver
    def _get_solver(self):
        if self.solver is None:
            self.solver = z3.Solver()
        return self.solver

    def _sync(self, pc):
        s = self._get_solver()
        sc = self._scope
        k = 0
        n = min(len(sc), len(pc))
        while k < n and sc[k] is pc[k]:
            k += 1
        while len(sc) > k:
            s.pop()
            sc.pop()
        for c in pc[k:]:
            s.push()
            s.add(c)
            sc.append(c)
        return s

    def check(self, pc, extra=None, want_model=False):
        """sat check of pc (+extra). Returns 'sat'|'unsat'|'unknown' (and the model if asked)."""
        import time
        s = self._sync(pc)
        s.set('timeout', self.solver_timeout_ms)
        t = time.time()
        if extra is not None:
            s.push()
            s.add(extra)
        r = s.check()
        model = s.model() if (want_model and r == z3.sat) else None
        if extra is not None:
            s.pop()
        self.stats['solver_checks'] += 1
        self.stats['solver_s'] += time.time() - t
        rs = 'sat' if r == z3.sat else 'unsat' if r == z3.unsat else 'unknown'
        if rs == 'unknown':
            self.stats['unknown'] += 1
        return (rs, model) if want_model else rs

    def decide(self, st, cond):
        """Truth value of `cond` on this path; forks (the other side re-executes the current instruction)."""
        if isinstance(cond, (bool, int)):
            return bool(cond)
        c = z3.simplify(cond)
        if z3.is_true(c):
            return True
        if z3.is_false(c):
            return False
        cid = c.get_id()
        k = st.known.get(cid)
        if k is not None:
            return k[0]
        t = self.check(st.pc, c) != 'unsat'
        f = self.check(st.pc, z3.Not(c)) != 'unsat'
        if t and f:
            if self._merging:
                raise _NoMerge()
            other = st.clone(truncate=True)
            other.add_pc(c, False)
            self.work.append(other)
            st.add_pc(c, True)
            self.stats['forks'] += 1
            return True
        if not t and not f:
            raise _PathEnd('infeasible')
        st.known[cid] = (t, c)
        return t

    def concretize(self, st, term, what='value'):
        """Pin a term to a concrete value, forking over its feasible values."""
        s = simp(term)
        if type(s) is int:
            return s
        r, model = self.check(st.pc, None, want_model=True)
        if r != 'sat':
            if r == 'unsat':
                raise _PathEnd('infeasible')
            raise MemFault('%s %s: solver gave no model' % (what, str(s)[:100]))
        v = model.eval(s, model_completion=True)
        if not z3.is_bv_value(v):
            raise MemFault('%s does not evaluate: %s' % (what, str(s)[:100]))
        iv = v.as_long()
        if self.decide(st, s == v):
            return iv
        return self.concretize(st, s, what)

    # ============================================================================================ running
    def _push_frame(self, st, f, argv, dest):
        env = {}
        for (t, n), a in zip(f.params, argv):
            env[n] = a
        fr = Frame(f, env, dest)
        fr.varargs = tuple(argv[len(f.params):])
        fr.label = None
        st.frames.append(fr)
        self._goto(fr, f.order[0])
        return fr

    def _goto(self, fr, label):
        f = fr.fn
        blk = f.blocks[label]
        i = 0
        n = len(blk)
        if n and blk[0].op == 'phi':
            env = fr.env
            cur = fr.label
            vals = []
            while i < n and blk[i].op == 'phi':
                ins = blk[i]
                try:
                    o = ins.a[cur]
                except KeyError:
                    raise Unsupported('phi without incoming value for %%%s in %s' % (cur, ins.text))
                vals.append((ins.dest, self.ev(env, o)))
                i += 1
            for d, v in vals:
                env[d] = v
        fr.prev = fr.label
        fr.label = label
        fr.block = blk
        fr.ip = i

    def ev(self, env, o):
        k = o[0]
        if k == 'r':
            return env[o[1]]
        if k == 'c':
            return o[1]
        if k == 'g':
            return self.gaddr[o[1]]
        return self.const_value(o)

    def _run(self, st, stop=None):
        disp = self._dispatch
        maxs = self.max_steps
        while True:
            fr = st.frames[-1]
            if stop is not None and fr.label == stop[1] and len(st.frames) == stop[0]:
                return
            ins = fr.block[fr.ip]
            st.steps += 1
            if st.steps > maxs:
                self.stats['steps'] += st.steps
                raise StepBound('step budget %d exhausted in %s' % (maxs, fr.fn.name))
            st.marks = (len(st.accesses), len(st.ub), len(st.poison), len(st.uninit))
            h = disp.get(ins.op)
            if h is None:
                self.unsupported_seen[ins.op] = self.unsupported_seen.get(ins.op, 0) + 1
                raise Unsupported('instruction %s in %s' % (ins.text, fr.fn.name))
            try:
                h(st, fr, ins)
            except _PathEnd:
                self.stats['steps'] += st.steps
                raise

    def where(self, fr, ins):
        return (fr.fn.name, fr.label, ins.idx, ins.text)

    # ---- memory helpers
    def resolve(self, st, p, n, fr, ins):
        """pointer value -> concrete address int, or ('win', obj, offset_term)"""
        if type(p) is int:
            return p
        s = simp(p)
        if type(s) is int:
            return s
        # window object? constant part of the sum decides
        cpart = None
        if z3.is_app_of(s, z3.Z3_OP_BADD):
            for a in s.children():
                if z3.is_bv_value(a):
                    cpart = a.as_long()
                    break
        if cpart is not None and cpart >= WINDOW_BASE:
            o = st.mem.find_window(cpart)
            if o is not None:
                if not o.live:
                    raise MemFault('access to dead window object %s' % o.name, None, n, None, self.where(fr, ins))
                off = z3.simplify(s - bvval(o.base, 64))
                return ('win', o, off)
        if self.pin_addresses == 'fault':
            raise MemFault('address does not simplify to a constant: %s' % str(s)[:200], None, n, None, self.where(fr, ins))
        return self.concretize(st, s, 'address')

    def mem_load(self, st, p, n, fr, ins):
        a = self.resolve(st, p, n, fr, ins)
        if type(a) is int:
            return st.mem.load(a, n, (fr.fn.name, fr.label, ins.idx))
        _, o, off = a
        if self.log_accesses:
            st.accesses.append((o.name, off, n, 'load', len(st.pc)))
        return st.mem.load_window(o, off, n)

    def mem_store(self, st, p, v, n, fr, ins):
        a = self.resolve(st, p, n, fr, ins)
        if type(a) is int:
            return st.mem.store(a, v, n, (fr.fn.name, fr.label, ins.idx))
        _, o, off = a
        if self.log_accesses:
            st.accesses.append((o.name, off, n, 'store', len(st.pc)))
        o = st.mem._own(o)
        st.mem.store_window(o, off, v, n)

    # ============================================================================================ instructions
    def op_load(self, st, fr, ins):
        t = ins.ty
        k = t[0]
        p = self.ev(fr.env, ins.a[0])
        if k == 'i' or k == 'f' or k == 'p':
            bits = t[1] if k != 'p' else 64
            n = (bits + 7) // 8
            v = self.mem_load(st, p, n, fr, ins)
            if bits != 8 * n:
                v = V.trunc(v, 8 * n, bits)
            fr.env[ins.dest] = v
        else:
            fr.env[ins.dest] = self._load_agg(st, p, t, fr, ins)
        fr.ip += 1

    def _load_agg(self, st, p, t, fr, ins):
        m = self.m
        t = m.resolve(t)
        if t[0] == 's':
            return tuple(self._load_agg(st, V.binop('add', p, off, 64), ft, fr, ins) for ft, off in zip(t[1], m.field_offsets(t)))
        if t[0] in ('a', 'vec'):
            es = m.sizeof(t[2])
            return tuple(self._load_agg(st, V.binop('add', p, i * es, 64), t[2], fr, ins) for i in range(t[1]))
        bits = type_bits(t)
        return self.mem_load(st, p, (bits + 7) // 8, fr, ins)

    def _store_agg(self, st, p, v, t, fr, ins):
        m = self.m
        t = m.resolve(t)
        if t[0] == 's':
            for x, ft, off in zip(v, t[1], m.field_offsets(t)):
                self._store_agg(st, V.binop('add', p, off, 64), x, ft, fr, ins)
        elif t[0] in ('a', 'vec'):
            es = m.sizeof(t[2])
            for i, x in enumerate(v):
                self._store_agg(st, V.binop('add', p, i * es, 64), x, t[2], fr, ins)
        else:
            bits = type_bits(t)
            self.mem_store(st, p, v, (bits + 7) // 8, fr, ins)

    def op_store(self, st, fr, ins):
        t = ins.ty
        env = fr.env
        v = self.ev(env, ins.a[0])
        p = self.ev(env, ins.a[1])
        k = t[0]
        if k == 'i' or k == 'f' or k == 'p':
            bits = t[1] if k != 'p' else 64
            n = (bits + 7) // 8
            if bits != 8 * n:
                v = V.zext(v, bits, 8 * n)
            self.mem_store(st, p, v, n, fr, ins)
        else:
            if not isinstance(v, tuple):
                raise Unsupported('aggregate store of constant: ' + ins.text)
            self._store_agg(st, p, v, t, fr, ins)
        fr.ip += 1

    def op_gep(self, st, fr, ins):
        env = fr.env
        p, idx = ins.a
        base = self.ev(env, p)
        plan = ins.extra
        if plan is None:
            plan = ins.extra = self._gep_plan(ins.ty, idx)
        coff, terms = plan
        if not terms:
            if type(base) is int:
                fr.env[ins.dest] = (base + coff) & 0xffffffffffffffff
            else:
                fr.env[ins.dest] = base + bvval(coff & mask(64), 64) if coff else base
            fr.ip += 1
            return
        off = coff
        for o, ib, sc in terms:
            v = self.ev(env, o)
            if type(v) is int:
                sv = v - (1 << ib) if v >> (ib - 1) else v
                if type(off) is int:
                    off = off + sv * sc
                else:
                    off = off + bvval((sv * sc) & mask(64), 64)
            else:
                if ib < 64:
                    v = z3.SignExt(64 - ib, v)
                if sc != 1:
                    v = v * bvval(sc, 64)
                off = v + bvval(off & mask(64), 64) if type(off) is int and off else (v if type(off) is int else off + v)
        if type(base) is int and type(off) is int:
            fr.env[ins.dest] = (base + off) & 0xffffffffffffffff
        else:
            fr.env[ins.dest] = V.binop('add', base, off & mask(64) if type(off) is int else off, 64)
        fr.ip += 1

    def _gep_plan(self, base_ty, idx):
        """-> (constant offset, [(operand, index bits, scale)])"""
        m = self.m
        coff = 0
        terms = []
        ty = base_ty
        for k, (it, o) in enumerate(idx):
            if k == 0:
                sc = m.sizeof(ty)
            else:
                ty = m.resolve(ty)
                if ty[0] == 's':
                    if o[0] != 'c':
                        raise Unsupported('non-constant struct index')
                    coff += m.field_offsets(ty)[o[1]]
                    ty = ty[1][o[1]]
                    continue
                if ty[0] in ('a', 'vec'):
                    ty = ty[2]
                    sc = m.sizeof(ty)
                else:
                    raise Unsupported('gep into %r' % (ty,))
            if o[0] == 'c':
                coff += V.to_signed(o[1], it[1]) * sc
            elif o[0] in ('r',):
                terms.append((o, it[1], sc))
            else:
                coff += V.to_signed(self.const_value(o), it[1]) * sc
        return coff, terms

    def op_bin(self, st, fr, ins):
        env = fr.env
        a = self.ev(env, ins.a[0])
        b = self.ev(env, ins.a[1])
        bits = ins.ty[1]
        op = ins.op
        r = V.binop(op, a, b, bits)
        if op in ('udiv', 'sdiv', 'urem', 'srem', 'shl', 'lshr', 'ashr'):
            ub = V.ub_cond(op, a, b, bits)
            if ub is not False:
                kind = 'div' if op[1:] in ('div', 'rem') else 'shift'
                st.ub.append(Note(kind, self.where(fr, ins), ub, len(st.pc),
                                  'division by zero / INT_MIN/-1' if kind == 'div' else 'shift amount >= %d' % bits))
        if ins.flags:
            for fl in ins.flags:
                np_ = V.no_poison(op, fl, a, b, r, bits)
                if np_ is not True:
                    st.poison.append(Note('poison', self.where(fr, ins), np_, len(st.pc), fl))
        env[ins.dest] = r
        fr.ip += 1

    def op_fbin(self, st, fr, ins):
        env = fr.env
        a = self.ev(env, ins.a[0])
        b = self.ev(env, ins.a[1])
        env[ins.dest] = self.fp.binop(ins.op, a, b, ins.ty[1])
        fr.ip += 1

    def op_fneg(self, st, fr, ins):
        fr.env[ins.dest] = self.fp.neg(self.ev(fr.env, ins.a[0]), ins.ty[1])
        fr.ip += 1

    def op_icmp(self, st, fr, ins):
        env = fr.env
        a = self.ev(env, ins.a[0])
        b = self.ev(env, ins.a[1])
        t = ins.ty
        env[ins.dest] = V.icmp(ins.extra, a, b, 64 if t[0] == 'p' else t[1])
        fr.ip += 1

    def op_fcmp(self, st, fr, ins):
        env = fr.env
        a = self.ev(env, ins.a[0])
        b = self.ev(env, ins.a[1])
        env[ins.dest] = self.fp.fcmp(ins.extra, a, b, ins.ty[1])
        fr.ip += 1

    def op_select(self, st, fr, ins):
        env = fr.env
        c = self.ev(env, ins.a[0])
        a = self.ev(env, ins.a[1])
        b = self.ev(env, ins.a[2])
        if isinstance(a, tuple) or isinstance(b, tuple):
            if type(c) is not int:
                c = int(self.decide(st, tobool(c)))
            env[ins.dest] = a if c else b
        else:
            env[ins.dest] = V.select(c, a, b, type_bits(ins.ty))
        fr.ip += 1

    def op_cast(self, st, fr, ins):
        env = fr.env
        a = self.ev(env, ins.a[0])
        op = ins.op
        ft, tt = ins.extra, ins.ty
        if op == 'zext':
            r = V.zext(a, ft[1], tt[1])
        elif op == 'sext':
            r = V.sext(a, ft[1], tt[1])
        elif op == 'trunc':
            r = V.trunc(a, ft[1], tt[1])
        elif op in ('bitcast', 'addrspacecast'):
            r = a
        elif op == 'ptrtoint':
            tb = tt[1]
            r = a if tb == 64 else (V.trunc(a, 64, tb) if tb < 64 else V.zext(a, 64, tb))
        elif op == 'inttoptr':
            fb = ft[1]
            r = a if fb == 64 else (V.zext(a, fb, 64) if fb < 64 else V.trunc(a, fb, 64))
        elif op in ('fptosi', 'fptoui'):
            r, ub = self.fp.fptoint(op == 'fptosi', a, ft[1], tt[1])
            if ub is not False:
                st.ub.append(Note('fptoint', self.where(fr, ins), ub, len(st.pc), 'NaN or out of range: result is the x86 integer indefinite'))
            ok = (not ub) if isinstance(ub, bool) else z3.Not(ub)
            if ok is not True:
                st.poison.append(Note('poison', self.where(fr, ins), ok, len(st.pc), op))
        elif op in ('sitofp', 'uitofp'):
            r = self.fp.inttofp(op == 'sitofp', a, ft[1], tt[1])
        elif op in ('fpext', 'fptrunc'):
            r = self.fp.fpconv(a, ft[1], tt[1])
        else:
            raise Unsupported(ins.text)
        env[ins.dest] = r
        fr.ip += 1

    def op_br(self, st, fr, ins):
        a = ins.a
        if len(a) == 1:
            self._goto(fr, a[0])
            return
        c = self.ev(fr.env, a[0])
        if type(c) is not int:
            c = tobool(c)
            if self.merge and self._try_merge(st, fr, c, a[1], a[2]):
                return
            c = self.decide(st, c)
        self._goto(fr, a[1] if c else a[2])

    # ---- state merging for simple diamonds
    def _merge_call_ok(self, ins):
        callee = ins.a[0]
        if callee[0] != 'g':
            return False
        n = callee[1]
        if n.startswith('llvm.'):
            return not n.startswith(('llvm.mem', 'llvm.va_', 'llvm.stack'))
        return n in ('sqrt', 'sqrtf', 'fabs', 'fabsf')

    def _try_merge(self, st, fr, cond, lt, lf):
        f = fr.fn
        J = cfg.ipdoms(f)[fr.label]
        if J == cfg.EXIT or not cfg.simple_region(f, fr.label, J, self._merge_call_ok):
            return False
        c = z3.simplify(cond)
        if z3.is_true(c) or z3.is_false(c) or st.known.get(c.get_id()) is not None:
            return False
        t = self.check(st.pc, c) != 'unsat'
        fl = self.check(st.pc, z3.Not(c)) != 'unsat'
        if not (t and fl):
            if not t and not fl:
                raise _PathEnd('infeasible')
            st.known[c.get_id()] = (t, c)
            return False
        depth = len(st.frames)
        sides = []
        self._merging += 1
        try:
            for val, lab in ((True, lt), (False, lf)):
                s = st.clone()
                s.add_pc(c, val)
                self._goto(s.frames[-1], lab)
                self._run(s, (depth, J))
                sides.append(s)
            self._merge_states(st, sides[0], sides[1], c)
        except (_NoMerge, _PathEnd, MemFault, StepBound):
            st._bind()
            return False
        finally:
            self._merging -= 1
        self.stats['merges'] = self.stats.get('merges', 0) + 1
        return True

    def _ite(self, c, a, b, bits):
        if isinstance(a, tuple) or isinstance(b, tuple):
            if not (isinstance(a, tuple) and isinstance(b, tuple) and len(a) == len(b)):
                raise _NoMerge()
            return tuple(self._ite(c, x, y, None) for x, y in zip(a, b))
        if type(a) is int and type(b) is int:
            if a == b:
                return a
            if bits is None:
                raise _NoMerge()
        elif type(a) is not int and type(b) is not int and a.eq(b):
            return a
        if bits is None:
            x = a if type(a) is not int else b
            bits = 1 if z3.is_bool(x) else x.size()
        return V.select(c, a, b, bits)

    @staticmethod
    def _byte_term(b):
        if type(b) is int:
            return bvval(b, 8)
        if type(b) is tuple:
            return z3.Extract(8 * b[1] + 7, 8 * b[1], b[0])
        return b

    def _merge_states(self, st, a, b, c):
        fa, fb = a.frames[-1], b.frames[-1]
        rb = cfg.reg_bits(fa.fn, self.m)
        env = {}
        eb = fb.env
        for k, va in fa.env.items():
            if k not in eb:
                continue
            vb = eb[k]
            if va is vb:
                env[k] = va
            else:
                env[k] = self._ite(c, va, vb, rb.get(k))
        # memory
        ma, mb = a.mem, b.mem
        if len(ma.objs) != len(mb.objs):
            raise _NoMerge()
        for base, oa in list(ma.objs.items()):
            ob = mb.objs.get(base)
            if ob is None:
                raise _NoMerge()
            if oa is ob:
                continue
            if oa.live != ob.live or oa.default != ob.default:
                raise _NoMerge()
            oa = ma._own(oa)
            if oa.window:
                if not oa.arr.eq(ob.arr):
                    oa.arr = z3.If(c, oa.arr, ob.arr)
                continue
            da, db = oa.data, ob.data
            if da is db:
                continue
            dflt = oa.default

            def getb(d, off):
                v = d.get(off)
                if v is None:
                    if type(dflt) is int:
                        return dflt
                    return z3.BitVec('%s%s_%d' % ('uninit_' if dflt == 'uninit' else '', oa.name, off), 8)
                return v
            offs = sorted(set(da) | set(db))
            i = 0
            while i < len(offs):
                off = offs[i]
                x, y = getb(da, off), getb(db, off)
                if x is y or (type(x) is int and type(y) is int and x == y):
                    da[off] = x
                    i += 1
                    continue
                if type(x) is tuple and type(y) is tuple:
                    if x[0] is y[0] and x[1] == y[1]:
                        da[off] = x
                        i += 1
                        continue
                    n = x[2]
                    if x[1] == 0 and y[1] == 0 and y[2] == n:
                        full = True
                        for j in range(1, n):
                            xj, yj = da.get(off + j), db.get(off + j)
                            if not (type(xj) is tuple and type(yj) is tuple and xj[0] is x[0] and yj[0] is y[0]
                                    and xj[1] == j and yj[1] == j):
                                full = False
                                break
                        if full:
                            mt = z3.If(c, x[0], y[0])
                            for j in range(n):
                                da[off + j] = (mt, j, n)
                            while i < len(offs) and offs[i] < off + n:
                                i += 1
                            continue
                elif (type(x) is tuple and type(y) is int) or (type(x) is int and type(y) is tuple):
                    # whole term on one side, concrete bytes on the other
                    tt = x if type(x) is tuple else y
                    n = tt[2]
                    if tt[1] == 0:
                        dt, di = (da, db) if type(x) is tuple else (db, da)
                        full = True
                        val = 0
                        for j in range(n):
                            tj, ij = dt.get(off + j), di.get(off + j, dflt if type(dflt) is int else None)
                            if not (type(tj) is tuple and tj[0] is tt[0] and tj[1] == j and type(ij) is int):
                                full = False
                                break
                            val |= ij << (8 * j)
                        if full:
                            cv = bvval(val, 8 * n)
                            mt = z3.If(c, tt[0], cv) if type(x) is tuple else z3.If(c, cv, tt[0])
                            for j in range(n):
                                da[off + j] = (mt, j, n)
                            while i < len(offs) and offs[i] < off + n:
                                i += 1
                            continue
                da[off] = z3.If(c, self._byte_term(x), self._byte_term(y))
                i += 1
        # notes
        na, nb_ = len(st.accesses), len(st.ub)
        npo = len(st.poison)
        nu = len(st.uninit)
        notc = z3.Not(c)

        def guard(notes, start, g, implies):
            out = []
            for nt in notes[start:]:
                cd = nt.cond
                if implies:
                    cd = z3.simplify(z3.Implies(g, cd if not isinstance(cd, bool) else z3.BoolVal(cd)))
                    if z3.is_true(cd):
                        continue
                else:
                    cd = z3.simplify(z3.And(g, cd if not isinstance(cd, bool) else z3.BoolVal(cd)))
                    if z3.is_false(cd):
                        continue
                out.append(Note(nt.kind, nt.where, cd, len(st.pc), nt.detail))
            return out
        st.accesses = a.accesses + b.accesses[na:]
        st.ub = st.ub + guard(a.ub, nb_, c, False) + guard(b.ub, nb_, notc, False)
        st.poison = st.poison + guard(a.poison, npo, c, True) + guard(b.poison, npo, notc, True)
        st.uninit = a.uninit + b.uninit[nu:]
        st.steps = a.steps + b.steps - st.steps
        fa.env = env
        st.frames = a.frames
        st.mem = ma
        st._bind()

    def op_switch(self, st, fr, ins):
        v = self.ev(fr.env, ins.a[0])
        dflt, cases = ins.extra
        bits = ins.ty[1]
        if type(v) is not int:
            v = simp(v)
        if type(v) is int:
            for cv, lab in cases:
                if cv == v:
                    self._goto(fr, lab)
                    return
            self._goto(fr, dflt)
            return
        for cv, lab in cases:
            if self.decide(st, v == bvval(cv, bits)):
                self._goto(fr, lab)
                return
        self._goto(fr, dflt)

    def op_unreachable(self, st, fr, ins):
        st.ub.append(Note('unreachable', self.where(fr, ins), True, len(st.pc), 'unreachable executed'))
        raise _PathEnd('unreachable', None, 'unreachable executed in %s' % fr.fn.name)

    def op_phi_stray(self, st, fr, ins):
        raise Unsupported('phi not at block start: ' + ins.text)

    def op_freeze(self, st, fr, ins):
        fr.env[ins.dest] = self.ev(fr.env, ins.a[0])
        fr.ip += 1

    def op_extractvalue(self, st, fr, ins):
        v = self.ev(fr.env, ins.a[0])
        for i in ins.extra:
            v = v[i]
        fr.env[ins.dest] = v
        fr.ip += 1

    def op_insertvalue(self, st, fr, ins):
        v = self.ev(fr.env, ins.a[0]) if ins.a[0][0] == 'r' else None
        e = self.ev(fr.env, ins.a[1])
        et, idx = ins.extra
        if v is None:
            v = self._zero_agg(ins.ty)

        def put(agg, idx):
            agg = list(agg)
            if len(idx) == 1:
                agg[idx[0]] = e
            else:
                agg[idx[0]] = put(agg[idx[0]], idx[1:])
            return tuple(agg)
        fr.env[ins.dest] = put(v, idx)
        fr.ip += 1

    def _zero_agg(self, t):
        t = self.m.resolve(t)
        if t[0] == 's':
            return tuple(self._zero_agg(f) for f in t[1])
        if t[0] in ('a', 'vec'):
            return tuple(self._zero_agg(t[2]) for _ in range(t[1]))
        return 0

    def op_alloca(self, st, fr, ins):
        cnt = self.ev(fr.env, ins.a[0])
        if type(cnt) is not int:
            cnt = self.concretize(st, cnt, 'alloca count')
        size = self.m.sizeof(ins.ty) * cnt
        o = st.mem.new('%s.%%%s' % (fr.fn.name, ins.dest), size, kind='stack', init='sym', align=max(ins.extra or 1, 16))
        o.default = 'uninit'
        fr.allocas.append(o.base)
        fr.env[ins.dest] = o.base
        fr.ip += 1

    def op_ret(self, st, fr, ins):
        v = self.ev(fr.env, ins.a[0]) if ins.a else None
        for b in fr.allocas:
            st.mem.kill(b, 'return from ' + fr.fn.name)
        st.frames.pop()
        if not st.frames:
            raise _PathEnd('ok', v)
        caller = st.frames[-1]
        if fr.dest is not None:
            caller.env[fr.dest] = v
        caller.ip += 1

    # ---- calls
    def op_call(self, st, fr, ins):
        callee, args = ins.a
        env = fr.env
        if callee[0] == 'g':
            name = callee[1]
        else:
            fp = self.ev(env, callee)
            a = fp if type(fp) is int else self.concretize(st, fp, 'callee')
            name = self.addr2fn.get(a)
            if name is None:
                raise MemFault('indirect call to non-function address 0x%x' % a, a, 0, 'call', self.where(fr, ins))
        if name.startswith('llvm.'):
            argv = [self.ev(env, o) for t, o in args]
            r = self.intrinsic(st, fr, ins, name, argv, args)
            if ins.dest is not None:
                env[ins.dest] = r
            fr.ip += 1
            return
        f = self.m.functions.get(name)
        if f is not None and name not in self.overrides:
            argv = [self.ev(env, o) for t, o in args]
            self._push_frame(st, f, argv, ins.dest)
            return
        stub = self.overrides.get(name) or self.stubs.get(name)
        if stub is None:
            raise Unsupported('call to external function %s (no stub)' % name)
        argv = [self.ev(env, o) for t, o in args]
        r = stub(self, st, argv, fr, ins)
        if ins.dest is not None:
            if r is None and ins.ty != ('v',):
                raise Unsupported('stub %s returned no value' % name)
            env[ins.dest] = r
        fr.ip += 1


    def intrinsic(self, st, fr, ins, name, a, args):
        parts = name.split('.')
        op = parts[1]
        if op in ('lifetime', 'assume', 'dbg', 'experimental', 'prefetch', 'donothing', 'invariant', 'stacksave',
                  'stackrestore', 'annotation', 'var', 'expect') and op != 'expect':
            return 0 if ins.ty != ('v',) else None
        if op == 'expect':
            return a[0]
        t = ins.ty
        if op == 'abs':
            bits = t[1]
            if a[1] == 1:
                mn = 1 << (bits - 1)
                c = (a[0] == mn) if type(a[0]) is int else (a[0] == bvval(mn, bits))
                if c is not False:
                    st.poison.append(Note('poison', self.where(fr, ins), (not c) if isinstance(c, bool) else z3.Not(c),
                                          len(st.pc), 'abs(INT_MIN)'))
            return V.iabs(a[0], bits)
        if op in ('smin', 'smax', 'umin', 'umax'):
            return V.minmax(op, a[0], a[1], t[1])
        if op in ('sadd', 'ssub', 'uadd', 'usub') and parts[2] == 'sat':
            return V.sat_add(op[0] == 's', op[1:] == 'sub', a[0], a[1], t[1])
        if op in ('fshl', 'fshr'):
            return V.funnel(op == 'fshl', a[0], a[1], a[2], t[1])
        if op == 'bswap':
            return V.bswap(a[0], t[1])
        if op == 'ctpop':
            return V.ctpop(a[0], t[1])
        if op in ('ctlz', 'cttz'):
            bits = t[1]
            if a[1] == 1:
                z = (a[0] == 0) if type(a[0]) is int else (a[0] == bvval(0, bits))
                if z is not False:
                    st.poison.append(Note('poison', self.where(fr, ins), (not z) if isinstance(z, bool) else z3.Not(z),
                                          len(st.pc), op + ' of zero'))
            return V.ctlz(a[0], bits) if op == 'ctlz' else V.cttz(a[0], bits)
        if op == 'fmuladd':
            # "may be fused": modelled unfused (x86-64 baseline without FMA; gcc/clang do not fuse there)
            return self.fp.binop('fadd', self.fp.binop('fmul', a[0], a[1], t[1]), a[2], t[1])
        if op == 'fma':
            return self.fp.fma(a[0], a[1], a[2], t[1])
        if op == 'load' and len(parts) > 2 and parts[2] == 'relative':
            p = V.binop('add', a[0], a[1], 64)
            v = self.mem_load(st, p, 4, fr, ins)
            return V.binop('add', a[0], V.sext(v, 32, 64), 64)
        if op == 'fabs':
            return self.fp.fabs(a[0], t[1])
        if op == 'sqrt':
            return self.fp.sqrt(a[0], t[1])
        if op in ('memset', 'memcpy', 'memmove'):
            n = a[2]
            if type(n) is not int:
                n = self.concretize(st, n, op + ' length')
            d = self._pin(st, a[0], fr, ins)
            wh = (fr.fn.name, fr.label, ins.idx)
            if op == 'memset':
                b = a[1]
                if type(b) is not int:
                    b = simp(b)
                st.mem.fill(d, b, n, wh)
            else:
                s = self._pin(st, a[1], fr, ins)
                st.mem.copy(d, s, n, wh)
            return None
        if op in ('umul', 'smul', 'uadd', 'sadd', 'usub', 'ssub') and parts[2] == 'with':
            bits = args[0][0][1]
            base = {'umul': 'mul', 'smul': 'mul', 'uadd': 'add', 'sadd': 'add', 'usub': 'sub', 'ssub': 'sub'}[op]
            r = V.binop(base, a[0], a[1], bits)
            ok = V.no_poison(base, 'nuw' if op[0] == 'u' else 'nsw', a[0], a[1], r, bits)
            ov = int(not ok) if isinstance(ok, bool) else z3.Not(ok)
            return (r, ov)
        if op in ('va_start', 'va_end', 'va_copy'):
            # variadic argument lists are only consumed by formatting stubs (vasprintf/vsnprintf), which ignore them
            return None
        raise Unsupported('intrinsic ' + name)

    def _pin(self, st, p, fr, ins):
        a = self.resolve(st, p, 1, fr, ins)
        if type(a) is not int:
            raise Unsupported('bulk memory operation on a window object')
        return a

    # ---- helpers for stubs
    def note_ub(self, st, fr, ins, kind, cond, detail=''):
        st.ub.append(Note(kind, self.where(fr, ins), cond, len(st.pc), detail))
