"""Parser for the textual LLVM IR that clang-14 emits (typed pointers).  Only what the executor needs.

Types are hashable tuples:
  ('i', bits) ('f', 32|64|80|128|16) ('p',) ('a', n, elem) ('s', (fields...), packed) ('n', name) ('fn',) ('v',)
  ('vec', n, elem) ('label',) ('md',) ('opaque',)
Pointee types are dropped (every instruction that needs one spells it out).

Operands are tuples:
  ('r', name)              SSA register / argument
  ('c', int)               integer / pointer(null) / float constant as *bit pattern*
  ('g', name)              address of a global or function
  ('u', bits|None)         undef / poison  (evaluates to 0; the executor records a note)
  ('z',)                   zeroinitializer (aggregate)
  ('agg', [operands...])   constant struct/array
  ('str', bytes)           c"..."
  ('ce', op, ...)          constant expression
"""
import re
import struct as _struct

TOK = re.compile(r'''
    (?P<ws>\s+)
  | (?P<comment>;.*$)
  | (?P<cstr>c"[^"]*")
  | (?P<str>"[^"]*")
  | (?P<id>[%@!$](?:"[^"]*"|[-a-zA-Z$._0-9]+))
  | (?P<attr>\#\d+)
  | (?P<hex>0x[KMLHR]?[0-9A-Fa-f]+)
  | (?P<flt>-?\d+\.\d*(?:[eE][+-]?\d+)?)
  | (?P<int>-?\d+)
  | (?P<dots>\.\.\.)
  | (?P<word>[a-zA-Z_][a-zA-Z0-9_.]*)
  | (?P<p>[,()\[\]{}<>*=:!|])
''', re.X)


class ParseError(Exception):
    pass


def tokenize(s):
    out = []
    pos = 0
    n = len(s)
    while pos < n:
        m = TOK.match(s, pos)
        if not m:
            raise ParseError('cannot tokenize at %r' % s[pos:pos + 40])
        pos = m.end()
        k = m.lastgroup
        if k in ('ws', 'comment'):
            continue
        out.append((k, m.group(k)))
    return out


def unescape(body):
    """LLVM string body (between the quotes) -> bytes."""
    out = bytearray()
    i = 0
    while i < len(body):
        c = body[i]
        if c == '\\':
            if body[i + 1] == '\\':
                out.append(0x5c)
                i += 2
            else:
                out.append(int(body[i + 1:i + 3], 16))
                i += 3
        else:
            out.append(ord(c))
            i += 1
    return bytes(out)


PARAM_ATTRS = {'noundef', 'nocapture', 'readonly', 'writeonly', 'nonnull', 'noalias', 'signext', 'zeroext', 'immarg',
               'returned', 'inreg', 'nest', 'nofree', 'readnone', 'swiftself', 'swifterror', 'noalias', 'inalloca',
               'nonnull', 'allocalign', 'allocptr'}
PAREN_ATTRS = {'dereferenceable', 'dereferenceable_or_null', 'byval', 'sret', 'byref', 'preallocated', 'elementtype',
               'inalloca'}
FMF = {'nnan', 'ninf', 'nsz', 'arcp', 'contract', 'afn', 'reassoc', 'fast'}
CCONV = {'ccc', 'fastcc', 'coldcc'}
LINKAGE = {'private', 'internal', 'available_externally', 'linkonce', 'weak', 'common', 'appending', 'extern_weak',
           'linkonce_odr', 'weak_odr', 'external', 'dso_local', 'dso_preemptable', 'default', 'hidden', 'protected',
           'unnamed_addr', 'local_unnamed_addr', 'thread_local', 'externally_initialized', 'dllimport', 'dllexport'}
BINOPS = {'add', 'sub', 'mul', 'udiv', 'sdiv', 'urem', 'srem', 'shl', 'lshr', 'ashr', 'and', 'or', 'xor'}
FBINOPS = {'fadd', 'fsub', 'fmul', 'fdiv', 'frem'}
CASTS = {'trunc', 'zext', 'sext', 'fptrunc', 'fpext', 'fptoui', 'fptosi', 'uitofp', 'sitofp', 'ptrtoint', 'inttoptr',
         'bitcast', 'addrspacecast'}
I1 = ('i', 1)
PTR = ('p',)


class Cursor:
    def __init__(self, toks, mod, text=''):
        self.t = toks
        self.i = 0
        self.mod = mod
        self.text = text

    def peek(self, k=0):
        j = self.i + k
        return self.t[j] if j < len(self.t) else ('eof', '')

    def next(self):
        tk = self.peek()
        self.i += 1
        return tk

    def at(self, val):
        return self.peek()[1] == val and self.peek()[0] in ('p', 'word', 'dots')

    def accept(self, val):
        if self.at(val):
            self.i += 1
            return True
        return False

    def expect(self, val):
        if not self.accept(val):
            raise ParseError('expected %r at token %d %r in: %s' % (val, self.i, self.peek(), self.text[:300]))

    def eof(self):
        return self.i >= len(self.t)

    # ------------------------------------------------------------------ types
    def type(self):
        k, v = self.next()
        if k == 'word':
            if v[0] == 'i' and v[1:].isdigit():
                t = ('i', int(v[1:]))
            elif v == 'void':
                t = ('v',)
            elif v == 'float':
                t = ('f', 32)
            elif v == 'double':
                t = ('f', 64)
            elif v == 'half':
                t = ('f', 16)
            elif v == 'x86_fp80':
                t = ('f', 80)
            elif v == 'fp128':
                t = ('f', 128)
            elif v == 'label':
                t = ('label',)
            elif v == 'metadata':
                t = ('md',)
            elif v == 'opaque':
                t = ('opaque',)
            elif v == 'ptr':
                t = PTR
            else:
                raise ParseError('unknown type word %r in %s' % (v, self.text[:200]))
        elif k == 'id' and v[0] == '%':
            t = ('n', v[1:].strip('"'))
        elif k == 'p' and v == '{':
            t = ('s', tuple(self._type_list('}')), False)
        elif k == 'p' and v == '[':
            n = int(self.next()[1])
            self.expect('x')
            e = self.type()
            self.expect(']')
            t = ('a', n, e)
        elif k == 'p' and v == '<':
            if self.accept('{'):
                f = tuple(self._type_list('}'))
                self.expect('>')
                t = ('s', f, True)
            else:
                n = int(self.next()[1])
                self.expect('x')
                e = self.type()
                self.expect('>')
                t = ('vec', n, e)
        else:
            raise ParseError('bad type token %r in %s' % ((k, v), self.text[:200]))
        # suffixes: '*' , function type '(...)' , addrspace
        while True:
            if self.accept('*'):
                t = PTR
            elif self.at('(') and self._looks_like_fnty():
                self.next()
                self._skip_balanced_rest(')')
                t = ('fn',)
            elif self.at('addrspace'):
                self.next()
                self.expect('(')
                self.next()
                self.expect(')')
            else:
                break
        return t

    def _looks_like_fnty(self):
        # after a type, '(' starts a function type only if what follows is a type list / ')' / '...'
        k, v = self.peek(1)
        if v == ')' or k == 'dots':
            return True
        if k == 'word':
            return (v[0] == 'i' and v[1:].isdigit()) or v in ('float', 'double', 'half', 'x86_fp80', 'fp128', 'metadata', 'ptr', 'void')
        if k == 'id' and v[0] == '%':
            # named type (not a register): a register can never follow "type (" directly except in call args,
            # where the callee token comes first; so treat as type.
            return True
        return v in ('{', '[', '<')

    def _skip_balanced_rest(self, close):
        depth = 1
        opener = {')': '(', ']': '[', '}': '{'}[close]
        while depth:
            k, v = self.next()
            if k == 'eof':
                raise ParseError('unbalanced in ' + self.text[:200])
            if k == 'p' and v == opener:
                depth += 1
            elif k == 'p' and v == close:
                depth -= 1

    def _type_list(self, close):
        out = []
        if self.accept(close):
            return out
        while True:
            out.append(self.type())
            if self.accept(close):
                return out
            self.expect(',')

    # ------------------------------------------------------------------ values
    def skip_param_attrs(self):
        while True:
            k, v = self.peek()
            if k == 'word' and v in PARAM_ATTRS:
                self.next()
            elif k == 'word' and v == 'align':
                self.next()
                if self.accept('('):
                    self._skip_balanced_rest(')')
                else:
                    self.next()
            elif k == 'word' and v in PAREN_ATTRS:
                self.next()
                if self.accept('('):
                    self._skip_balanced_rest(')')
            else:
                return

    def typed_value(self):
        t = self.type()
        self.skip_param_attrs()
        return t, self.value(t)

    def value(self, t):
        k, v = self.next()
        if k == 'id':
            if v[0] == '%':
                return ('r', v[1:].strip('"'))
            if v[0] == '@':
                return ('g', self.mod._sym(v[1:].strip('"')))
            raise ParseError('unexpected id %r' % v)
        if k == 'int':
            iv = int(v)
            if t[0] == 'i':
                return ('c', iv & ((1 << t[1]) - 1))
            if t[0] == 'f':
                return ('c', float_bits(float(iv), t[1]))
            return ('c', iv & ((1 << 64) - 1))
        if k == 'flt':
            return ('c', float_bits(float(v), t[1]))
        if k == 'hex':
            return ('c', hex_float_bits(v, t))
        if k == 'word':
            if v == 'true':
                return ('c', 1)
            if v == 'false':
                return ('c', 0)
            if v == 'null':
                return ('c', 0)
            if v in ('undef', 'poison'):
                return ('u', v)
            if v == 'zeroinitializer':
                return ('z',)
            if v == 'getelementptr':
                inb = self.accept('inbounds')
                self.expect('(')
                bt = self.type()
                self.expect(',')
                pt, pv = self.typed_value()
                idx = []
                while self.accept(','):
                    self.accept('inrange')
                    idx.append(self.typed_value())
                self.expect(')')
                return ('ce', 'gep', bt, pv, idx)
            if v in CASTS:
                self.expect('(')
                ft, fv = self.typed_value()
                self.expect('to')
                tt = self.type()
                self.expect(')')
                return ('ce', 'cast', v, ft, fv, tt)
            if v in BINOPS:
                flags = []
                while self.peek()[1] in ('nuw', 'nsw', 'exact'):
                    flags.append(self.next()[1])
                self.expect('(')
                at, av = self.typed_value()
                self.expect(',')
                bt_, bv = self.typed_value()
                self.expect(')')
                return ('ce', 'bin', v, at, av, bv)
            if v in ('icmp',):
                pred = self.next()[1]
                self.expect('(')
                at, av = self.typed_value()
                self.expect(',')
                bt_, bv = self.typed_value()
                self.expect(')')
                return ('ce', 'icmp', pred, at, av, bv)
            if v == 'select':
                self.expect('(')
                ct, cv = self.typed_value()
                self.expect(',')
                at, av = self.typed_value()
                self.expect(',')
                bt_, bv = self.typed_value()
                self.expect(')')
                return ('ce', 'select', cv, at, av, bv)
            raise ParseError('unknown value word %r in %s' % (v, self.text[:300]))
        if k == 'cstr':
            return ('str', unescape(v[2:-1]))
        if k == 'p' and v in ('{', '['):
            close = '}' if v == '{' else ']'
            elems = []
            if not self.accept(close):
                while True:
                    et, ev = self.typed_value()
                    elems.append((et, ev))
                    if self.accept(close):
                        break
                    self.expect(',')
            return ('agg', elems)
        if k == 'p' and v == '<':
            if self.accept('{'):
                elems = []
                if not self.accept('}'):
                    while True:
                        elems.append(self.typed_value())
                        if self.accept('}'):
                            break
                        self.expect(',')
                self.expect('>')
                return ('agg', elems)
            elems = []
            while True:
                elems.append(self.typed_value())
                if self.accept('>'):
                    break
                self.expect(',')
            return ('agg', elems)
        raise ParseError('bad value token %r in %s' % ((k, v), self.text[:300]))


def float_bits(x, bits):
    if bits == 32:
        try:
            return _struct.unpack('<I', _struct.pack('<f', x))[0]
        except OverflowError:
            return 0x7f800000 if x > 0 else 0xff800000
    if bits == 64:
        return _struct.unpack('<Q', _struct.pack('<d', x))[0]
    raise ParseError('float constant of width %d' % bits)


def hex_float_bits(v, t):
    """0x<16 hex> is a double bit pattern, also for `float` typed constants (exactly representable)."""
    if v[2] in 'KMLHR':
        raise ParseError('unsupported hex float format ' + v)
    bits = int(v[2:], 16)
    if t[0] == 'i':  # hex integer? (LLVM does not print these, but accept u0x-less form)
        return bits & ((1 << t[1]) - 1)
    if t == ('f', 64):
        return bits
    if t == ('f', 32):
        d = _struct.unpack('<d', _struct.pack('<Q', bits))[0]
        if d != d:
            # NaN: keep sign, quiet bit and top payload bits
            sign = bits >> 63
            mant = (bits >> 29) & 0x7fffff
            return (sign << 31) | 0x7f800000 | (mant or 0x400000)
        return float_bits(d, 32)
    raise ParseError('hex float of type %r' % (t,))


class Ins:
    __slots__ = ('op', 'dest', 'ty', 'a', 'flags', 'text', 'extra', 'fn', 'idx')

    def __init__(self, op, dest, ty, a, flags=(), text='', extra=None):
        self.op = op
        self.dest = dest
        self.ty = ty
        self.a = a
        self.flags = flags
        self.text = text
        self.extra = extra

    def __repr__(self):
        return '<%s>' % self.text


class Function:
    def __init__(self, name, ret, params, vararg, internal):
        self.name = name
        self.ret = ret
        self.params = params  # list of (type, name)
        self.vararg = vararg
        self.blocks = {}      # label -> list[Ins]
        self.order = []
        self.internal = internal
        self.unit = None

    @property
    def entry(self):
        return self.order[0]


class Global:
    def __init__(self, name, ty, init, const, unit, external):
        self.name = name
        self.ty = ty
        self.init = init
        self.const = const
        self.unit = unit
        self.external = external


class Module:
    """One or several linked translation units.  `m.functions`, `m.globals`, `m.types`, `m.declared`."""

    def __init__(self):
        self.functions = {}
        self.globals = {}
        self.types = {}
        self.declared = {}
        self.units = []
        self._rename = {}
        self._unit = 0
        self._size_cache = {}
        self.flag_counts = {}

    @classmethod
    def load(cls, path):
        m = cls()
        paths = [path] if isinstance(path, str) else list(path)
        for p in paths:
            m._load_unit(p)
        return m

    # internal/private symbols of unit k>0 are renamed name$k
    def _sym(self, name):
        return self._rename.get(name, name)

    def _load_unit(self, path):
        text = open(path).read()
        unit = len(self.units)
        self.units.append(path)
        self._unit = unit
        self._rename = {}
        lines = text.split('\n')
        if unit > 0 or True:
            for ln in lines:
                m = re.match(r'^(@(?:"[^"]*"|[-a-zA-Z$._0-9]+)) = (private|internal)\b', ln)
                if m:
                    nm = m.group(1)[1:].strip('"')
                    self._rename[nm] = '%s$%d' % (nm, unit) if unit > 0 else nm
                m = re.match(r'^define (?:private|internal)\b.*?@((?:"[^"]*"|[-a-zA-Z$._0-9]+))\(', ln)
                if m:
                    nm = m.group(1).strip('"')
                    self._rename[nm] = '%s$%d' % (nm, unit) if unit > 0 else nm
        i = 0
        n = len(lines)
        while i < n:
            ln = lines[i]
            i += 1
            if not ln or ln[0] == ';':
                continue
            if ln.startswith('%') and ' = type ' in ln:
                c = Cursor(tokenize(ln), self, ln)
                name = c.next()[1][1:].strip('"')
                c.expect('=')
                c.expect('type')
                ty = c.type()
                old = self.types.get(name)
                if old is not None and old != ty and old != ('opaque',) and ty != ('opaque',):
                    if self.sizeof(old) != self.sizeof(ty):
                        raise ParseError('type %s differs between units' % name)
                if old is None or old == ('opaque',):
                    self.types[name] = ty
                continue
            if ln.startswith('@'):
                self._global(ln)
                continue
            if ln.startswith('declare '):
                m = re.search(r'@((?:"[^"]*"|[-a-zA-Z$._0-9]+))\(', ln)
                self.declared[m.group(1).strip('"')] = ln
                continue
            if ln.startswith('define '):
                body = []
                while lines[i] != '}':
                    body.append(lines[i])
                    i += 1
                i += 1
                self._function(ln, body)
                continue
            # target, attributes, metadata, source_filename: ignored

    def _global(self, ln):
        c = Cursor(tokenize(ln), self, ln)
        name = self._sym(c.next()[1][1:].strip('"'))
        c.expect('=')
        external = False
        while True:
            k, v = c.peek()
            if k == 'word' and v in LINKAGE:
                if v in ('external', 'extern_weak'):
                    external = True
                c.next()
                if c.at('('):
                    c.next()
                    c._skip_balanced_rest(')')
            else:
                break
        k, v = c.next()
        if v not in ('global', 'constant'):
            if v == 'alias':
                raise ParseError('alias not supported: ' + ln[:100])
            raise ParseError('global syntax: ' + ln[:200])
        const = v == 'constant'
        ty = c.type()
        init = None
        if not external and not c.eof() and not c.at(','):
            init = c.value(ty)
        self.globals[name] = Global(name, ty, init, const, self._unit, external)

    def _function(self, header, body):
        c = Cursor(tokenize(header), self, header)
        c.expect('define')
        internal = False
        while True:
            k, v = c.peek()
            if k == 'word' and (v in LINKAGE or v in CCONV or v in PARAM_ATTRS):
                internal |= v in ('internal', 'private')
                c.next()
            elif k == 'word' and v in ('align', 'dereferenceable', 'dereferenceable_or_null'):
                c.skip_param_attrs()
            else:
                break
        ret = c.type()
        name = self._sym(c.next()[1][1:].strip('"'))
        c.expect('(')
        params = []
        vararg = False
        if not c.accept(')'):
            while True:
                if c.peek()[0] == 'dots':
                    c.next()
                    vararg = True
                else:
                    t = c.type()
                    c.skip_param_attrs()
                    pn = c.next()[1][1:].strip('"')
                    params.append((t, pn))
                if c.accept(')'):
                    break
                c.expect(',')
        f = Function(name, ret, params, vararg, internal)
        f.unit = self._unit
        # first block label: clang numbers it after the params when unnamed
        label = str(len(params)) if all(p[1].isdigit() for p in params) else 'entry'
        # if the first body line is a label, use that instead
        cur = None
        j = 0
        nb = len(body)
        while j < nb:
            ln = body[j]
            j += 1
            s = ln.strip()
            if not s or s[0] == ';':
                continue
            m = re.match(r'^((?:"[^"]*"|[-a-zA-Z$._0-9]+)):', ln)
            if m and not ln.startswith(' '):
                label = m.group(1).strip('"')
                cur = None
                if label in f.blocks:
                    raise ParseError('duplicate label')
                f.blocks[label] = cur = []
                f.order.append(label)
                continue
            if cur is None:
                f.blocks[label] = cur = []
                f.order.append(label)
            # multi-line switch
            if s.startswith('switch ') and s.endswith('['):
                while not body[j].strip().startswith(']'):
                    s += ' ' + body[j].strip()
                    j += 1
                s += ' ]'
                j += 1
            ins = self._instruction(s)
            ins.fn = name
            ins.idx = len(cur)
            cur.append(ins)
        # the implicit entry label for phi references
        self.functions[name] = f

    def _cut_metadata(self, toks):
        depth = 0
        for i, (k, v) in enumerate(toks):
            if k == 'p' and v in '([{<':
                depth += 1
            elif k == 'p' and v in ')]}>':
                depth -= 1
            elif depth == 0 and k == 'p' and v == ',' and i + 1 < len(toks) and toks[i + 1][0] == 'id' and toks[i + 1][1][0] == '!':
                return toks[:i]
        return toks

    def _instruction(self, s):
        toks = self._cut_metadata(tokenize(s))
        c = Cursor(toks, self, s)
        dest = None
        if c.peek()[0] == 'id' and c.peek(1) == ('p', '='):
            dest = c.next()[1][1:].strip('"')
            c.next()
        op = c.next()[1]
        if op in ('tail', 'musttail', 'notail'):
            op = c.next()[1]
        mk = lambda *a, **k: Ins(*a, text=s, **k)
        if op in BINOPS:
            flags = []
            while c.peek()[1] in ('nuw', 'nsw', 'exact'):
                flags.append(c.next()[1])
            t, a = c.typed_value()
            c.expect(',')
            b = c.value(t)
            for fl in flags:
                self.flag_counts[fl] = self.flag_counts.get(fl, 0) + 1
            return mk(op, dest, t, (a, b), tuple(flags))
        if op in FBINOPS or op == 'fneg':
            while c.peek()[1] in FMF:
                c.next()
            t, a = c.typed_value()
            if op == 'fneg':
                return mk(op, dest, t, (a,))
            c.expect(',')
            b = c.value(t)
            return mk(op, dest, t, (a, b))
        if op in ('icmp', 'fcmp'):
            while c.peek()[1] in FMF:
                c.next()
            pred = c.next()[1]
            t, a = c.typed_value()
            c.expect(',')
            b = c.value(t)
            return mk(op, dest, t, (a, b), extra=pred)
        if op in CASTS:
            t, a = c.typed_value()
            c.expect('to')
            t2 = c.type()
            return mk(op, dest, t2, (a,), extra=t)
        if op == 'select':
            while c.peek()[1] in FMF:
                c.next()
            ct, cv = c.typed_value()
            c.expect(',')
            t, a = c.typed_value()
            c.expect(',')
            t2, b = c.typed_value()
            return mk(op, dest, t, (cv, a, b), extra=ct)
        if op == 'phi':
            while c.peek()[1] in FMF:
                c.next()
            t = c.type()
            inc = {}
            while True:
                c.expect('[')
                v = c.value(t)
                c.expect(',')
                lab = c.next()[1][1:].strip('"')
                c.expect(']')
                inc[lab] = v
                if not c.accept(','):
                    break
            return mk(op, dest, t, inc)
        if op == 'br':
            if c.accept('label'):
                return mk(op, None, None, (c.next()[1][1:].strip('"'),))
            t, cv = c.typed_value()
            c.expect(',')
            c.expect('label')
            l1 = c.next()[1][1:].strip('"')
            c.expect(',')
            c.expect('label')
            l2 = c.next()[1][1:].strip('"')
            return mk(op, None, None, (cv, l1, l2))
        if op == 'switch':
            t, v = c.typed_value()
            c.expect(',')
            c.expect('label')
            dflt = c.next()[1][1:].strip('"')
            c.expect('[')
            cases = []
            while not c.accept(']'):
                ct, cv = c.typed_value()
                c.expect(',')
                c.expect('label')
                cases.append((cv[1], c.next()[1][1:].strip('"')))
            return mk(op, None, t, (v,), extra=(dflt, cases))
        if op == 'ret':
            if c.accept('void'):
                return mk(op, None, None, ())
            t, v = c.typed_value()
            return mk(op, None, t, (v,))
        if op == 'unreachable':
            return mk(op, None, None, ())
        if op == 'load':
            vol = False
            while c.peek()[1] in ('atomic', 'volatile'):
                vol = True
                c.next()
            t = c.type()
            c.expect(',')
            pt, p = c.typed_value()
            return mk(op, dest, t, (p,))
        if op == 'store':
            while c.peek()[1] in ('atomic', 'volatile'):
                c.next()
            t, v = c.typed_value()
            c.expect(',')
            pt, p = c.typed_value()
            return mk(op, None, t, (v, p))
        if op == 'alloca':
            c.accept('inalloca')
            t = c.type()
            cnt = ('c', 1)
            align = 0
            while c.accept(','):
                if c.accept('align'):
                    align = int(c.next()[1])
                elif c.at('addrspace'):
                    c.next()
                    c.expect('(')
                    c.next()
                    c.expect(')')
                else:
                    ct, cnt = c.typed_value()
            return mk(op, dest, t, (cnt,), extra=align)
        if op == 'getelementptr':
            inb = c.accept('inbounds')
            bt = c.type()
            c.expect(',')
            pt, p = c.typed_value()
            idx = []
            while c.accept(','):
                idx.append(c.typed_value())
            return mk(op, dest, bt, (p, idx), ('inbounds',) if inb else ())
        if op == 'call':
            while c.peek()[1] in FMF or c.peek()[1] in CCONV:
                c.next()
            c.skip_param_attrs()
            rt = c.type()     # a function type suffix, if present, is swallowed by type() -> ('fn',)...
            # ... in which case the return type was lost; re-parse conservatively
            if rt == ('fn',) or (rt == PTR and False):
                # "call void (i32, ...) @f(...)": find return type by re-tokenising up to the first '('
                c2 = Cursor(toks, self, s)
                while c2.next()[1] != 'call':
                    pass
                while c2.peek()[1] in FMF or c2.peek()[1] in CCONV:
                    c2.next()
                c2.skip_param_attrs()
                rt = c2._type_no_fn()
            callee = c.value(PTR)
            c.expect('(')
            args = []
            if not c.accept(')'):
                while True:
                    at, av = c.typed_value()
                    args.append((at, av))
                    if c.accept(')'):
                        break
                    c.expect(',')
            return mk(op, dest, rt, (callee, args))
        if op == 'extractvalue':
            t, v = c.typed_value()
            idx = []
            while c.accept(','):
                idx.append(int(c.next()[1]))
            return mk(op, dest, t, (v,), extra=idx)
        if op == 'insertvalue':
            t, v = c.typed_value()
            c.expect(',')
            et, e = c.typed_value()
            idx = []
            while c.accept(','):
                idx.append(int(c.next()[1]))
            return mk(op, dest, t, (v, e), extra=(et, idx))
        if op == 'freeze':
            t, v = c.typed_value()
            return mk(op, dest, t, (v,))
        return mk('unsupported:' + op, dest, None, ())

    # ------------------------------------------------------------------ layout (x86-64 SysV)
    def resolve(self, t):
        while t[0] == 'n':
            t = self.types[t[1]]
        return t

    def sizeof(self, t):
        r = self._size_cache.get(t)
        if r is None:
            r = self._layout(t)
            self._size_cache[t] = r
        return r[0]

    def alignof(self, t):
        self.sizeof(t)
        return self._size_cache[t][1]

    def field_offsets(self, t):
        self.sizeof(t)
        return self._size_cache[t][2]

    def _layout(self, t):
        k = t[0]
        if k == 'i':
            b = t[1]
            sz = 1 if b <= 8 else 2 if b <= 16 else 4 if b <= 32 else 8 if b <= 64 else 16
            return (sz, sz, None)
        if k == 'f':
            return {16: (2, 2, None), 32: (4, 4, None), 64: (8, 8, None), 80: (16, 16, None), 128: (16, 16, None)}[t[1]]
        if k in ('p', 'fn'):
            return (8, 8, None)
        if k == 'n':
            r = self.types.get(t[1])
            if r is None or r == ('opaque',):
                raise ParseError('size of opaque type %s' % t[1])
            self.sizeof(r)
            return self._size_cache[r]
        if k == 'a':
            return (t[1] * self.sizeof(t[2]), self.alignof(t[2]), None)
        if k == 'vec':
            sz = t[1] * self.sizeof(t[2])
            return (sz, sz, None)
        if k == 's':
            off = 0
            al = 1
            offs = []
            for f in t[1]:
                fs = self.sizeof(f)
                fa = 1 if t[2] else self.alignof(f)
                off = (off + fa - 1) // fa * fa
                offs.append(off)
                off += fs
                al = max(al, fa)
            off = (off + al - 1) // al * al
            return (off, al, tuple(offs))
        if k == 'v':
            return (0, 1, None)
        raise ParseError('layout of %r' % (t,))


def _type_no_fn(self):
    """Parse a type but stop before a function-type parameter list."""
    save = Cursor._looks_like_fnty
    Cursor._looks_like_fnty = lambda s: False
    try:
        return self.type()
    finally:
        Cursor._looks_like_fnty = save


Cursor._type_no_fn = _type_no_fn
