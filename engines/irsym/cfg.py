"""CFG helpers: immediate post-dominators and 'simple region' test used for state merging at join points."""

EXIT = '<exit>'


def successors(f):
    succ = {}
    for lab, blk in f.blocks.items():
        t = blk[-1]
        if t.op == 'br':
            succ[lab] = [t.a[0]] if len(t.a) == 1 else [t.a[1], t.a[2]]
        elif t.op == 'switch':
            s = [t.extra[0]] + [l for _, l in t.extra[1]]
            succ[lab] = list(dict.fromkeys(s))
        else:
            succ[lab] = [EXIT]
    succ[EXIT] = []
    return succ


def ipdoms(f):
    """label -> immediate post-dominator label (EXIT for none)."""
    r = getattr(f, '_ipdom', None)
    if r is not None:
        return r
    succ = successors(f)
    nodes = list(f.order) + [EXIT]
    full = set(nodes)
    pdom = {n: set(full) for n in nodes}
    pdom[EXIT] = {EXIT}
    changed = True
    while changed:
        changed = False
        for n in reversed(f.order):
            ss = succ[n]
            new = set.intersection(*[pdom[s] for s in ss]) if ss else set()
            new = new | {n}
            if new != pdom[n]:
                pdom[n] = new
                changed = True
    ip = {}
    for n in f.order:
        cands = pdom[n] - {n}
        # the immediate one is the candidate that every other candidate post-dominates
        best = None
        for c in cands:
            if all(o in pdom[c] for o in cands):
                best = c
                break
        ip[n] = best or EXIT
    f._ipdom = ip
    f._succ = succ
    return ip


def simple_region(f, start, join, allowed_call):
    """Blocks reachable from the successors of `start` without passing `join` form an acyclic region free of calls
    (other than those `allowed_call` accepts), returns and allocas.  Result cached per (start)."""
    cache = f.__dict__.setdefault('_simple', {})
    if start in cache:
        return cache[start]
    ipdoms(f)
    succ = f._succ
    ok = True
    if join == EXIT:
        ok = False
    seen = set()
    onstack = set()

    def dfs(n):
        nonlocal ok
        if not ok or n == join:
            return
        if n == EXIT or n == start or n in onstack:
            ok = False
            return
        if n in seen:
            return
        seen.add(n)
        onstack.add(n)
        for ins in f.blocks[n]:
            if ins.op == 'call' and not allowed_call(ins):
                ok = False
            elif ins.op in ('alloca', 'ret', 'unreachable') or ins.op.startswith('unsupported'):
                ok = False
        for s in succ[n]:
            dfs(s)
        onstack.discard(n)
    if ok:
        for s in succ[start]:
            dfs(s)
    if len(seen) > 64:
        ok = False
    cache[start] = ok
    return ok


def reg_bits(f, m):
    """register name -> bit width (None for aggregates)"""
    r = getattr(f, '_regbits', None)
    if r is not None:
        return r
    r = {}
    for (t, n) in f.params:
        r[n] = _bits(t)
    for blk in f.blocks.values():
        for ins in blk:
            if ins.dest is None:
                continue
            if ins.op in ('icmp', 'fcmp'):
                r[ins.dest] = 1
            elif ins.op in ('getelementptr', 'alloca'):
                r[ins.dest] = 64
            elif ins.op == 'extractvalue':
                r[ins.dest] = None
            else:
                r[ins.dest] = _bits(ins.ty) if ins.ty else None
    f._regbits = r
    return r


def _bits(t):
    if t[0] in ('i', 'f'):
        return t[1]
    if t[0] in ('p', 'fn'):
        return 64
    return None
