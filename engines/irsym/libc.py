"""Python stubs for external C functions, written from their contracts (C11 / POSIX).

Discipline: a stub takes all its decisions (`ex.decide`, `ex.concretize`: both may fork and then the *other* side
re-executes the call instruction from scratch) before it mutates memory.

Simplifications (also listed in README.md):
  * malloc/calloc/realloc never fail (Orc's orc_malloc aborts on NULL anyway); size 0 gives a unique 0-byte object.
  * every allocation gets a fresh address, addresses are never reused (so use-after-free is always detected).
  * heap memory from malloc/realloc is 'uninit' (reads give fresh symbols `uninit_<obj>_<off>` and are recorded).
  * string functions walk bytes; a symbolic byte forks on "== 0" / "equal to the other byte".
  * sprintf/snprintf implement %d %i %u %x %X %c %s %p %ld %lu %lld %llu %% with concrete arguments only.
"""
import z3
from .values import bvval, simp, mask, tobv, to_signed
from .memory import MemFault
from . import executor as E


def install(ex):
    ex.stubs.update(STUBS)


# ---------------------------------------------------------------------------------------------- math
def _sqrt(ex, st, a, fr, ins):
    return ex.fp.sqrt(a[0], 64)


def _sqrtf(ex, st, a, fr, ins):
    return ex.fp.sqrt(a[0], 32)


def _fabs(ex, st, a, fr, ins):
    return ex.fp.fabs(a[0], 64)


def _fabsf(ex, st, a, fr, ins):
    return ex.fp.fabs(a[0], 32)


# ---------------------------------------------------------------------------------------------- helpers
def _where(fr, ins):
    return (fr.fn.name, fr.label, ins.idx)


def _conc(ex, st, v, what):
    return v if type(v) is int else ex.concretize(st, v, what)


def _byte(ex, st, addr, fr, ins):
    b = st.mem.load(addr, 1, _where(fr, ins))
    return b if type(b) is int else simp(b)


def _strlen(ex, st, p, fr, ins, limit=1 << 16, maxn=None):
    """length of the string at concrete address p; forks on symbolic bytes. maxn: stop after maxn bytes (strnlen)."""
    n = 0
    while True:
        if maxn is not None and n >= maxn:
            return n
        b = _byte(ex, st, (p + n) & mask(64), fr, ins)
        if type(b) is int:
            if b == 0:
                return n
        elif ex.decide(st, b == bvval(0, 8)):
            return n
        n += 1
        if n > limit:
            raise E.StepBound('strlen beyond %d bytes' % limit)


# ---------------------------------------------------------------------------------------------- allocation
def _malloc(ex, st, a, fr, ins, zero=False, name='heap'):
    n = _conc(ex, st, a[0], 'malloc size')
    ex.layout.counter += 1
    o = st.mem.new('%s%d' % (name, ex.layout.counter), n, kind='heap', init='zero' if zero else 'sym', align=16)
    if not zero:
        o.default = 'uninit'
    return o.base


def _calloc(ex, st, a, fr, ins):
    n = _conc(ex, st, a[0], 'calloc nmemb')
    m = _conc(ex, st, a[1], 'calloc size')
    if n * m >= 1 << 64:
        return 0
    return _malloc(ex, st, [n * m], fr, ins, zero=True)


def _heap_obj(st, p, what, fr, ins):
    o = st.mem.find(p)
    if o is None or o.kind != 'heap' or o.base != p:
        raise MemFault('%s of 0x%x which is not the start of a heap object' % (what, p), p, 0, what, _where(fr, ins))
    if not o.live:
        raise MemFault('%s of already freed object %s (freed at %s)' % (what, o.name, o.freed_at), p, 0, what, _where(fr, ins))
    return o


def _free(ex, st, a, fr, ins):
    p = _conc(ex, st, a[0], 'free pointer')
    if p == 0:
        return None
    o = _heap_obj(st, p, 'free', fr, ins)
    st.mem.kill(o.base, '%s:%s#%d' % _where(fr, ins))
    return None


def _realloc(ex, st, a, fr, ins):
    p = _conc(ex, st, a[0], 'realloc pointer')
    n = _conc(ex, st, a[1], 'realloc size')
    if p == 0:
        return _malloc(ex, st, [n], fr, ins)
    o = _heap_obj(st, p, 'realloc', fr, ins)
    q = _malloc(ex, st, [n], fr, ins)
    k = min(o.size, n)
    log, st.mem.log = st.mem.log, None
    try:
        st.mem.copy(q, p, k, _where(fr, ins))
    finally:
        st.mem.log = log
    st.mem.kill(o.base, 'realloc at %s:%s#%d' % _where(fr, ins))
    return q


def _posix_memalign(ex, st, a, fr, ins):
    pp = _conc(ex, st, a[0], 'posix_memalign out pointer')
    q = _malloc(ex, st, [a[2]], fr, ins)
    st.mem.store(pp, q, 8, _where(fr, ins))
    return 0


# ---------------------------------------------------------------------------------------------- mem*/str*
def _memset(ex, st, a, fr, ins):
    n = _conc(ex, st, a[2], 'memset length')
    d = _conc(ex, st, a[0], 'memset pointer')
    b = a[1]
    b = (b & 0xff) if type(b) is int else simp(z3.Extract(7, 0, b))
    st.mem.fill(d, b, n, _where(fr, ins))
    return d


def _memcpy(ex, st, a, fr, ins):
    n = _conc(ex, st, a[2], 'memcpy length')
    d = _conc(ex, st, a[0], 'memcpy dest')
    s = _conc(ex, st, a[1], 'memcpy src')
    if n and not (d + n <= s or s + n <= d):
        ex.note_ub(st, fr, ins, 'overlap', True, 'memcpy with overlapping ranges')
    st.mem.copy(d, s, n, _where(fr, ins))
    return d


def _memmove(ex, st, a, fr, ins):
    n = _conc(ex, st, a[2], 'memmove length')
    d = _conc(ex, st, a[0], 'memmove dest')
    s = _conc(ex, st, a[1], 'memmove src')
    st.mem.copy(d, s, n, _where(fr, ins))
    return d


def _strlen_stub(ex, st, a, fr, ins):
    return _strlen(ex, st, _conc(ex, st, a[0], 'strlen pointer'), fr, ins)


def _cmp(ex, st, a, fr, ins, maxn=None):
    p = _conc(ex, st, a[0], 'strcmp pointer')
    q = _conc(ex, st, a[1], 'strcmp pointer')
    i = 0
    while True:
        if maxn is not None and i >= maxn:
            return 0
        x = _byte(ex, st, (p + i) & mask(64), fr, ins)
        y = _byte(ex, st, (q + i) & mask(64), fr, ins)
        if type(x) is int and type(y) is int:
            if x != y:
                return 1 if x > y else mask(32)
            if x == 0:
                return 0
        else:
            xb, yb = tobv(x, 8), tobv(y, 8)
            if ex.decide(st, xb != yb):
                return 1 if ex.decide(st, z3.UGT(xb, yb)) else mask(32)
            if ex.decide(st, xb == bvval(0, 8)):
                return 0
        i += 1
        if i > 1 << 16:
            raise E.StepBound('strcmp beyond 65536 bytes')


def _strcmp(ex, st, a, fr, ins):
    return _cmp(ex, st, a, fr, ins)


def _strncmp(ex, st, a, fr, ins):
    return _cmp(ex, st, a, fr, ins, _conc(ex, st, a[2], 'strncmp length'))


def _strcpy(ex, st, a, fr, ins):
    d = _conc(ex, st, a[0], 'strcpy dest')
    s = _conc(ex, st, a[1], 'strcpy src')
    n = _strlen(ex, st, s, fr, ins)
    st.mem.copy(d, s, n + 1, _where(fr, ins))
    return d


def _strncpy(ex, st, a, fr, ins):
    d = _conc(ex, st, a[0], 'strncpy dest')
    s = _conc(ex, st, a[1], 'strncpy src')
    n = _conc(ex, st, a[2], 'strncpy length')
    k = _strlen(ex, st, s, fr, ins, maxn=n)
    st.mem.copy(d, s, k, _where(fr, ins))
    if n > k:
        st.mem.fill(d + k, 0, n - k, _where(fr, ins))
    return d


def _strdup(ex, st, a, fr, ins):
    s = _conc(ex, st, a[0], 'strdup pointer')
    n = _strlen(ex, st, s, fr, ins)
    q = _malloc(ex, st, [n + 1], fr, ins, name='str')
    st.mem.copy(q, s, n + 1, _where(fr, ins))
    return q


def _vasprintf(ex, st, a, fr, ins):
    """vasprintf(&s, fmt, ap): formatting is not the subject - produce the one-character string "?" (contract: *strp is a
    fresh heap string, return value = its length)"""
    strp = _conc(ex, st, a[0], 'vasprintf strp')
    q = _malloc(ex, st, [2], fr, ins, name='str')
    st.mem.store(q, 0x003f, 2, _where(fr, ins))
    st.mem.store(strp, q, 8, _where(fr, ins))
    return 1


def _strchr(ex, st, a, fr, ins):
    p = _conc(ex, st, a[0], 'strchr pointer')
    c = a[1]
    c = (c & 0xff) if type(c) is int else simp(z3.Extract(7, 0, c))
    i = 0
    while True:
        b = _byte(ex, st, (p + i) & mask(64), fr, ins)
        if type(b) is int and type(c) is int:
            if b == c:
                return p + i
            if b == 0:
                return 0
        else:
            if ex.decide(st, tobv(b, 8) == tobv(c, 8)):
                return p + i
            if ex.decide(st, tobv(b, 8) == bvval(0, 8)):
                return 0
        i += 1
        if i > 1 << 16:
            raise E.StepBound('strchr beyond 65536 bytes')


def _strstr(ex, st, a, fr, ins):
    p = _conc(ex, st, a[0], 'strstr pointer')
    q = _conc(ex, st, a[1], 'strstr pointer')
    h = st.mem.cstring(p)
    n = st.mem.cstring(q)
    i = h.find(n)
    return 0 if i < 0 else p + i


# ---------------------------------------------------------------------------------------------- stdio
def _format(ex, st, fmt, args):
    out = bytearray()
    i = 0
    ai = 0
    while i < len(fmt):
        c = fmt[i:i + 1]
        if c != b'%':
            out += c
            i += 1
            continue
        i += 1
        spec = b''
        while i < len(fmt) and fmt[i:i + 1] in b'0123456789-+ #.lhzjt':
            spec += fmt[i:i + 1]
            i += 1
        conv = fmt[i:i + 1]
        i += 1
        if conv == b'%':
            out += b'%'
            continue
        v = args[ai] if ai < len(args) else 0
        ai += 1
        if type(v) is not int:
            v = simp(v)
            if type(v) is not int:
                raise E.Unsupported('printf-style formatting of a symbolic value')
        long_ = b'l' in spec or b'z' in spec or b'j' in spec
        flags = spec.replace(b'l', b'').replace(b'h', b'').replace(b'z', b'').replace(b'j', b'').decode()
        if conv in b'di':
            s = ('%' + flags + 'd') % to_signed(v & mask(64 if long_ else 32), 64 if long_ else 32)
        elif conv in b'uxX':
            s = ('%' + flags + conv.decode()) % (v & mask(64 if long_ else 32))
        elif conv == b'c':
            s = chr(v & 0xff)
        elif conv == b'p':
            s = '0x%x' % v if v else '(nil)'
        elif conv == b's':
            s = st.mem.cstring(v).decode('latin-1') if v else '(null)'
            s = ('%' + flags + 's') % s
        else:
            raise E.Unsupported('printf conversion %%%s' % conv.decode())
        out += s.encode('latin-1')
    return bytes(out)


def _sprintf(ex, st, a, fr, ins):
    d = _conc(ex, st, a[0], 'sprintf dest')
    fmt = st.mem.cstring(_conc(ex, st, a[1], 'format'))
    s = _format(ex, st, fmt, a[2:])
    for i, b in enumerate(s + b'\0'):
        st.mem.store(d + i, b, 1, _where(fr, ins))
    return len(s)


def _snprintf(ex, st, a, fr, ins):
    d = _conc(ex, st, a[0], 'snprintf dest')
    n = _conc(ex, st, a[1], 'snprintf size')
    fmt = st.mem.cstring(_conc(ex, st, a[2], 'format'))
    s = _format(ex, st, fmt, a[3:])
    if n:
        t = s[:n - 1] + b'\0'
        for i, b in enumerate(t):
            st.mem.store(d + i, b, 1, _where(fr, ins))
    return len(s)


# ---------------------------------------------------------------------------------------------- process
def _abort(ex, st, a, fr, ins):
    raise E._PathEnd('aborted', None, 'abort() called in %s' % fr.fn.name)


def _exit(ex, st, a, fr, ins):
    raise E._PathEnd('aborted', a[0] if a else None, 'exit() called in %s' % fr.fn.name)


def _noop(ex, st, a, fr, ins):
    return 0


def _null(ex, st, a, fr, ins):
    return 0


STUBS = {
    'sqrt': _sqrt, 'sqrtf': _sqrtf, 'fabs': _fabs, 'fabsf': _fabsf,
    'malloc': _malloc, 'calloc': _calloc, 'realloc': _realloc, 'free': _free, 'posix_memalign': _posix_memalign,
    'memset': _memset, 'memcpy': _memcpy, 'memmove': _memmove,
    'strlen': _strlen_stub, 'strcmp': _strcmp, 'strncmp': _strncmp, 'strcpy': _strcpy, 'strncpy': _strncpy,
    'strdup': _strdup, 'vasprintf': _vasprintf, 'strchr': _strchr, 'strstr': _strstr,
    'sprintf': _sprintf, 'snprintf': _snprintf,
    'abort': _abort, 'exit': _exit, '_exit': _exit,
    'orc_debug_print': _noop, 'orc_init': _noop, 'getenv': _null,
}
