"""CBMC job runner.  One job = one harness function x one -D configuration.

Every harness ends in V_WITNESS() (an always-false assertion named "WITNESS reachable").  A single
CBMC run decides all real obligations and the witness together: the job is `held` only if every real
obligation is SUCCESS *and* the witness is FAILURE (the end of the harness is reachable, so the
assumptions are satisfiable and the assertions were not vacuous)."""
import os, re, time, json
from .common import run, pool_map, VERIF

BASE_FLAGS = ['--unwinding-assertions', '--drop-unused-functions', '--pointer-overflow-check',
              '--signed-overflow-check', '--undefined-shift-check', '--conversion-check', '--no-malloc-may-fail',
              '--no-standard-checks', '--bounds-check', '--pointer-check', '--div-by-zero-check',
              '--pointer-primitive-check', '--malloc-fail-null']
# --no-standard-checks + explicit list keeps the set of checks stable and explicit.
BASE_FLAGS = ['--unwinding-assertions', '--drop-unused-functions', '--pointer-overflow-check',
              '--signed-overflow-check', '--undefined-shift-check', '--bounds-check', '--pointer-check',
              '--div-by-zero-check', '--pointer-primitive-check']

WITNESS = 'WITNESS reachable'


class Job:
    def __init__(self, name, sources, function, defs=(), unwind=None, unwindset=(), flags=(), timeout=120,
                 mem_gb=8, malloc_may_fail=False, object_bits=None, depth=None, drop=(), funcs=(), nontrivial=True,
                 no_flags=(), ub_notes=()):
        self.name = name
        self.sources = list(sources)
        self.function = function
        self.defs = list(defs)
        self.unwind = unwind
        self.unwindset = list(unwindset)
        self.flags = list(flags)
        self.timeout = timeout
        self.mem_gb = mem_gb
        self.malloc_may_fail = malloc_may_fail
        self.object_bits = object_bits
        self.depth = depth
        self.funcs = list(funcs)      # real functions this harness encodes (evidence)
        self.no_flags = set(no_flags)
        self.ub_notes = list(ub_notes)   # regexes on 'func|desc': standard-level UB the host gives a benign meaning to -> UB-NOTE, no verdict effect


RE_RES = re.compile(r'^\[(?P<id>[^\]]+)\]\s+(?:line (?P<line>\d+)\s+)?(?P<desc>.*):\s+(?P<st>SUCCESS|FAILURE|UNKNOWN)$')


def parse(out):
    props = []
    cur_file = cur_func = None
    for line in out.splitlines():
        m = re.match(r'^(\S.*) function (\S+)$', line)
        if m:
            cur_file, cur_func = m.group(1), m.group(2)
            continue
        m = RE_RES.match(line.strip())
        if m:
            props.append(dict(id=m.group('id'), desc=m.group('desc'), status=m.group('st'), func=cur_func,
                              line=m.group('line'), file=cur_file))
    return props


def run_job(build, job, trace=False):
    t0 = time.time()
    try:
        gb = build.goto(re.sub(r'[^A-Za-z0-9_.-]', '_', job.name), job.sources, job.defs)
    except RuntimeError as e:
        return dict(name=job.name, verdict='inconclusive', why='goto-cc: ' + str(e)[:1500], wall_s=time.time() - t0, failed=[], n_props=0)
    cmd = ['cbmc', gb, '--function', job.function] + [f for f in BASE_FLAGS if f not in job.no_flags] + job.flags
    if not job.malloc_may_fail:
        cmd.append('--no-malloc-may-fail')
    if job.unwind is not None:
        cmd += ['--unwind', str(job.unwind)]
    if job.unwindset:
        cmd += ['--unwindset', ','.join(job.unwindset)]
    if job.object_bits:
        cmd += ['--object-bits', str(job.object_bits)]
    if job.depth:
        cmd += ['--depth', str(job.depth)]
    if trace:
        cmd.append('--trace')
    rc, out, err, wall = run(cmd, timeout=job.timeout, mem_gb=job.mem_gb)
    res = dict(name=job.name, wall_s=round(time.time() - t0, 2), cmd=' '.join(cmd), engine='cbmc', funcs=job.funcs)
    if rc == -9:
        res.update(verdict='inconclusive', why='timeout %ss' % job.timeout, failed=[], n_props=0)
        return res
    props = parse(out)
    m = re.search(r'(\d+) VCC\(s\), (\d+) remaining', out)
    res['vccs'] = int(m.group(1)) if m else 0
    ms = re.findall(r'Runtime (?:Solver|decision procedure): ([0-9.]+)s', out)
    res['solver_s'] = sum(float(x) for x in ms)
    res['n_props'] = len(props)
    res['no_body'] = sorted(set(re.findall(r'no body for (?:function|callee) (\S+)', out + err)))
    if rc not in (0, 10) or not props:
        res.update(verdict='inconclusive', why='cbmc rc=%s: %s' % (rc, (out[-600:] + err[-600:]).replace('\n', ' | ')), failed=[])
        return res
    failed = [p for p in props if p['status'] == 'FAILURE']
    unknown = [p for p in props if p['status'] == 'UNKNOWN']
    wit = [p for p in failed if WITNESS in p['desc']]
    real = [p for p in failed if WITNESS not in p['desc']]
    notes = [p for p in real if any(re.search(rx, '%s|%s' % (p.get('func'), p['desc'])) for rx in job.ub_notes)]
    real = [p for p in real if p not in notes]
    res['ub_notes'] = notes
    res['witness'] = 'reachable' if wit else 'UNREACHABLE'
    res['failed'] = real
    if trace:
        res['trace'] = out
    if real:
        res['verdict'] = 'violated'
    elif unknown:
        res.update(verdict='inconclusive', why='UNKNOWN properties')
    elif not wit:
        res.update(verdict='inconclusive', why='vacuous: witness assertion not reachable')
    else:
        res['verdict'] = 'held'
    return res


def fail_key(jobname, p):
    """Stable identification of a failing obligation: job + function + description (no line numbers)."""
    d = re.sub(r'\s+', ' ', p['desc'])
    return '%s|%s|%s' % (jobname, p.get('func') or '?', d)


def run_jobs(build, jobs, report, workers=None, on_violation=None):
    """Run jobs in parallel, fold the verdicts into the Report.
    on_violation(job, result, failed_prop) -> (reproduced: bool|None, replay_path|None, note)"""
    results = pool_map(lambda j: run_job(build, j), jobs, workers)
    for job, r in zip(jobs, results):
        report.functions.update(job.funcs)
        report.queries += r.get('n_props', 0)
        report.solver_s += r.get('solver_s', 0)
        for p in r.get('ub_notes', []):
            msg = 'UB-NOTE %s: %s in %s' % (job.name, p['desc'], p.get('func'))
            if msg not in report.extra.setdefault('ub_notes', []):
                report.extra['ub_notes'].append(msg)
                print(msg, flush=True)
        for nb in r.get('no_body', []):
            report.assume('function without body treated as returning an arbitrary value: ' + nb)
        if r['verdict'] == 'held':
            report.held(job.name, wall_s=r['wall_s'], n_props=r['n_props'], witness=r.get('witness'), engine='cbmc')
            if len(report.samples) < 12:
                report.samples.append(dict(job=job.name, function=job.function, defs=job.defs, obligations=r['n_props'],
                                           unwind=job.unwind, unwindset=job.unwindset, wall_s=r['wall_s'], witness=r.get('witness')))
        elif r['verdict'] == 'inconclusive':
            report.inconc(job.name, r.get('why', ''), wall_s=r['wall_s'])
        else:
            seen = set()
            tr = None
            for p in r['failed']:
                key = fail_key(job.name, p)
                if key in seen:
                    continue
                seen.add(key)
                what = '%s: %s in %s (%s:%s)' % (job.name, p['desc'], p.get('func'), p.get('file'), p.get('line'))
                if report.match_known(key) is not None:
                    report.violated(key, what, name=job.name, wall_s=r['wall_s'], n_props=r['n_props'])
                    continue
                replay = None
                if on_violation:
                    ok, replay, note = on_violation(job, r, p)
                    if ok is False:
                        report.mismatch(job.name, 'counterexample did not reproduce natively: %s' % note)
                        continue
                    if note:
                        what += ' [' + note + ']'
                if replay is None:
                    if tr is None:
                        tr = run_job(build, job, trace=True)
                    replay = report.write_replay(key, dict(key=key, what=what, cbmc_cmd=tr.get('cmd'), harness=job.sources,
                                                           defs=job.defs, kind='cbmc-trace',
                                                           trace=trace_excerpt(tr.get('trace', ''), p)))
                report.violated(key, what, replay=replay, name=job.name, wall_s=r['wall_s'], n_props=r['n_props'])
    return results


def trace_excerpt(out, p):
    """Keep the trace of the failing property (inputs at the head of the trace are what matters)."""
    marker = 'Trace for ' + p['id']
    i = out.find(marker)
    if i < 0:
        return out[-6000:]
    j = out.find('\nTrace for ', i + 10)
    seg = out[i:j if j > 0 else None]
    return seg[:20000]


def trace_values(trace_text):
    """name -> last assigned value (text) from a CBMC --trace segment."""
    vals = {}
    for m in re.finditer(r'^\s*([A-Za-z_][\w\.\[\]!@#$]*)=(.*?)(?: \([01 ]+\))?$', trace_text, re.M):
        vals[m.group(1)] = m.group(2).strip()
    return vals
