"""Shared plumbing for every check: scratch dirs, job pool, evidence, known findings."""
import atexit, concurrent.futures as cf, json, os, resource, shutil, signal, subprocess, sys, tempfile, time

VERIF = os.path.dirname(os.path.dirname(os.path.abspath(__file__)))
REPO = os.environ.get('ORC_REPO', '/repo')
NCPU = int(os.environ.get('VERIF_JOBS', os.cpu_count() or 4))
GUARD = 'ORC_VERIF'

_scratch = []


def scratch(prefix='orcverif'):
    """Per-run scratch directory outside /repo and /verif, removed at exit."""
    base = os.environ.get('VERIF_SCRATCH', tempfile.gettempdir())
    d = tempfile.mkdtemp(prefix=prefix + '.', dir=base)
    _scratch.append(d)
    return d


def _cleanup():
    if os.environ.get('VERIF_KEEP'):
        return
    for d in _scratch:
        shutil.rmtree(d, ignore_errors=True)


atexit.register(_cleanup)


def tier():
    return os.environ.get('VERIF_TIER', 'quick')


def seed():
    try:
        return int(os.environ.get('VERIF_SEED', '0'))
    except ValueError:
        return 0


def limit_mem(gb):
    def f():
        b = int(gb * (1 << 30))
        resource.setrlimit(resource.RLIMIT_AS, (b, b))
        os.setsid()
    return f


def run(cmd, timeout=None, cwd=None, mem_gb=None, env=None, input=None):
    """Run a command; returns (rc, stdout, stderr, wall_s). rc=-9 on timeout."""
    t0 = time.time()
    try:
        p = subprocess.Popen(cmd, cwd=cwd, stdout=subprocess.PIPE, stderr=subprocess.PIPE,
                             stdin=subprocess.PIPE if input is not None else subprocess.DEVNULL,
                             text=True, env=env, preexec_fn=limit_mem(mem_gb) if mem_gb else os.setsid)
        try:
            out, err = p.communicate(input=input, timeout=timeout)
            rc = p.returncode
        except subprocess.TimeoutExpired:
            try:
                os.killpg(p.pid, signal.SIGKILL)
            except ProcessLookupError:
                pass
            out, err = p.communicate()
            rc = -9
    except OSError as e:
        return 127, '', str(e), time.time() - t0
    return rc, out, err, time.time() - t0


def pool_map(fn, items, workers=None):
    """Run fn over items on a thread pool (jobs are subprocesses); preserves order."""
    workers = workers or NCPU
    with cf.ThreadPoolExecutor(max_workers=workers) as ex:
        return list(ex.map(fn, items))


def proc_map(fn, items, workers=None):
    """Process pool for CPU-bound Python (z3) jobs. fn must be picklable (module-level)."""
    workers = workers or NCPU
    if workers <= 1 or len(items) <= 1:
        return [fn(i) for i in items]
    with cf.ProcessPoolExecutor(max_workers=workers) as ex:
        return list(ex.map(fn, items, chunksize=1))


# ---------------------------------------------------------------- known findings
def known_findings(prop):
    p = os.path.join(VERIF, 'known_findings.json')
    if not os.path.exists(p):
        return []
    return [e for e in json.load(open(p)) if e.get('property') == prop]


class Report:
    """Collects verdicts of one check run, prints the interface lines and writes evidence."""

    def __init__(self, prop, level):
        self.prop = prop
        self.level = level
        self.t0 = time.time()
        self.jobs = []          # dicts: name, verdict in {held, violated, inconclusive, known}, ...
        self.violations = []    # (key, what, replay_path)
        self.known_hit = []
        self.inconclusive = []
        self.encoder_mismatch = []
        self.assumptions = []
        self.functions = set()
        self.bounds = {}
        self.extra = {}
        self.samples = []
        self.solver_s = 0.0
        self.queries = 0
        self.known = {e['key']: e for e in known_findings(prop) if e.get('status') == 'known'}

    def match_known(self, key):
        """exact key, or a known entry whose key starts with 're:' (a regular expression identifying the failing
        call-site family, e.g. target + missing feature flag + ISA class)"""
        import re
        if key in self.known:
            return key
        for k in self.known:
            if k.startswith('re:') and re.search(k[3:], key):
                return k
        return None

    def assume(self, *a):
        for x in a:
            if x not in self.assumptions:
                self.assumptions.append(x)

    def held(self, name, **kw):
        self.jobs.append(dict(name=name, verdict='held', **kw))

    def inconc(self, name, why='', **kw):
        self.jobs.append(dict(name=name, verdict='inconclusive', why=why, **kw))
        self.inconclusive.append(name)
        print('INCONCLUSIVE %s %s' % (name, why), flush=True)

    def mismatch(self, name, why=''):
        self.jobs.append(dict(name=name, verdict='encoder-mismatch', why=why))
        self.encoder_mismatch.append(name)
        print('ENCODER-MISMATCH %s %s' % (name, why), flush=True)

    def violated(self, key, what, replay=None, name=None, **kw):
        """A reproduced violation. key identifies the failing obligation for known-findings matching."""
        kk = self.match_known(key)
        if kk is not None:
            if kk not in self.known_hit:
                self.known_hit.append(kk)
                print('KNOWN-FINDING: property=%s %s' % (self.prop, self.known[kk]['what']), flush=True)
            self.jobs.append(dict(name=name or key, verdict='known', key=key, **kw))
            return False
        path = replay or self.write_replay(key, dict(key=key, what=what))
        self.violations.append((key, what, path))
        self.jobs.append(dict(name=name or key, verdict='violated', key=key, what=what, **kw))
        print('VIOLATION property=%s replay=%s' % (self.prop, path), flush=True)
        print('  what: %s' % what, flush=True)
        return True

    def write_replay(self, key, obj):
        d = os.path.join(VERIF, 'replays', self.prop)
        os.makedirs(d, exist_ok=True)
        safe = ''.join(c if c.isalnum() or c in '-_.' else '_' for c in key)[:120]
        path = os.path.join(d, safe + '.json')
        obj = dict(obj)
        obj.setdefault('property', self.prop)
        json.dump(obj, open(path, 'w'), indent=1, default=str)
        return path

    def finish(self, coverage_extra=None):
        wall = time.time() - self.t0
        n = len(self.jobs)
        decided = [j for j in self.jobs if j['verdict'] in ('held', 'violated', 'known')]
        nontriv = [j for j in decided if j.get('nontrivial', True)]
        cov = dict(
            evaluations=max(n, 0),
            distinct_nontrivial=len({j['name'] for j in nontriv}),
            rule=self.extra.pop('rule', 'one job per harness x configuration; non-trivial = reachability witness twin FAILED (assertion reachable) or path set non-empty'),
            samples=self.samples[:12] or [j for j in self.jobs[:6]],
            functions_encoded=sorted(self.functions),
            bounds=self.bounds,
            queries_discharged=self.queries,
            solver_time_s=round(self.solver_s, 2),
            inconclusive=self.inconclusive,
            known_findings_reproduced=self.known_hit,
            jobs=[{k: v for k, v in j.items() if k in ('name', 'verdict', 'wall_s', 'engine', 'witness', 'why', 'key', 'n_props')} for j in self.jobs][:400],
        )
        if self.level == 'model_checking':
            cov['states'] = max(1, sum(j.get('n_props', 1) for j in decided))
            cov['transitions'] = max(1, len(decided))
            cov['traces_validated_against_impl'] = self.extra.pop('traces_validated', 0)
            cov['explanation_states'] = 'states = verification conditions (property instances) decided by the solver; transitions = harness jobs decided'
        if self.level == 'translation_validation':
            cov['programs'] = self.extra.pop('programs', max(1, len(decided)))
            cov['disagreements_checked'] = self.extra.pop('disagreements_checked', len(self.violations) + len(self.known_hit))
        cov.update(self.extra)
        if coverage_extra:
            cov.update(coverage_extra)
        ev = dict(property_id=self.prop, tier=tier(), seed=seed(), level=self.level, coverage=cov,
                  assumptions=self.assumptions, wall_s=round(wall, 2), violations=len(self.violations))
        # runs against another tree (ORC_REPO: seeded changes in a scratch worktree) must not overwrite the evidence of /repo
        evdir = os.environ.get('VERIF_EVIDENCE_DIR') or (os.path.join(VERIF, 'evidence') if not os.environ.get('ORC_REPO') else os.path.join('/tmp', 'orcverif-evidence-other-tree'))
        os.makedirs(evdir, exist_ok=True)
        json.dump(ev, open(os.path.join(evdir, self.prop + '.json'), 'w'), indent=1, default=str)
        print('SUMMARY property=%s tier=%s jobs=%d held=%d known=%d violated=%d inconclusive=%d mismatch=%d wall=%.1fs' % (
            self.prop, tier(), n, sum(j['verdict'] == 'held' for j in self.jobs), len(self.known_hit),
            len(self.violations), len(self.inconclusive), len(self.encoder_mismatch), wall), flush=True)
        if self.violations:
            return 1
        if self.encoder_mismatch:
            return 2
        if n == 0:
            print('BROKEN: no job ran')
            return 2
        if len(self.inconclusive) > max(0, 0.02 * n) and len(self.inconclusive) > int(os.environ.get('VERIF_MAX_INCONC', '0')):
            print('BROKEN: %d of %d jobs inconclusive (limit 2%%)' % (len(self.inconclusive), n))
            return 2
        return 0
