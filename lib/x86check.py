"""One (program, target, flags) through the x86 machine-code executor, with all obligations of C01/C03/C10/C11/C18b
derived from the same set of symbolic paths.  Results are plain dicts (JSON-able) so they can be cached and shared.

Obligations per feasible path (the path condition pins n; that is checked by a solver query):
  C01  every destination element i<n of every row == oracle term; bytes outside stay their initial symbols; accumulators
  C03  every array access lies inside the entitlement of its array (derived from the opcode definitions via the oracle's
       read set); aligned-only instructions have aligned addresses; no store to a source
  C10  callee-saved GPRs, rsp, caller stack, DF, MXCSR (for every entry value), MMX state; stores only to dest arrays,
       the executor and the own stack frame
  C11  no instruction outside the ISA classes the target flags allow is reached (explore(allowed_isa=...))
"""
import hashlib, json, os, re, time, traceback
import z3
from engines.x86sym import decode, explore, Unmodelled, Fault
from engines.x86sym import orcentry
from engines.x86sym.machine import byte_name
from engines import oracle as oracle_mod

ENGINE_VERSION = 'x86check-10'
FP_VERSION = 'fp-11'          # float data path (classification of flush-to-zero disagreements): only results computed with fp_data depend on it
CALLEE_SAVED = ('rbx', 'rbp', 'r12', 'r13', 'r14', 'r15')

SSE_BITS = {'sse2': 1, 'sse3': 2, 'ssse3': 4, 'sse4.1': 8, 'sse4.2': 16, 'avx': 1 << 10, 'avx2': 1 << 11}
MMX_BITS = {'mmx': 1, 'mmxext': 2, 'ssse3': 16, 'sse4.1': 32}


def allowed_isa(target, flags):
    a = {'base'}
    if target == 'mmx':
        for k, b in MMX_BITS.items():
            if flags & b:
                a.add(k)
        if flags & 2:
            a.add('sse')        # "MMX extensions" = the integer SSE instructions on MMX registers
    else:
        a |= {'sse', 'sse2'}
        for k, b in SSE_BITS.items():
            if flags & b:
                a.add(k)
        a.add('mmx') if False else None
    return a


def _vars_in(t, acc):
    stack = [t]
    seen = set()
    while stack:
        x = stack.pop()
        i = x.get_id()
        if i in seen:
            continue
        seen.add(i)
        if z3.is_const(x) and x.decl().kind() == z3.Z3_OP_UNINTERPRETED:
            acc[x.decl().name()] = x
        else:
            stack.extend(x.children())
    return acc


RE_BYTE = re.compile(r'^(\w+?)(?:_r(\d+))?_b(m?)(\d+)$')


class Canon(object):
    """Renames array-byte symbols relative to an element index so that the same per-lane obligation is decided once."""

    def __init__(self, sizes):
        self.sizes = sizes        # region name -> element size
        self.cache = {}

    def canon(self, terms, idx):
        vs = {}
        for t in terms:
            _vars_in(t, vs)
        sub = []
        for name, v in vs.items():
            m = RE_BYTE.match(name)
            if not m or m.group(1) not in self.sizes:
                continue
            off = int(m.group(4)) * (-1 if m.group(3) else 1)
            rel = off - idx * self.sizes[m.group(1)]
            sub.append((v, z3.BitVec('c_%s_%s%d' % (m.group(1), 'm' if rel < 0 else '', abs(rel)), 8)))
        if not sub:
            return terms
        return [z3.substitute(t, *sub) for t in terms]


def _rw(t, memo):
    """Bottom-up rewrite: ashr/lshr of concat(hi, lo) by size(lo) -> sign/zero extension of hi (what punpck+psra does)."""
    i = t.get_id()
    r = memo.get(i)
    if r is not None:
        return r
    if t.num_args() == 0:
        memo[i] = t
        return t
    ch = [_rw(c, memo) for c in t.children()]
    k = t.decl().kind()
    out = None
    if k in (z3.Z3_OP_BASHR, z3.Z3_OP_BLSHR) and z3.is_bv_value(ch[1]) and z3.is_app_of(ch[0], z3.Z3_OP_CONCAT):
        sh = ch[1].as_long()
        parts = ch[0].children()
        low = 0
        j = len(parts)
        while j > 0 and low < sh:
            j -= 1
            low += parts[j].size()
        if low == sh and j > 0:
            hi_ = parts[0] if j == 1 else z3.Concat(*parts[:j])
            out = z3.SignExt(sh, hi_) if k == z3.Z3_OP_BASHR else z3.ZeroExt(sh, hi_)
    if out is None and k == z3.Z3_OP_CONCAT:
        # merge adjacent extracts of the same term: concat(x[15:8], x[7:0]) -> x
        parts = []
        changed = False
        for c in ch:
            if parts and z3.is_app_of(c, z3.Z3_OP_EXTRACT) and z3.is_app_of(parts[-1], z3.Z3_OP_EXTRACT):
                p_ = parts[-1]
                ph, pl = p_.decl().params()
                chh, cl = c.decl().params()
                if p_.arg(0).get_id() == c.arg(0).get_id() and pl == chh + 1:
                    x = c.arg(0)
                    parts[-1] = x if (ph == x.size() - 1 and cl == 0) else z3.Extract(ph, cl, x)
                    changed = True
                    continue
            parts.append(c)
        if changed:
            out = parts[0] if len(parts) == 1 else z3.Concat(*parts)
            ch = list(out.children()) if len(parts) > 1 else ch
            if len(parts) == 1:
                memo[i] = out
                return out
            out = None if len(parts) > 1 and False else out
    if out is None and k == z3.Z3_OP_CONCAT and len(ch) == 2 and z3.is_bv_value(ch[0]) and ch[0].as_long() == 0 and z3.is_app_of(ch[1], z3.Z3_OP_BADD):
        # zero-extension of a sum that cannot wrap (operand upper bounds known) = sum of zero-extensions
        args = ch[1].children()
        if sum(_ub(a) for a in args) < (1 << ch[1].size()):
            ext = ch[0].size()
            out = _rw(z3.simplify(sum([z3.ZeroExt(ext, a) for a in args[1:]], z3.ZeroExt(ext, args[0]))), memo)
    if out is None:
        out = t.decl()(*ch) if any(a.get_id() != b.get_id() for a, b in zip(ch, t.children())) else t
    memo[i] = out
    return out


def _ub(t):
    """cheap unsigned upper bound of a bit-vector term"""
    if z3.is_bv_value(t):
        return t.as_long()
    full = (1 << t.size()) - 1
    k = t.decl().kind()
    if k == z3.Z3_OP_CONCAT:
        ch = t.children()
        if z3.is_bv_value(ch[0]) and ch[0].as_long() == 0:
            rest = ch[1] if len(ch) == 2 else z3.Concat(*ch[1:])
            return _ub(rest) if len(ch) == 2 else (1 << rest.size()) - 1
        return full
    if k == z3.Z3_OP_ZERO_EXT:
        return _ub(t.arg(0))
    if k == z3.Z3_OP_ITE:
        return max(_ub(t.arg(1)), _ub(t.arg(2)))
    if k == z3.Z3_OP_BADD:
        return min(full, sum(_ub(a) for a in t.children()))
    return full


def normalize(t):
    return z3.simplify(_rw(z3.simplify(t), {}))


def _ites(t, maxbits=16):
    out = {}
    stack = [t]
    seen = set()
    while stack:
        x = stack.pop()
        i = x.get_id()
        if i in seen:
            continue
        seen.add(i)
        if z3.is_app_of(x, z3.Z3_OP_ITE) and z3.is_bv(x) and x.size() <= maxbits:
            out[i] = x
            continue            # maximal ite sub-terms only
        stack.extend(x.children())
    return list(out.values())


def abstract_common(solver_q, g, w):
    """If-then-else sub-terms (saturation, abs-difference, min/max selections) that occur on both sides over the same
    variables and are provably equal are replaced by one fresh variable on both sides (sound: equal terms stay equal);
    what remains is usually pure adder/multiplier structure the solver decides quickly.  Returns (g', w') or (None, None)."""
    gi, wi = _ites(g), _ites(w)
    if not gi or not wi or len(gi) > 80 or len(wi) > 80:
        return None, None
    wv = [(x, frozenset(_vars_in(x, {}).keys())) for x in wi]
    sub_g, sub_w = [], []
    used = set()
    n = 0
    for x in gi:
        vs = frozenset(_vars_in(x, {}).keys())
        for y, yv in wv:
            if y.get_id() in used or yv != vs or y.sort() != x.sort():
                continue
            if z3.eq(x, y):
                ok = True
            else:
                r, _ = solver_q(x != y)
                ok = r == z3.unsat
            if ok:
                t = z3.BitVec('abs_t%d' % n, x.size())
                n += 1
                sub_g.append((x, t))
                sub_w.append((y, t))
                used.add(y.get_id())
                break
    if not sub_g:
        return None, None
    return z3.substitute(g, *sub_g), z3.substitute(w, *sub_w)


FP_KINDS = None


def _fp_kinds():
    global FP_KINDS
    if FP_KINDS is None:
        names = ['Z3_OP_FPA_ADD', 'Z3_OP_FPA_SUB', 'Z3_OP_FPA_MUL', 'Z3_OP_FPA_DIV', 'Z3_OP_FPA_SQRT', 'Z3_OP_FPA_ROUND_TO_INTEGRAL',
                 'Z3_OP_FPA_TO_FP', 'Z3_OP_FPA_TO_SBV', 'Z3_OP_FPA_TO_UBV', 'Z3_OP_FPA_FMA', 'Z3_OP_FPA_MIN', 'Z3_OP_FPA_MAX', 'Z3_OP_FPA_REM']
        FP_KINDS = set(getattr(z3, n) for n in names if hasattr(z3, n))
    return FP_KINDS


def _fp_nodes(t):
    """innermost FP-operation nodes (no FP operation below them)"""
    kinds = _fp_kinds()
    memo = {}

    def has(x):
        i = x.get_id()
        if i in memo:
            return memo[i]
        r = False
        for c in x.children():
            if has(c) or (z3.is_app(c) and c.decl().kind() in kinds and c.num_args() > 0 and not _is_fp_from_bv(c)):
                r = True
        memo[i] = r
        return r
    out = {}
    stack = [t]
    seen = set()
    while stack:
        x = stack.pop()
        i = x.get_id()
        if i in seen:
            continue
        seen.add(i)
        if z3.is_app(x) and x.decl().kind() in kinds and x.num_args() > 0 and not _is_fp_from_bv(x) and not has(x):
            out[i] = x
        stack.extend(x.children())
    return list(out.values())


def _is_fp_from_bv(x):
    # fpBVToFP(bits): a reinterpretation, not an operation
    return x.decl().kind() == z3.Z3_OP_FPA_TO_FP and x.num_args() == 1 and z3.is_bv(x.arg(0))


def _children_equal(solver_q, pairs):
    for a, b in pairs:
        if z3.eq(a, b):
            continue
        if a.sort() != b.sort():
            return False
        while z3.is_app(a) and z3.is_app(b) and a.decl().kind() == b.decl().kind() and a.num_args() == 1 and b.num_args() == 1 \
                and a.decl().kind() in (z3.Z3_OP_FPA_NEG, z3.Z3_OP_FPA_ABS):
            a, b = a.arg(0), b.arg(0)
        if z3.eq(a, b):
            continue
        if _is_fp_from_bv(a) and _is_fp_from_bv(b):
            a, b = a.arg(0), b.arg(0)
        if z3.is_bv(a):
            a2, b2 = normalize(a), normalize(b)
            if z3.eq(a2, b2):
                continue
            r, _m = solver_q(a2 != b2)
            if r != z3.unsat:
                return False
        else:
            return False
    return True


def _fp_facts(node, c):
    """sound lemmas about an abstracted FP operation (kept to what the proofs need): a format conversion of a
    floating-point value preserves NaN-ness, infinity and zero-ness sign."""
    if node.decl().kind() == z3.Z3_OP_FPA_TO_FP and node.num_args() == 2 and z3.is_fp(node.arg(1)):
        x = node.arg(1)
        return [z3.fpIsNaN(c) == z3.fpIsNaN(x), z3.Implies(z3.fpIsInf(x), z3.fpIsInf(c)), z3.Implies(z3.fpIsZero(x), z3.fpIsZero(c)),
                z3.Implies(z3.Not(z3.fpIsNaN(x)), z3.fpIsNegative(c) == z3.fpIsNegative(x))]
    return []


def abstract_fp(solver_q, g, w, rounds=6):
    """Congruence abstraction of floating-point operations: innermost FP operations of the same kind whose operands are
    provably equal (bit-vector queries only) are replaced on both sides by one fresh constant; the rest by distinct fresh
    constants.  Equality of the abstracted terms implies equality of the originals (never the converse)."""
    n = [0]
    any_ = False
    facts = []
    for _ in range(rounds):
        gn, wn = _fp_nodes(g), _fp_nodes(w)
        if not gn and not wn:
            break
        any_ = True
        sub_g, sub_w = [], []
        used = set()
        for x in gn:
            match = None
            for y in wn:
                if y.get_id() in used or y.decl().kind() != x.decl().kind() or y.sort() != x.sort() or y.num_args() != x.num_args():
                    continue
                ok = False
                orders = [list(zip(x.children(), y.children()))]
                if x.decl().kind() in (z3.Z3_OP_FPA_ADD, z3.Z3_OP_FPA_MUL) and x.num_args() == 3:
                    xc, yc = x.children(), y.children()
                    orders.append([(xc[0], yc[0]), (xc[1], yc[2]), (xc[2], yc[1])])
                for pairs in orders:
                    if _children_equal(solver_q, pairs):
                        ok = True
                        break
                for a, b in []:
                    if z3.eq(a, b):
                        continue
                    if a.sort() != b.sort():
                        ok = False
                        break
                    if _is_fp_from_bv(a) and _is_fp_from_bv(b):
                        a, b = a.arg(0), b.arg(0)
                    if z3.is_bv(a):
                        a2, b2 = normalize(a), normalize(b)
                        if z3.eq(a2, b2):
                            continue
                        r, _m = solver_q(a2 != b2)
                        if r != z3.unsat:
                            ok = False
                            break
                    else:
                        ok = False
                        break
                if ok:
                    match = y
                    break
            n[0] += 1
            c = z3.Const('fpabs_%d' % n[0], x.sort())
            sub_g.append((x, c))
            facts.extend(_fp_facts(x, c))
            if match is not None:
                used.add(match.get_id())
                sub_w.append((match, c))
        for y in wn:
            if y.get_id() not in used:
                n[0] += 1
                cy = z3.Const('fpabs_%d' % n[0], y.sort())
                sub_w.append((y, cy))
                facts.extend(_fp_facts(y, cy))
        if sub_g:
            g = z3.simplify(z3.substitute(g, *sub_g))
        if sub_w:
            w = z3.simplify(z3.substitute(w, *sub_w))
    abstract_fp.facts = facts
    return (g, w) if any_ else (None, None)


LAST_MODEL = [None]


def classify_ftz(qf, wrong, inclass, model):
    """A disagreement was found.  -> 'bad' (a disagreement outside the flush-to-zero boundary class exists, or the one found is
    outside it), 'bad-ftz' (every disagreement is inside the class), 'bad-ftz-undecided' (the one found is inside the class and
    the solver did not decide within its budget whether others exist)."""
    r2, m2 = qf(z3.And(wrong, z3.Not(inclass)))
    if r2 == z3.unsat:
        return 'bad-ftz', None
    if r2 == z3.sat:
        return 'bad', str(m2)[:600]
    try:
        inside = model is not None and z3.is_true(model.eval(inclass, model_completion=True))
    except Exception:
        inside = False
    return ('bad-ftz-undecided', None) if inside else ('bad', None)


def prove_equal(solver_q, got, want, wrong_of=None, depth=2):
    """-> 'ok' | ('bad', model) | 'unknown'.  Tries syntactic equality after normalisation, then operand-wise proofs for
    identical top-level operators (helps multiplications whose operands are equal but differently written), then the
    full query."""
    if z3.eq(got, want):
        return 'ok'
    g, w = normalize(got), normalize(want)
    if z3.eq(g, w):
        return 'ok'
    if depth > 0 and g.num_args() == w.num_args() and g.num_args() in (1, 2) and g.decl().kind() == w.decl().kind() \
            and g.decl().kind() in (z3.Z3_OP_BMUL, z3.Z3_OP_BADD, z3.Z3_OP_EXTRACT, z3.Z3_OP_BUDIV, z3.Z3_OP_BUDIV_I, z3.Z3_OP_CONCAT) \
            and all(a.sort() == b.sort() for a, b in zip(g.children(), w.children())) and g.decl().params() == w.decl().params() if hasattr(g.decl(), 'params') else True:
        gc, wc = g.children(), w.children()
        orders = [list(zip(gc, wc))]
        if len(gc) == 2 and g.decl().kind() in (z3.Z3_OP_BMUL, z3.Z3_OP_BADD):
            orders.append(list(zip(gc, reversed(wc))))
        for pairs in orders:
            if all(x.sort() == y.sort() for x, y in pairs) and all(prove_equal(solver_q, x, y, depth=depth - 1) == 'ok' for x, y in pairs):
                return 'ok'
    if depth > 0:
        fg, fw = abstract_fp(solver_q, g, w)
        if fg is not None:
            if z3.eq(fg, fw):
                return 'ok'
            fa = getattr(abstract_fp, 'facts', [])
            wr = wrong_of(fg, fw) if wrong_of else fg != fw
            r, m = solver_q(z3.And(*(fa + [wr])) if fa else wr)
            if r == z3.unsat:
                return 'ok'
    if depth > 0 and not wrong_of:
        ga, wa = abstract_common(solver_q, g, w)
        if ga is not None:
            if z3.eq(z3.simplify(ga), z3.simplify(wa)):
                return 'ok'
            r, m = solver_q(ga != wa)
            if r == z3.unsat:
                return 'ok'
    if os.environ.get('VERIF_DEBUG'):
        print('FULLQ got=', g.sexpr()[:1200], '\n  want=', w.sexpr()[:600], flush=True)
    wrong = wrong_of(g, w) if wrong_of else g != w
    r, m = solver_q(wrong)
    if r == z3.unsat:
        return 'ok'
    if r == z3.sat:
        LAST_MODEL[0] = m
        return ('bad', str(m)[:600])
    return 'unknown'


def iszero_bits(b):
    return z3.Extract(b.size() - 2, 0, b) == 0


def ftz_boundary(got, want):
    """want = +-smallest normal, got = zero of the same sign"""
    w = want.size()
    mant = 23 if w == 32 else 52
    return z3.And(z3.Extract(w - 2, mant, want) == 1, z3.Extract(mant - 1, 0, want) == 0, z3.Extract(w - 2, 0, got) == 0,
                  z3.Extract(w - 1, w - 1, got) == z3.Extract(w - 1, w - 1, want))


def isnan_bits(b):
    if b.size() == 32:
        return z3.And(z3.Extract(30, 23, b) == 0xff, z3.Extract(22, 0, b) != 0)
    return z3.And(z3.Extract(62, 52, b) == 0x7ff, z3.Extract(51, 0, b) != 0)


def check_program(prog, target, optable, sem, n_max=None, m_max=2, query_timeout_ms=20000, want=('C01', 'C03', 'C10', 'C11'),
                  max_paths=6000, constrain=None, fp_data=False):
    """Returns dict(name, target, flags, status, paths, queries, solver_s, wall, viol={prop: [..]}, inconclusive=[..], stats)"""
    t0 = time.time()
    res = dict(name=prog['name'], target=target, flags=prog['flags'], status='ok', paths=0, queries=0, solver_s=0.0,
               viol={p: [] for p in ('C01', 'C03', 'C10', 'C11')}, inconclusive=[], notes=[], counterexamples=[])
    viol = res['viol']

    def add(prop, msg, cex=None):
        if msg not in viol[prop] and len(viol[prop]) < 12:
            viol[prop].append(msg)
            if cex is not None and len(res['counterexamples']) < 6:
                res['counterexamples'].append(dict(prop=prop, what=msg, **cex))

    try:
        code = prog['orccode']
        insns = decode(bytes.fromhex(code['code']))
        solver = z3.Solver()
        solver.set('timeout', query_timeout_ms)
        if n_max is None:
            n_max = orcentry.default_n_max(prog, target)
        ops_used = [i['op'] for i in code['insns']]
        has_ldres = any(o.startswith('ldres') for o in ops_used)
        if has_ldres:
            res['status'] = 'skipped'
            res['notes'].append('ldres* programs need the windowed-source model: not in this tier')
            return res
        isfloat = any(optable[o]['flags'] & 6 for o in ops_used)
        minmax = any(o in ('minf', 'maxf', 'mind', 'maxd') for o in ops_used)
        fops_ = [o for o in ops_used if optable[o]['flags'] & 6]
        fw = 8 * optable[fops_[-1]]['dest'][0] if fops_ and (optable[fops_[-1]]['flags'] & 4) else 0     # float lane width of the result (0: integer result)
        hard_fp = fp_data == 'quick' and any(o in ('mulf', 'divf', 'sqrtf', 'muld', 'divd', 'sqrtd', 'convfl', 'convdl') for o in ops_used)
        hard_data = any(o == 'divluw' for o in ops_used) or hard_fp      # 16-step shift/subtract divider: equivalence not decided in budget
        es = orcentry.orc_entry_state(prog, solver, n_max, m_max=m_max, m_min=0)
        L = es.layout
        shift_params = set()
        param_asm = []
        # shifts: the reference only defines 0 <= b < width; constrain parameter-valued shift counts accordingly
        for i in code['insns']:
            if i['op'][:3] in ('shl', 'shr'):
                w = 8 * optable[i['op']]['src'][0]
                for nm, p in es.params.items():
                    if p['index'] == i['s'][1]:
                        solver.add(z3.ULT(p['lo'], w))
                        param_asm.append(z3.ULT(p['lo'], w))
                        if p.get('hi') is not None:          # a 64-bit parameter as shift count: the whole value is the count
                            solver.add(p['hi'] == 0)
                            param_asm.append(p['hi'] == 0)
                        shift_params.add(nm)
        if constrain:
            constrain(es, solver)
        finals, stats = explore(insns, es.machine, solver, allowed_isa=allowed_isa(target, prog['flags']) if 'C11' in want else None,
                                max_paths=max_paths, max_steps=60000)
        res['paths'] = stats['paths']
        res['stats'] = {k: (sorted(v) if isinstance(v, set) else v) for k, v in stats.items() if k in ('paths', 'queries', 'steps', 'solver_s', 'wall_s')}
        res['queries'] += stats.get('queries', 0)
        res['solver_s'] += stats.get('solver_s', 0)
        if stats['paths'] >= max_paths:
            res['inconclusive'].append('path bound %d reached' % max_paths)
        sizes = {nm: a['size'] for nm, a in es.arrays.items()}
        canon = Canon(sizes)
        data_solver = z3.Solver()
        data_solver.set('timeout', query_timeout_ms)
        data_solver.add(*param_asm)
        verdicts = {}
        fp_skipped = [0]
        byidx = {a['index']: nm for nm, a in es.arrays.items()}
        pidx = {p['index']: p for p in es.params.values()}
        is2d = bool(code.get('is_2d'))
        const_n = code.get('constant_n') or 0
        init_gpr = {g: z3.BitVec('init_' + g, 64) for g in CALLEE_SAVED}
        STK = z3.BitVec('STK', 64)

        def q(s, *assertions):
            s.push()
            s.add(*assertions)
            t1 = time.time()
            r = s.check()
            res['solver_s'] += time.time() - t1
            res['queries'] += 1
            mdl = s.model() if r == z3.sat else None
            s.pop()
            return r, mdl

        def elem0(var, row, idx, size):
            nm = byidx[var]
            key = idx * size if row == 0 else (row, idx * size)
            bs = [z3.BitVec(byte_name(nm, Region_key(key, k)), 8) for k in range(size)]
            return z3.Concat(*reversed(bs)) if size > 1 else bs[0]

        def param(var):
            p = pidx[var]
            return p['lo'], (p['hi'] if p['hi'] is not None else z3.BitVecVal(0, 32))

        for f in finals:
            if f.fault:
                if f.fault[0] == 'UD':
                    ins = f.fault[1]
                    add('C11', 'instruction %s %s (ISA class %s) reached with flags %#x on %s' % (ins.mnem, ','.join(ins.ops), ins.isa, prog['flags'], target),
                        dict(insn=ins.raw.hex(), addr=ins.addr))
                else:
                    kind = f.fault[1] if len(f.fault) > 1 else '?'
                    detail = str(f.fault[2])[:200] if len(f.fault) > 2 else ''
                    tgt = 'C03' if kind in ('unresolvable address', 'write to read-only region') else 'C01'
                    add(tgt, 'path ended with fault: %s %s' % (kind, detail))
                continue
            if not f.halted:
                res['inconclusive'].append('path did not reach ret (step bound)')
                continue
            # ---- pin n (and m) -----------------------------------------------------------------------------
            mdl = f.model
            if mdl is None:
                r, mdl = q(solver, *f.pcnd)
                if r != z3.sat:
                    res['inconclusive'].append('path condition not sat?')
                    continue
            nv = mdl.eval(es.n, model_completion=True).as_signed_long()
            mv = 1
            pins = [es.n == nv]
            if is2d and not (code.get('constant_m') or 0):
                mv = mdl.eval(es.m, model_completion=True).as_signed_long()
                pins.append(es.m == mv)
            elif is2d:
                mv = code['constant_m']
            m_zero = False
            if is2d and not (code.get('constant_m') or 0) and mv <= 0:
                r0, _ = q(solver, *(f.pcnd + [es.m > 0]))
                if r0 == z3.unsat:
                    m_zero = True           # no rows: n is irrelevant on this path
            if m_zero:
                nv_eff, mv = 0, 0
            elif const_n:
                nv_eff = const_n
            else:
                r, _ = q(solver, *(f.pcnd + [z3.Not(z3.And(*pins))]))
                if r == z3.sat:
                    res['inconclusive'].append('path does not pin n/m (n=%d)' % nv)
                    continue
                if r != z3.unsat:
                    res['inconclusive'].append('pin query unknown')
                    continue
                nv_eff = nv
            if nv_eff < 0:
                nv_eff = 0
            # ---- oracle --------------------------------------------------------------------------------------
            orc = oracle_mod.Oracle(prog, optable, sem)
            try:
                out = orc.run(nv_eff, mv, elem0, param)
            except oracle_mod.OracleUnsupported as e:
                res['status'] = 'skipped'
                res['notes'].append('oracle: %s' % e)
                return res
            # ---- C01: destination arrays -------------------------------------------------------------------------
            if 'C01' in want:
                for nm, a in es.arrays.items():
                    if not a['writable']:
                        continue
                    reg = f.mem.region(nm)
                    sz = a['size']
                    for row in range(mv):
                        for i in range(nv_eff):
                            key = i * sz if row == 0 else (row, i * sz)
                            got = z3.simplify(peek_elem(reg, key, sz))
                            wantt = out['stores'].get((a['index'], row, i))
                            if wantt is None:
                                wantt = elem0(a['index'], row, i, sz)
                            wantt = z3.simplify(wantt)
                            if z3.eq(got, wantt):
                                continue
                            if (isfloat and not fp_data) or hard_data:
                                fp_skipped[0] += 1
                                continue
                            cg, cw = canon.canon([got, wantt], i)
                            if isfloat and fw and cg.size() > fw:
                                # x2/x4 float elements: decide lane by lane (NaN-ness is a per-lane notion)
                                worst = None
                                for l_ in range(cg.size() // fw):
                                    gl, wl = z3.simplify(z3.Extract(fw * l_ + fw - 1, fw * l_, cg)), z3.simplify(z3.Extract(fw * l_ + fw - 1, fw * l_, cw))
                                    if z3.eq(gl, wl):
                                        continue
                                    kk = (gl.get_id(), wl.get_id())
                                    vv = verdicts.get(kk)
                                    if vv is None:
                                        wf_ = (lambda a_, b_: z3.And(a_ != b_, z3.Not(z3.And(isnan_bits(a_), isnan_bits(b_))), z3.Not(z3.And(iszero_bits(a_), iszero_bits(b_))))) if minmax else \
                                              (lambda a_, b_: z3.And(a_ != b_, z3.Not(z3.And(isnan_bits(a_), isnan_bits(b_)))))
                                        pr_ = prove_equal(lambda w_: q(data_solver, w_), gl, wl, wrong_of=wf_)
                                        if isinstance(pr_, tuple):
                                            cls_, m2_ = classify_ftz(lambda w_: q(data_solver, w_), wf_(gl, wl), ftz_boundary(gl, wl), LAST_MODEL[0])
                                            pr_ = (cls_, m2_ or pr_[1])
                                        vv = ('ok', None) if pr_ == 'ok' else ('unknown', None) if pr_ == 'unknown' else pr_
                                        verdicts[kk] = vv
                                    if vv[0] != 'ok' and (worst is None or vv[0] == 'bad' or (vv[0] == 'bad-ftz-undecided' and worst[0] == 'bad-ftz')):
                                        worst = vv
                                verdicts[(cg.get_id(), cw.get_id())] = worst or ('ok', None)
                            k = (cg.get_id(), cw.get_id())
                            v = verdicts.get(k)
                            if v is None:
                                wf = None
                                if isfloat and fw and cg.size() == fw:
                                    if minmax:
                                        # documented exemption: min/max of numerically equal operands (+0/-0) may return either
                                        wf = lambda a_, b_: z3.And(a_ != b_, z3.Not(z3.And(isnan_bits(a_), isnan_bits(b_))), z3.Not(z3.And(iszero_bits(a_), iszero_bits(b_))))
                                    else:
                                        wf = lambda a_, b_: z3.And(a_ != b_, z3.Not(z3.And(isnan_bits(a_), isnan_bits(b_))))
                                pr = prove_equal(lambda w_: q(data_solver, w_), cg, cw, wrong_of=wf)
                                if isinstance(pr, tuple) and isfloat and fw and cg.size() == fw:
                                    # is every disagreement inside the x86 flush-to-zero boundary class (result tiny before rounding,
                                    # smallest normal after rounding)?  Then it is the recorded hardware-semantics finding, not a new one.
                                    cls_, m2_ = classify_ftz(lambda w_: q(data_solver, w_), wf(cg, cw), ftz_boundary(cg, cw), LAST_MODEL[0])
                                    pr = (cls_, m2_ or pr[1])
                                v = ('ok', None) if pr == 'ok' else ('unknown', None) if pr == 'unknown' else pr
                                verdicts[k] = v
                            if v[0] == 'bad':
                                add('C01', 'dest %s row %d element %d != emulation (n=%d)' % (nm, row, i, nv_eff), dict(n=nv_eff, m=mv, model=v[1]))
                            elif v[0] == 'bad-ftz':
                                add('C01', '[ftz-boundary] dest %s element differs from emulation only where the exact result is tiny before rounding and rounds to the smallest normal (x86 FTZ gives 0, emulation the smallest normal)' % nm, dict(n=nv_eff, m=mv, model=v[1]))
                            elif v[0] == 'bad-ftz-undecided':
                                add('C01', '[ftz-boundary] dest %s element differs from emulation where the exact result is tiny before rounding and rounds to the smallest normal (x86 FTZ gives 0, emulation the smallest normal); whether disagreements outside this class exist was not decided within the solver budget' % nm, dict(n=nv_eff, m=mv, model=v[1]))
                                if 'ftz-undecided' not in res.get('notes', []):
                                    res.setdefault('notes', []).append('ftz-undecided')
                            elif v[0] == 'unknown':
                                res['inconclusive'].append('data equivalence %s[%d] unknown' % (nm, i))
                    # bytes outside [0, n*size) of each row must be untouched
                    for key, val in reg.bytes.items():
                        row, off = (0, key) if isinstance(key, int) else key
                        if row < mv and 0 <= off < nv_eff * sz:
                            continue
                        if not z3.eq(val, z3.BitVec(byte_name(nm, key), 8)):
                            add('C01', 'dest %s byte %s outside elements 0..n-1 modified (n=%d)' % (nm, key, nv_eff), dict(n=nv_eff, m=mv))
                            add('C03', 'write to %s byte %s outside elements 0..n-1 (n=%d)' % (nm, key, nv_eff), dict(n=nv_eff, m=mv))
                # accumulators
                exr = f.mem.region('ex')
                for nm, a in es.accums.items():
                    wantt = out['acc'][a['slot']]
                    if a['size'] == 2:
                        # 16-bit accumulators are stored with a 16-bit move: read the same cell (keeps the term whole)
                        got = z3.simplify(peek_elem(exr, L['accumulators'] + 4 * a['slot'], 2))
                        wantt = z3.simplify(z3.Extract(15, 0, wantt))
                    else:
                        got = z3.simplify(peek_elem(exr, L['accumulators'] + 4 * a['slot'], 4))
                    if not z3.eq(got, wantt):
                        cg, cw = got, wantt
                        k = ('acc', cg.get_id(), cw.get_id())
                        v = verdicts.get(k)
                        if v is None:
                            pr = prove_equal(lambda w_: q(data_solver, w_), cg, cw)
                            v = ('ok', None) if pr == 'ok' else ('unknown', None) if pr == 'unknown' else pr
                            verdicts[k] = v
                        if v[0] == 'bad':
                            add('C01', 'accumulator %s != emulation (n=%d)' % (nm, nv_eff), dict(n=nv_eff, m=mv, model=v[1]))
                        elif v[0] == 'unknown':
                            res['inconclusive'].append('accumulator equivalence unknown')
            # ---- C03: accesses -------------------------------------------------------------------------------------
            if 'C03' in want:
                ent = {}
                for (var, row, idx) in out['reads']:
                    nm = byidx[var]
                    lo_, hi_ = ent.get((nm, row), (None, None))
                    b0, b1 = idx * sizes[nm], (idx + 1) * sizes[nm]
                    ent[(nm, row)] = (b0 if lo_ is None else min(lo_, b0), b1 if hi_ is None else max(hi_, b1))
                for a in f.mem.log:
                    if a.region in ('ex', 'stack'):
                        continue
                    if not (isinstance(a.offset, int) or isinstance(a.offset, tuple)):
                        add('C03', 'non-constant offset into %s' % a.region)
                        continue
                    row, off = (0, a.offset) if isinstance(a.offset, int) else a.offset
                    arr = es.arrays[a.region]
                    sz = arr['size']
                    if a.kind == 'W':
                        if not arr['writable']:
                            add('C03', 'store to source array %s' % a.region)
                        lo_, hi_ = 0, nv_eff * sz
                    else:
                        lo_, hi_ = ent.get((a.region, row), (0, 0))
                        if arr['writable']:
                            lo_, hi_ = min(lo_, 0), max(hi_, nv_eff * sz)
                    if row >= mv or off < lo_ or off + a.nbytes > hi_:
                        add('C03', '%s of %s row %d bytes [%d,%d) outside entitlement [%d,%d) (n=%d) at insn %#x' % (
                            'read' if a.kind == 'R' else 'write', a.region, row, off, off + a.nbytes, lo_, hi_, nv_eff, a.insn_addr),
                            dict(n=nv_eff, m=mv))
                    if a.requires_alignment:
                        base = arr['base']
                        addr = base + off if row == 0 else base + row * z3.ZeroExt(32, arr['stride']) + off
                        k = ('al', a.region, row, off, a.requires_alignment, nv_eff)
                        if k not in verdicts:
                            r, m2 = q(solver, *(f.pcnd[:a.pcnd_len] + [z3.URem(addr, a.requires_alignment) != 0]))
                            verdicts[k] = r
                            if r == z3.sat:
                                add('C03', 'aligned-only access to %s+%d may be misaligned (needs %d) at insn %#x' % (a.region, off, a.requires_alignment, a.insn_addr),
                                    dict(n=nv_eff, model=str(m2)[:300]))
                            elif r != z3.unsat:
                                res['inconclusive'].append('alignment query unknown')
            # ---- C10: calling convention -------------------------------------------------------------------------
            if 'C10' in want:
                for g in CALLEE_SAVED:
                    if not z3.eq(z3.simplify(f.gpr[g]), init_gpr[g]):
                        r, m2 = q(solver, *(f.pcnd + [f.gpr[g] != init_gpr[g]]))
                        if r != z3.unsat:
                            add('C10', 'callee-saved %s not preserved (n=%d)' % (g, nv_eff), dict(n=nv_eff))
                if not z3.eq(z3.simplify(f.gpr['rsp'] - STK), z3.BitVecVal(8, 64)):
                    add('C10', 'rsp at return != entry rsp + 8: %s' % z3.simplify(f.gpr['rsp'] - STK))
                if not z3.is_false(z3.simplify(f.df)):
                    add('C10', 'direction flag not clear at return')
                if f.mmx_dirty:
                    add('C10', 'MMX state not emptied (no emms) at return')
                if not z3.eq(z3.simplify(f.mxcsr), z3.simplify(es.init_mxcsr)):
                    # control bits 6..15 must be preserved for every entry value (status bits 0..5 are sticky flags)
                    g6 = z3.Extract(15, 6, f.mxcsr)
                    i6 = z3.Extract(15, 6, es.init_mxcsr)
                    if not z3.eq(z3.simplify(g6), z3.simplify(i6)):
                        r, m2 = q(solver, *(f.pcnd + [g6 != i6]))
                        if r == z3.sat:
                            add('C10', 'MXCSR control bits not restored on return (entry %s -> exit %s)' % (
                                m2.eval(es.init_mxcsr, model_completion=True), m2.eval(f.mxcsr, model_completion=True)), dict(n=nv_eff))
                        elif r != z3.unsat:
                            res['inconclusive'].append('mxcsr query unknown')
                stk = f.mem.region('stack')
                for key, val in stk.bytes.items():
                    if isinstance(key, int) and key >= 0:
                        if not z3.eq(val, z3.BitVec('stk_b%d' % key, 8)) and not (key < 8 and z3.eq(z3.simplify(stk.peek(0, 8)), z3.BitVec('RET', 64))):
                            add('C10', "caller's stack byte +%d modified" % key)
                for a in f.mem.log:
                    if a.kind == 'W' and a.region == 'stack' and isinstance(a.offset, int) and a.offset >= 0:
                        add('C10', "store into the caller's stack frame at entry_rsp+%d" % a.offset)
                    if a.kind == 'W' and a.region not in ('ex', 'stack') and not es.arrays[a.region]['writable']:
                        add('C10', 'store to memory that is neither destination, executor nor own stack: %s' % a.region)
    except Unmodelled as e:
        res['status'] = 'unmodelled'
        res['inconclusive'].append('unmodelled instruction: %s' % e)
    except Exception:
        res['status'] = 'exception'
        res['inconclusive'].append(traceback.format_exc()[-800:])
    res['wall'] = round(time.time() - t0, 2)
    try:
        if fp_skipped[0]:
            res['notes'].append('%d element equalities not decided here (float: deferred to C18; divluw: outside the claim)' % fp_skipped[0])
    except NameError:
        pass
    res['inconclusive'] = sorted(set(res['inconclusive']))[:10]
    return res


def peek_elem(reg, key, size):
    """Element read that keeps terms whole: if a wide cell (the term of a vector store) covers the element, extract from
    it instead of re-assembling simplified bytes (z3 pushes extracts through products/sums and the structure is lost)."""
    w = reg.wide.get((key, size))
    if w is not None:
        return w
    row, off = (0, key) if isinstance(key, int) else key
    for (k, n), term in reg.wide.items():
        krow, koff = (0, k) if isinstance(k, int) else k
        if krow == row and koff <= off and off + size <= koff + n:
            lo_ = 8 * (off - koff)
            return z3.simplify(z3.Extract(lo_ + 8 * size - 1, lo_, term))
    return reg.peek(key, size)


def Region_key(off, i):
    return off + i if isinstance(off, int) else (off[0], off[1] + i)


# ----------------------------------------------------------------------------------------------- result cache
def cache_key(prog, bounds):
    h = hashlib.sha256()
    h.update(ENGINE_VERSION.encode())
    if isinstance(bounds, list) and len(bounds) >= 3 and bounds[2]:
        h.update(FP_VERSION.encode())
    h.update(json.dumps([prog['name'], prog['target'], prog['flags'], prog['orccode']['code'], prog['orccode']['insns'], prog['orccode']['vars'],
                         prog.get('recipe', ''), bounds], sort_keys=True).encode())
    return h.hexdigest()
