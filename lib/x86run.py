"""Shared runner for the machine-code properties (C01, C03, C10, C11, C18b): compile the program family with the fresh
liborc, run lib.x86check on every (program, target, flag set) in a process pool, cache results by content hash."""
import json, os, sys, time, hashlib
from concurrent.futures import ProcessPoolExecutor
from lib import build, common, x86check
from lib.common import VERIF, tier, seed, NCPU

CACHE = os.path.join(VERIF, '.cache', 'x86')
_G = {}


def _init(optable):
    _G['optable'] = optable
    from engines import orcref
    _G['sem'] = orcref.REF


def _work(args):
    prog, target, bounds, want, fp_data = args
    key = x86check.cache_key(prog, [bounds, sorted(want), fp_data])
    path = os.path.join(CACHE, key + '.json')
    if os.path.exists(path) and not os.environ.get('VERIF_NOCACHE'):
        try:
            r = json.load(open(path))
            r['cached'] = True
            return r
        except Exception:
            pass
    r = x86check.check_program(prog, target, _G['optable'], _G['sem'], n_max=bounds.get('n_max'), m_max=bounds.get('m_max', 2),
                               query_timeout_ms=bounds.get('qt', 20000), want=want, max_paths=bounds.get('max_paths', 6000), fp_data=fp_data)
    r['cached'] = False
    r['recipe'] = prog.get('recipe')
    r['code_sha'] = hashlib.sha256(prog['orccode']['code'].encode()).hexdigest()[:16]
    try:
        os.makedirs(CACHE, exist_ok=True)
        tmp = path + '.%d' % os.getpid()
        json.dump(r, open(tmp, 'w'), default=str)
        os.replace(tmp, path)
    except Exception:
        pass
    return r


def keep(name, optable):
    """x2/x4 prefixes are not meaningful on accumulator opcodes and explicit array loads/stores (the emulator indexes those
    by element, not by lane); ldres* need the windowed source model (C03 thorough) - outside this runner."""
    if name.startswith('x_'):
        return 'ldres' not in name
    op, kind, x = name.rsplit('_', 2)
    o = optable.get(op)
    if not o:
        return True
    if op.startswith('ldres'):
        return False
    if x != 'x1' and (o['flags'] & (1 | 16 | 32)):
        return False
    return True


def select(fam, t, target):
    """quick tier: every opcode once per run (operand kind rotates with the seed), all extras; thorough: everything."""
    if t != 'quick':
        return fam
    s = seed()
    out = []
    byop = {}
    for name, text in fam:
        if name.startswith('x_'):
            out.append((name, text))
            continue
        op = name.rsplit('_', 2)[0]
        byop.setdefault(op, []).append((name, text))
    for k, (op, lst) in enumerate(sorted(byop.items())):
        x1 = [e for e in lst if e[0].endswith('_x1')]
        xs = [e for e in lst if not e[0].endswith('_x1')]
        if x1:
            out.append(x1[(k + s) % len(x1)])
        if xs and (k + s) % 4 == 0:
            out.append(xs[(k + s) % len(xs)])
    return out


def run(want, targets=('sse', 'avx', 'mmx'), flagsets=None, fp_data=False, only_float=False, n_scale=1.0, report=None, quick_frac=1, n_small=False, job_timeout=None, diff_only=False, quick_frac_from=0, frac_always=False):
    """Returns (results, info). flagsets: dict target -> list of (label, flags|'default')"""
    from engines.x86sym import family
    t = tier()
    b = build.Build('x86')
    exe = b.native_prog('orcdump', [os.path.join(VERIF, 'native', 'orcdump.c')])
    ops = family.load_opcodes(exe)
    optable = {o['name']: o for o in ops}
    dflt = family.default_flags(exe)
    jobs = []
    static_extra = []
    info = dict(compiled={}, refused={}, abnormal=[], static_isa=dict(programs=0, instructions=0, undecodable=0))
    for target in targets:
        fam = [(n, x) for n, x in select(family.family(ops, target), t, target) if keep(n, optable)]
        if only_float:
            fam = [(n, x) for n, x in fam if optable.get(n.rsplit('_', 2)[0], {}).get('flags', 0) & 6 or 'addf' in n or 'addd' in n]
        sets = (flagsets or {}).get(target) or [('default', dflt[target])]
        base_code = None
        if diff_only:
            # reduced flag sets matter exactly for the programs whose emitted bytes depend on the flags: compile the whole
            # family (all operand kinds and prefixes) for the first flag set and keep, for the others, the programs whose
            # code differs from it
            fam_all = [(n, x) for n, x in family.family(ops, target) if keep(n, optable)]
            r0 = family.compile_family(exe, target, dflt[target] if sets[0][1] == 'default' else sets[0][1], recipes=fam_all, cwd=b.dir)
            base_code = {r['name']: (r.get('orccode') or {}).get('code') for r in r0}
        for si, (label, fl) in enumerate(sets):
            if isinstance(fl, str) and fl.startswith('default|'):
                fl = dflt[target] | int(fl.split('|')[1], 0)
            fl = dflt[target] if fl == 'default' else fl
            sample = (t == 'quick' or frac_always) and quick_frac > 1 and si >= quick_frac_from
            fam_s = fam if not sample else [e for k, e in enumerate(fam) if (k + si + seed()) % quick_frac == 0 or e[0].startswith('x_')]
            if diff_only and si > 0:
                rall = family.compile_family(exe, target, fl, recipes=fam_all, cwd=b.dir)
                changed = set(r['name'] for r in rall if (r.get('orccode') or {}).get('code') and (r.get('orccode') or {}).get('code') != base_code.get(r['name']))
                sampled = set(e[0] for e in fam_s)
                fam_s = [e for e in fam_all if e[0] in changed or e[0] in sampled]
                # programs whose bytes did NOT change under the reduced flag set are exactly the ones that may still carry an
                # instruction of a feature that was taken away: scan every emitted instruction of each of them (static, whole
                # family) against the ISA classes this flag set allows.  The path-wise check below covers fam_s.
                static_extra += static_isa_scan([r for r in rall if (r.get('orccode') or {}).get('code') and r['name'] not in changed and r['name'] not in sampled],
                                                target, fl, info)
            res = family.compile_family(exe, target, fl, recipes=fam_s, cwd=b.dir)
            ok = [r for r in res if r.get('orccode') and r['orccode'].get('code')]
            info['compiled'][(target, label)] = len(ok)
            info['refused'][(target, label)] = len(res) - len(ok)
            info['abnormal'] += [dict(name=r['name'], target=target, flags=fl, abnormal=r['abnormal']) for r in res if r.get('abnormal')]
            for p in ok:
                is2d = p['orccode'].get('is_2d')
                from engines.x86sym import orcentry
                nm = orcentry.default_n_max(p, target)
                if t == 'quick':
                    nm = min(nm, 2 * orcentry.elements_per_vector(p, target) + 3 if not is2d else 9)
                    if target == 'avx':
                        nm = min(nm, 36)
                if is2d:
                    nm = min(nm, 9 if t == 'quick' else 20)
                if n_small:
                    nm = min(nm, orcentry.elements_per_vector(p, target) + 2)
                bounds = dict(n_max=nm, m_max=2, qt=20000 if t == 'quick' else 120000, max_paths=4000 if t == 'quick' else 20000)
                jobs.append((p, target, bounds, tuple(want), fp_data))
    t0 = time.time()
    results = run_jobs(jobs, optable, b.dir, per_job_timeout=job_timeout or (240 if t == 'quick' else 1800))
    results += static_extra
    info['wall'] = time.time() - t0
    info['jobs'] = len(jobs)
    info['exe'] = exe
    info['build'] = b
    info['optable'] = optable
    return results, info


def static_isa_scan(progs, target, flags, info):
    """Decode every emitted instruction of each program and compare its ISA class with what `flags` allows.
    Returns result records (same shape as check_program's) for the programs that carry a disallowed instruction."""
    from engines.x86sym import decoder
    allowed = x86check.allowed_isa(target, flags)
    out = []
    codes = [bytes.fromhex(p['orccode']['code']) for p in progs]
    try:
        dec = decoder.decode_many(codes)
    except Exception:
        dec = []
        for c in codes:
            try:
                dec.append(decoder.decode(c))
            except Exception:
                dec.append(None)
    for p, ins in zip(progs, dec):
        if ins is None:
            info['static_isa']['undecodable'] += 1
            continue
        info['static_isa']['programs'] += 1
        info['static_isa']['instructions'] += len(ins)
        bad = [i for i in ins if i.isa not in allowed]
        if bad:
            i = bad[0]
            msg = 'instruction %s %s (ISA class %s) emitted with flags %#x on %s [static scan of unchanged code]' % (i.mnem, ','.join(i.ops), i.isa, flags, target)
            out.append(dict(name=p['name'], target=target, flags=flags, status='ok', paths=1, queries=0, solver_s=0.0,
                            viol={'C01': [], 'C03': [], 'C10': [], 'C11': [msg]}, inconclusive=[], notes=['static ISA scan'], counterexamples=[],
                            wall=0.0, cached=False, recipe=p.get('recipe')))
    return out


def run_jobs(jobs, optable, scratch, per_job_timeout):
    """Each job runs in its own python process (hard wall/memory limit: z3 does not always honour its timeout)."""
    import subprocess, tempfile
    from lib.common import pool_map, run as run_cmd
    optf = os.path.join(scratch, 'optable.json')
    json.dump(optable, open(optf, 'w'))
    jd = os.path.join(scratch, 'jobs')
    os.makedirs(jd, exist_ok=True)

    def attempt(i, job, fresh):
        prog, target, bounds, want, fp_data = job
        key = x86check.cache_key(prog, [bounds, sorted(want), fp_data])
        path = os.path.join(CACHE, key + ('.fresh' if fresh else '') + '.json')
        if os.path.exists(path) and not os.environ.get('VERIF_NOCACHE'):
            try:
                r = json.load(open(path)); r['cached'] = True
                return r
            except Exception:
                pass
        jf = os.path.join(jd, '%d%s.json' % (i, 'f' if fresh else ''))
        json.dump(dict(prog=prog, target=target, bounds=bounds, want=list(want), fp_data=fp_data, optable=optf, out=path, fresh=fresh), open(jf, 'w'))
        rc, out, err, wall = run_cmd([sys.executable, '-m', 'lib.x86run', jf], timeout=per_job_timeout, cwd=VERIF, mem_gb=8)
        if os.path.exists(path):
            try:
                r = json.load(open(path)); r['cached'] = False
                return r
            except Exception:
                pass
        why = 'timeout %ds' % per_job_timeout if rc == -9 else 'worker rc=%s %s' % (rc, err[-300:])
        return dict(name=prog['name'], target=target, flags=prog['flags'], status='timeout' if rc == -9 else 'crash', paths=0, queries=0, solver_s=0.0,
                    viol={p: [] for p in ('C01', 'C03', 'C10', 'C11')}, inconclusive=[why], notes=[], counterexamples=[], wall=round(wall, 1), cached=False,
                    recipe=prog.get('recipe'))

    def one(ij):
        i, job = ij
        r = attempt(i, job, False)
        if r['status'] in ('timeout', 'exception', 'crash') and not any(r['viol'].values()):
            # The entry state leaves the executor's scratch fields (counter1..3) arbitrary.  Code that reads them before
            # writing them makes the exploration unbounded.  Decide the same program for the state orc_executor_new()
            # leaves (scratch fields zero): a violation found there is a violation of the original claim (a fresh executor is
            # a legitimate input); if that run holds, the program stays inconclusive.
            r2 = attempt(i, job, True)
            if any(r2['viol'].values()):
                for p_, v_ in r2['viol'].items():
                    r['viol'][p_] = [x + ' [fresh executor: scratch fields counter1..3 zero]' for x in v_]      # suffix: known-finding keys match on the start of the message
                r['counterexamples'] = r2.get('counterexamples', [])
                r['paths'] = r2.get('paths', 0)
                r['notes'] = list(r.get('notes', [])) + ['exploration with arbitrary executor scratch contents did not finish (%s); decided for a fresh executor' % r['status']]
        return r
    return pool_map(one, list(enumerate(jobs)), NCPU)


def _fresh_executor(es, solver):
    """entry state of an executor straight from orc_executor_new(): the scratch fields the generated code owns are zero"""
    import z3
    ex = es.machine.mem.region('ex')
    for f in ('counter1', 'counter2', 'counter3'):
        ex.set_bytes(es.layout[f], z3.BitVecVal(0, 32), 4)


def _worker_main(jf):
    j = json.load(open(jf))
    _init(json.load(open(j['optable'])))
    r = x86check.check_program(j['prog'], j['target'], _G['optable'], _G['sem'], n_max=j['bounds'].get('n_max'), m_max=j['bounds'].get('m_max', 2),
                               query_timeout_ms=j['bounds'].get('qt', 20000), want=tuple(j['want']), max_paths=j['bounds'].get('max_paths', 6000), fp_data=j['fp_data'],
                               constrain=_fresh_executor if j.get('fresh') else None)
    r['recipe'] = j['prog'].get('recipe')
    r['code_sha'] = hashlib.sha256(j['prog']['orccode']['code'].encode()).hexdigest()[:16]
    os.makedirs(os.path.dirname(j['out']), exist_ok=True)
    tmp = j['out'] + '.%d' % os.getpid()
    json.dump(r, open(tmp, 'w'), default=str)
    os.replace(tmp, j['out'])


if __name__ == '__main__':
    _worker_main(sys.argv[1])
