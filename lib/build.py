"""Build layer: everything is regenerated from /repo's current working tree into a scratch dir."""
import os, re, shutil, subprocess
from . import common
from .common import REPO, VERIF, GUARD, run, pool_map

CONFIG_H_FALLBACK = """#pragma once
#define ENABLE_BACKEND_ALTIVEC 1
#define ENABLE_BACKEND_AVX 1
#define ENABLE_BACKEND_C64X 1
#define ENABLE_BACKEND_MIPS 1
#define ENABLE_BACKEND_MMX 1
#define ENABLE_BACKEND_NEON 1
#define ENABLE_BACKEND_SSE 1
#define HAVE_AMD64
#define HAVE_CLOCK_GETTIME
#define HAVE_CODEMEM_MMAP
#define HAVE_GETTIMEOFDAY
#define HAVE_MMAP
#define HAVE_MONOTONIC_CLOCK
#define HAVE_POSIX_MEMALIGN
#define HAVE_SYS_TIME_H
#define HAVE_THREAD_PTHREAD
#define HAVE_UNISTD_H
#define HAVE_VASPRINTF
#undef ORC_NEEDS_ASM_XSAVE
#define PACKAGE_VERSION "0.4.40.1"
#define VERSION "0.4.40.1"
"""

DEFS = ['-DHAVE_CONFIG_H', '-DORC_ENABLE_UNSTABLE_API', '-D_GNU_SOURCE', '-DBUILDING_ORC', '-D' + GUARD]


def orc_sources():
    """TU list of liborc as orc/meson.build derives it for this host (x86-64, all backends)."""
    txt = open(os.path.join(REPO, 'orc', 'meson.build')).read()
    srcs = []
    for line in txt.splitlines():
        s = line.strip()
        if s.startswith('#'):
            continue
        srcs += re.findall(r"'(orc[A-Za-z0-9_\-]*\.c)'", s)
    # multi-line initial list
    m = re.search(r"orc_sources\s*=\s*\[(.*?)\]", txt, re.S)
    if m:
        srcs += re.findall(r"'(orc[A-Za-z0-9_\-]*\.c)'", m.group(1))
    out = []
    for s in srcs:
        if re.match(r'orccpu-(arm|mips|powerpc)\.c', s):
            continue
        if s not in out and os.path.exists(os.path.join(REPO, 'orc', s)):
            out.append(s)
    return out


class Build:
    """One per check run."""

    def __init__(self, tag='b'):
        self.dir = common.scratch('orcverif-' + tag)
        self.inc = os.path.join(self.dir, 'inc')
        os.makedirs(self.inc)
        cfg = os.path.join(REPO, '_build', 'config.h')
        with open(os.path.join(self.inc, 'config.h'), 'w') as f:
            f.write(open(cfg).read() if os.path.exists(cfg) else CONFIG_H_FALLBACK)
        self.cflags = ['-I' + self.inc, '-I' + REPO, '-I' + os.path.join(REPO, 'orc')] + DEFS
        self._lib = None
        self._san = None

    # ---- native liborc (static archive) --------------------------------------------
    def native_lib(self, sanitize=False, extra=()):
        key = '_san' if sanitize else '_lib'
        if getattr(self, key):
            return getattr(self, key)
        od = os.path.join(self.dir, 'san' if sanitize else 'nat')
        os.makedirs(od, exist_ok=True)
        srcs = orc_sources()
        opt = ['-O1', '-g', '-fsanitize=address,undefined', '-fno-omit-frame-pointer'] if sanitize else ['-O2', '-g']
        cc = 'clang-14' if sanitize else 'gcc'

        def one(s):
            o = os.path.join(od, s[:-2] + '.o')
            rc, out, err, _ = run([cc] + opt + ['-fPIC', '-c'] + self.cflags + list(extra) + [os.path.join(REPO, 'orc', s), '-o', o])
            return (s, rc, err)
        res = pool_map(one, srcs)
        bad = [(s, e) for s, rc, e in res if rc != 0]
        if bad:
            raise RuntimeError('native build failed: %s\n%s' % (bad[0][0], bad[0][1][:2000]))
        lib = os.path.join(od, 'liborc.a')
        subprocess.check_call(['ar', 'rcs', lib] + [os.path.join(od, s[:-2] + '.o') for s in srcs])
        setattr(self, key, lib)
        return lib

    def native_prog(self, name, sources, sanitize=False, extra=(), libs=('-lm', '-lpthread')):
        lib = self.native_lib(sanitize)
        out = os.path.join(self.dir, name)
        opt = ['-O1', '-g', '-fsanitize=address,undefined', '-fno-omit-frame-pointer'] if sanitize else ['-O1', '-g']
        cc = 'clang-14' if sanitize else 'gcc'
        cmd = [cc] + opt + self.cflags + list(extra) + list(sources) + [lib] + list(libs) + ['-o', out]
        rc, o, e, _ = run(cmd)
        if rc != 0:
            raise RuntimeError('native_prog %s failed:\n%s' % (name, e[:3000]))
        return out

    # ---- goto-cc ------------------------------------------------------------------------
    def goto(self, name, sources, defs=()):
        """Compile harness sources (which #include the real .c files) into a goto binary."""
        out = os.path.join(self.dir, name + '.gb')
        cmd = ['goto-cc'] + self.cflags + ['-I' + os.path.join(VERIF, 'harness')] + ['-D' + d for d in defs] + list(sources) + ['-o', out]
        rc, o, e, _ = run(cmd, timeout=300)
        if rc != 0:
            raise RuntimeError('goto-cc %s failed:\n%s' % (name, (o + e)[:3000]))
        return out

    # ---- LLVM IR ------------------------------------------------------------------------
    def ir(self, name, source, wrapv=True, defs=(), opt='-O1', extra=()):
        out = os.path.join(self.dir, name + ('.wrapv' if wrapv else '') + '.ll')
        cmd = ['clang-14', opt, '-fno-vectorize', '-fno-slp-vectorize', '-fno-unroll-loops', '-fno-builtin',
               '-S', '-emit-llvm'] + (['-fwrapv'] if wrapv else []) + self.cflags + \
              ['-I' + os.path.join(VERIF, 'harness')] + ['-D' + d for d in defs] + list(extra) + [source, '-o', out]
        rc, o, e, _ = run(cmd, timeout=300)
        if rc != 0:
            raise RuntimeError('clang IR %s failed:\n%s' % (name, e[:3000]))
        return out
