#!/usr/bin/env python3
"""usage: addseed.py <seedout dir> <seed id e.g. C01-3> <needs-to-manifest text> <detected_by comma list> <checks tried comma list>
Confirms a sub-agent's change with tools/confirm_seed.sh (scratch worktree: applies, compiles, 33 tests, demo 0 without / 1 with)
and, when confirmed, stores it under seeded/<id>/ with meta.json."""
import json, os, shutil, subprocess, sys
src, sid, needs, det, tried = sys.argv[1:6]
here = os.path.dirname(os.path.dirname(os.path.abspath(__file__)))
out = '/tmp/confirm_%s.json' % sid
subprocess.run(['bash', os.path.join(here, 'tools/confirm_seed.sh'), src, out], check=False)
c = json.load(open(out))
ok = c['applies'] == 0 and c['build_rc'] == 0 and 'Ok: 33' in c['tests'] and 'Fail: 0' in c['tests'] \
    and c['demo_rc_without_patch'] == 0 and c['demo_rc_with_patch'] not in (0, None)
print('CONFIRMED' if ok else 'NOT CONFIRMED', c)
if not ok:
    sys.exit(1)
dst = os.path.join(here, 'seeded', sid)
os.makedirs(dst, exist_ok=True)
for f in os.listdir(src):
    if f in ('patch.diff', 'demo.c', 'build.sh', 'notes.txt') or f.endswith(('.c', '.orc', '.h')) and f != 'demo':
        shutil.copy(os.path.join(src, f), dst)
meta = {
    'property': sid.split('-')[0], 'breaks': 'see notes.txt', 'needs_to_manifest': needs,
    'confirmed': {'patch_applies': True, 'compiles': True, 'existing_tests': c['tests'].strip(), 'demo_command': './demo',
                  'demo_exit_without_patch': c['demo_rc_without_patch'], 'demo_exit_with_patch': c['demo_rc_with_patch'],
                  'how': 'scratch git worktree of /repo HEAD under /tmp, meson setup/compile/test, build.sh + demo before and after git apply (tools/confirm_seed.sh via tools/addseed.py)'},
    'detected_by': [x for x in det.split(',') if x], 'checks_tried': [x for x in tried.split(',') if x],
    'check_command': 'tools/seedtest.sh seeded/%s/patch.diff %s' % (sid, ' '.join(tried.split(','))),
    'origin': 'independent sub-agent given only the property text (third round)'}
json.dump(meta, open(os.path.join(dst, 'meta.json'), 'w'), indent=1)
