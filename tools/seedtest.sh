#!/bin/bash
# usage: seedtest.sh <patch.diff> <ID> [<ID>...]
# Applies the patch in a scratch worktree of /repo (outside /repo and /verif), runs the quick checks against it through
# ORC_REPO, removes the worktree.  /repo itself is never modified, so several seeds can be tried while work goes on.
P=$(readlink -f "$1"); shift
W=$(mktemp -d /tmp/seedrun.XXXXXX); rmdir $W
git -C /repo worktree add -q --detach $W HEAD || exit 2
( cd $W && git apply "$P" ) || { echo "patch does not apply"; git -C /repo worktree remove --force $W; exit 2; }
cd /verif
for id in "$@"; do
  L=/tmp/seedtest_$(basename $(dirname $P))_$(basename $(dirname $(dirname $P)))_$id.log
  ORC_REPO=$W ./check $id --tier quick > $L 2>&1; rc=$?
  echo "== $P $id rc=$rc $(grep -c '^VIOLATION' $L) violations; $(grep '^SUMMARY' $L)"
  grep '^  what:' $L | head -3 | cut -c1-250
done
git -C /repo worktree remove --force $W
