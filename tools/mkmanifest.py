#!/usr/bin/env python3
"""Regenerates MANIFEST.json from the table below (single source of truth for what is claimed)."""
import json, os
V = os.path.dirname(os.path.dirname(os.path.abspath(__file__)))

CHECKS = {
 'C09': dict(cat='model_checking', engine='cbmc', technique='CBMC bounded model checking of orccodemem.c: inductive step (alloc/free) from a symbolic chunk-list pre-state under a representation invariant; SAT back end',
             text='Every allocator step from any valid chunk list (R<=3 regions, K<=6 chunks, any request size) preserves tiling/no-overlap/coalescing, frames live chunks and code bytes; a bounded history from the empty allocator cross-checks that the invariant is reachable. Inductive step => histories of any length inside the chunk bound.',
             note='Trusts CBMC 6.11, stubs for mmap/mutex (listed in evidence). Placement independence of emitted code is discharged in C01.', ref='DESIGN.md#c09'),
 'C06': dict(cat='model_checking', engine='cbmc', technique='CBMC with nondeterministic OS-call stubs (fault schedule as solver variables) + configuration-enumerated compile pipeline harness with a stub back end',
             text='All failure combinations of getenv/mkstemp/ftruncate/mmap in one query per harness: no descriptor or mapping leak, MAP_FAILED never used; _orc_compiler_init forces backup+emulate when no executable memory; compile result classification and executor dispatch (native/backup/emulate, program-attached and code-only) for every enumerated configuration.',
             note='OS modelled as may-fail stubs; malloc failure outside; emulation result itself is C02, native==emulation is C01.', ref='DESIGN.md#c06'),

 'C19': dict(cat='model_checking', engine='cbmc', technique='CBMC on orccpu-x86.c/orctarget.c/orcprogram-{mmx,sse,avx}.c with cpuid/xgetbv replaced (ORC_VERIF hook) by fully symbolic 32-bit register words; exhaustive over feature words',
             text='For every value of the CPUID leaves and XCR0 (one SAT query per vendor path): executable marks, default flags, default target = best executable backend, override semantics (unknown / non-executable names never returned by the default path), and the override variable equals the one in doc/running.xml.',
             note='Hook replaces the cpuid/xgetbv instructions; max basic leaf <= 1 (cache-descriptor walks excluded); ORC_CODE -feature switches assumed absent.', ref='DESIGN.md#c19'),
 'C20': dict(cat='model_checking', engine='cbmc', technique='CBMC on orcopcode.c/orcrule.c/orctarget.c/orcexecutor.c with symbolic opcode names, rule-set flags and query flags; configurations (set counts, majors, fill level) enumerated',
             text='Lookup order (first match in registration order, built-ins unchanged), owning-set resolution, rule slot frame, newest-satisfied-rule-set precedence, and emulation dispatch to the application function with the program operand pointers, for all names/flags inside the bounds.',
             note='Names: first byte fixed per configuration, <=3 further arbitrary bytes; <=3 extra sets; capacity overflow of rule_sets[]/targets[] is outside the property.', ref='DESIGN.md#c20'),
 'C14': dict(cat='model_checking', engine='cbmc', technique='CBMC unit-step harnesses on orcparse.c/orcutils.c/orcprogram.c: each parser step (line split, tokenizer, every directive handler via the dispatcher, opcode lines, _strtoll, literal classification, error vector) from a symbolic parser state; induction over lines',
             text='Memory safety, progress (read position strictly advances), bounded token/variable/instruction tables and error-record post-conditions for every line step from any parser state within the bounds; whole files follow by induction over lines.',
             note='strtod/strtol/vasprintf stubbed by their contracts; 4-entry opcode table with the real operand shapes; fill levels of tables enumerated (cap-1, cap), content symbolic; tokens <=3 bytes.', ref='DESIGN.md#c14'),
 'C01': dict(cat='translation_validation', engine='x86sym', technique='symbolic execution of the emitted x86-64 machine code (own executor over objdump decoding, z3) with symbolic n, data, parameters and base-pointer residues; per-path equality with the composed emulation oracle decided by z3 (syntactic normalisation, operand-wise and ite/FP congruence abstraction, then full query)',
             text='For each program of the family and each of sse/avx/mmx: on every feasible path (head/main/tail split for every n<=bound and alignment) destination elements, untouched bytes and accumulators equal the emulation oracle for all data.',
             note='x86sym semantics validated against the host CPU; oracle = reference semantics composed like orc_executor_emulate (emulator==reference is C02); float element equality is C18; divluw data path and ldres* outside.', ref='DESIGN.md#c01'),
 'C02': dict(cat='model_checking', engine='irsym', technique='symbolic execution of the LLVM IR (clang -O1) of all 197 real emulator kernels with own IR executor + z3; closed forms proved equal lane by lane to reference semantics written from the documentation; FP via z3 FP theory with congruence abstraction',
             text='Every kernel, every operand value (solver), n in 1..4 lanes, symbolic chunk offset (position independence); interpreter validated against the natively compiled kernels on each run.',
             note='reference = engines/orcref.py (documentation decisions listed in evidence); shifts limited to 0..width-1; ldres positions enumerated with symbolic array contents; NaN compared by NaN-ness.', ref='DESIGN.md#c02'),
 'C03': dict(cat='translation_validation', engine='x86sym', technique='same symbolic machine-code executions as C01; every load/store event of every feasible path is checked against the entitlement derived from the opcode definitions (oracle read set, [0,n*size) for destinations); alignment obligations of aligned-only instructions decided by z3; plus symbolic execution (own LLVM-IR engine, -O0 IR) of every real emulator kernel on operand objects of exactly the entitled size, n=1..5: an access outside them is a fault path',
             text='No access outside the entitled bytes for any n<=bound, any base alignment, 1-2 rows; no store to a source; aligned-only instructions provably aligned.',
             note='machine code (symbolic n/alignment) and emulator kernels (n<=5, offset 0; ldres*/loadoff* kernels outside: their index arithmetic is C02); generated C: access footprints in C04; speculative reads and prefetch hints ignored.', ref='DESIGN.md#c03'),
 'C10': dict(cat='translation_validation', engine='x86sym', technique='same symbolic executions with the whole entry machine state symbolic; callee-saved registers, rsp, caller stack, DF, MXCSR control bits (for every entry value), MMX state and store targets compared at ret (syntactic, else z3)',
             text='SysV AMD64 callee obligations on every feasible path of every program of the family on sse/avx/mmx (default flags; every 6th program and the structural extras also with the frame-pointer flag).',
             note='entry rounding mode fixed to nearest; exception status bits of MXCSR are sticky flags and not part of the contract; upper YMM cleanliness not checked.', ref='DESIGN.md#c10'),
 'C11': dict(cat='translation_validation', engine='x86sym', technique='compile with each feature-flag subset and symbolically execute with the matching allowed ISA classes: reaching an instruction outside the set on a feasible path is a fault (decoder classifies per instruction form); programs whose bytes are identical under a reduced flag set are decoded completely and every instruction class compared with the flags (static scan, whole family)',
             text='quick: all features, minimal, each single feature removed, per target, on a quarter of the family each; thorough: every subset x whole family.',
             note='ISA classes from the Intel SDM as encoded in engines/x86sym/decoder.py; 32-bit code generation outside; result equality under reduced flags checked in the thorough tier of C01.', ref='DESIGN.md#c11'),
 'C13': dict(cat='model_checking', engine='irsym', technique='symbolic execution (LLVM IR, own executor + z3, path forking) of the real construction API, encoder, decoder and re-encoder on bounded arbitrary valid programs with symbolic sizes, alignments, constants, settings and flags; field-wise and byte-wise equalities decided per path',
             text='decode(encode(P)) equals P field by field and encode(decode(encode(P))) equals encode(P) byte by byte for every value of the symbolic fields; every real opcode, 100-instruction and all-slots boundary programs.',
             note='names, variable kinds and instruction count concrete; integer fields 0..65534 (format range); alignment on arrays only; constants modulo size; interpreter cross-checked natively on random concrete recipes each run.', ref='DESIGN.md#c13'),
 'C04': dict(cat='translation_validation', engine='irsym', technique='symbolic execution of LLVM IR (own executor + z3): (a) regenerated emulator (tools/generate-emulation built from the tree) vs checked-in emulator per kernel, (b) C text emitted by the C back end for the one-instruction program of every opcode vs the emulator kernel, equality for all operand values',
             text='Every kernel of the checked-in emulator is what the generator produces from the current opcode definitions; the generated C of every opcode equals emulation for all inputs (C-level UB inputs reported as UB-NOTE).',
             note='C flags 0 (executor-based form); one-instruction programs, n=2; parameter-indexed loads under the precondition that the documented index is small and non-negative; multi-instruction C bodies in C07.', ref='DESIGN.md#c04'),
 'C18': dict(cat='translation_validation', engine='irsym+x86sym', technique='z3 floating-point theory with congruence abstraction of FP operations: (a) real emulator float kernels (LLVM IR) vs IEEE-with-flush reference, (b) emitted SSE/AVX machine code of float programs vs the emulation oracle on every feasible path under the MXCSR the code installs',
             text='Bit equality for finite inputs, NaN-ness for NaN, either zero for min/max of zeros; all bit patterns.',
             note='RNE at entry; quick tier does not claim machine-code bit equality for mul/div/sqrt/float->int (FP queries not decided in budget); x86 FTZ boundary class is a recorded known finding.', ref='DESIGN.md#c18'),
 'C12': dict(cat='translation_validation', engine='x86sym', technique='assemble the returned listing with GNU as, decode listing bytes and emitted bytes (objdump), compare instruction by instruction modulo alignment padding; pairs whose decodings differ are executed symbolically from one fully symbolic machine state and the successor states compared by z3',
             text='Same instruction sequence (mnemonics, registers, memory operands, immediates, branch destinations as instruction indices) for every program of the family on sse/avx/mmx plus encoder-path programs (displacements around the disp8 boundary, constant-offset resampling loads); a listing the assembler rejects is a violation.',
             note='64-bit x86 only (no cross assemblers for NEON/MIPS/PowerPC in the image); padding nops ignored on both sides.', ref='DESIGN.md#c12'),
 'C16': dict(cat='model_checking', engine='cbmc', technique='CBMC bounded model checking of enumerated lifecycle scripts through the real program/compiler/code/executor TUs with a stub back end; pointer checks (use-after-free, double free) and --memory-leak-check decide each script for all emitted sizes/bytes',
             text='Every enumerated sequence of compile / take_code / reset / recompile / run / emulate / free releases each resource exactly once, taken code stays valid after orc_program_free, no allocation is left behind.',
             note='operation names enumerated (quick 10 scripts x 1-2 configurations + 4 scripts with a failing back end; thorough +60 seed-rotated sequences of length <=3 x 2 configurations + 28 failing-back-end jobs); ghost code-chunk allocator; real x86 back ends outside.', ref='DESIGN.md#c16'),
 'C05': dict(cat='model_checking', engine='cbmc+irsym', technique='CBMC on the real table/loop functions (loop-shift selection with unwinding assertion, variable declaration limits at enumerated fill levels, every append entry point at 99/100 instructions with a frame check on vars[], compile result classification with a stub back end) and symbolic execution (irsym, LLVM IR) of the real front half of the compiler on programs at and beyond the load/store expansion limits',
             text='Termination and value of the loop-shift selection for every register/variable size; no table is written past its capacity and overruns are refused with an error; every result code is classified and fatal/non-fatal/successful results leave the stated state.',
             note='whole x86/NEON/MIPS/Altivec back ends are outside (the C01 family is compiled concretely with a watchdog); irsym detects out-of-bounds per object, member-to-member overflow through post-state invariants.', ref='DESIGN.md#c05'),
 'C07': dict(cat='translation_validation', engine='irsym', technique='orcc built from the tree and run on a corpus in every option set; gcc compile gate (header+implementation, normal and DISABLE_ORC); generated wrappers executed symbolically from clang IR (own executor irsym + z3) through the prototype the header declares: executor contract via a probe code object, wrapper+backup, wrapper+real orc_executor_emulate and DISABLE_ORC bodies vs the composition oracle; user-supplied backup functions (.backup): compile gate + argument round trip; orc_memcpy/orc_memset vs libc semantics',
             text='For the corpus (int/float/64-bit/double parameters, strides, constant n/m, accumulators, several destinations, x2, in-place): all orcc outputs compile; the wrapper hands the code exactly the executor the contract of C01/C02 expects for every argument value; backup and DISABLE_ORC bodies compute the emulation semantics for all array contents and parameter values; orc_memcpy/orc_memset equal memcpy/memset for n up to 33 with misaligned pointers.',
             note='n=3, m=2 fixed; first call (once protocol, bytecode reconstruction) is C08/C13; JIT mode by composition with C01 through the executor contract (emulate mode is executed directly); float-arithmetic bodies are C04; --test and --target assembly output outside.', ref='DESIGN.md#c07'),
 'C08': dict(cat='model_checking', engine='evt', technique='own event-order SMT encoding (z3) of the real functions taken from clang LLVM IR: per-thread guarded memory events, integer clocks, read-from under SC, mutexes as atomic test-and-set; queries: exactly-once/visibility post-condition and C11 happens-before data race, for 2..4 threads',
             text='The once protocol (both compiler-selectable variants), the wrappers orcc generates (built and run at check time), orc_init, and every pairing of the code allocator entry points are serialisable and race free for every interleaving of 2..3 (thorough 4) threads making one call each.',
             note='SC interleavings + C11 hb races; loops in the allocator unrolled (2/3 back edges), heap abstracted to one location for the race query; compile/run bodies are opaque steps (their memory safety is C05/C09/C10); registries-written-only-in-init is assumed; Win32/no-atomics variants cannot be compiled here.', ref='DESIGN.md#c08'),
 'C15': dict(cat='model_checking', engine='cbmc', technique='CBMC two-program equivalence harnesses on the real directive handlers vs the construction API (declarations with symbolic sizes/alignments; .n in 8 keyword arrangements, .m, .flags 2d with functional strtol), symbolic-digit literal harnesses incl. full-width 64-bit hex/decimal, opcode-line operand-order harnesses, relational formatting harnesses on tokenizer and line splitter',
             text='Per-line contracts: directive == API call, literal == its value, prefix/operand order kept, tokens and lines independent of blanks/comments/CR LF; whole-file equality by composition over lines.',
             note='unit contracts + composition argument, not an end-to-end parse(print(P)) query (does not finish in CBMC); float literal values are libc strtod.', ref='DESIGN.md#c15'),
}

NOT_APPLICABLE = {
 'C17': 'history independence needs self-composition of the whole compiler + back ends (two full compilations compared); beyond CBMC/own-encoder reach here (a 1-instruction compile through a stub back end already costs ~2 min). Solver-decidable fragments are claimed under C01 (garbage-independence, load-address independence) and C09 (allocator frame).',
}
PENDING = {}   # filled while the framework is being built: properties with no check yet


def main():
    props = [json.loads(l)['id'] for l in open(os.path.join(V, 'properties.jsonl'))]
    checks = []
    for pid in props:
        if pid not in CHECKS:
            continue
        c = CHECKS[pid]
        checks.append(dict(property_id=pid, quick_cmd='./check %s --tier quick' % pid, thorough_cmd='./check %s --tier thorough' % pid,
                           evidence_file='evidence/%s.json' % pid, replay_cmd_template='./check %s --replay {path}' % pid, engine=c['engine'],
                           level_claimed=dict(category=c['cat'], text=c['text'], design_ref=c['ref']), level_note=c['note'], technique=c['technique']))
    na = []
    for pid in props:
        if pid in CHECKS:
            continue
        reason = NOT_APPLICABLE.get(pid) or PENDING.get(pid) or 'no check registered yet (framework under construction); not claimed'
        na.append(dict(property_id=pid, reason=reason))
    m = dict(version=1,
             setup_cmd='python3 -m compileall -q lib props engines tools >/dev/null 2>&1; true',
             hooks=dict(guard='ORC_VERIF', enable='checks compile the TUs they need from /repo with -DORC_VERIF (gcc/goto-cc/clang command lines in lib/build.py); no meson reconfigure needed',
                        baseline_off_cmd='meson test -C /repo/_build', source_commits=HOOK_COMMITS, add_only=True),
             engines=[dict(name='cbmc', path='lib/cbmc.py', serves_properties=[p for p in props if CHECKS.get(p, {}).get('engine', '').find('cbmc') >= 0], kind_free_text='CBMC 6.11 bounded model checking of goto-cc builds of the real translation units'),
                      dict(name='irsym', path='engines/irsym', serves_properties=[p for p in props if 'irsym' in CHECKS.get(p, {}).get('engine', '')], kind_free_text='own symbolic executor for LLVM IR (clang -O1) with z3'),
                      dict(name='evt', path='engines/evt.py', serves_properties=[p for p in props if 'evt' in CHECKS.get(p, {}).get('engine', '')], kind_free_text='own event-order (partial-order) SMT encoder for bounded thread interleavings of functions taken from LLVM IR'),
                      dict(name='x86sym', path='engines/x86sym', serves_properties=[p for p in props if 'x86sym' in CHECKS.get(p, {}).get('engine', '')], kind_free_text='own symbolic executor for the x86-64 machine code Orc emits (objdump decode, z3)'),
                      ],
             checks=checks, not_applicable=na,
             notes='Solver-based checking of the real code; see DESIGN.md. Exit codes: 0 held, 1 VIOLATION, 2 broken check (encoder mismatch / too many inconclusive).')
    json.dump(m, open(os.path.join(V, 'MANIFEST.json'), 'w'), indent=1)
    print('MANIFEST.json: %d checks, %d not_applicable' % (len(checks), len(na)))


HOOK_COMMITS = ['737203e']
if __name__ == '__main__':
    main()
