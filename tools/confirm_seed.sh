#!/bin/bash
# usage: confirm_seed.sh <seedout dir e.g. /tmp/seedout_C09/1> <out json>
# Confirms a seeded defect in a scratch worktree: compiles, the 33 tests pass with the patch, demo fails with / passes without.
D=$(readlink -f $1); OUT=$2
W=$(mktemp -d /tmp/seedconf.XXXXXX); rmdir $W
git -C /repo worktree add -q --detach $W HEAD || exit 2
cd $W
meson setup _b . >/dev/null 2>&1 && meson compile -C _b >/dev/null 2>&1
( bash $D/build.sh $W >/dev/null 2>&1; cd $D; DEMO=$(ls -t | grep -v "\.\(c\|sh\|txt\|diff\|h\|orc\|log\|json\)$" | head -1); [ -n "$DEMO" ] && ( timeout 300 ./$DEMO $(cat args.txt 2>/dev/null) >/dev/null 2>&1; echo $? > /tmp/rc_without.$$ ) )
git apply $D/patch.diff; AP=$?
meson compile -C _b >/dev/null 2>&1; BUILD=$?
T=$(meson test -C _b 2>&1 | grep -E "^Ok:|^Fail:" | tr -s ' ' | tr '\n' ' ')
( bash $D/build.sh $W >/dev/null 2>&1; cd $D; DEMO=$(ls -t | grep -v "\.\(c\|sh\|txt\|diff\|h\|orc\|log\|json\)$" | head -1); [ -n "$DEMO" ] && ( timeout 300 ./$DEMO $(cat args.txt 2>/dev/null) >/dev/null 2>&1; echo $? > /tmp/rc_with.$$ ) )
echo "{\"applies\":$AP,\"build_rc\":$BUILD,\"tests\":\"$T\",\"demo_rc_without_patch\":$(cat /tmp/rc_without.$$ 2>/dev/null || echo null),\"demo_rc_with_patch\":$(cat /tmp/rc_with.$$ 2>/dev/null || echo null)}" > $OUT
cat $OUT
rm -f /tmp/rc_with.$$ /tmp/rc_without.$$
cd /; git -C /repo worktree remove --force $W
