/* C20: application-registered opcode sets and rule sets.
 * Real code (linked): orcopcode.c, orcrule.c, orctarget.c, orcexecutor.c (orc_executor_emulate), orcutils.c */
#include "verif.h"
#include <orc/orc.h>
#include <orc/orcinternal.h>
#include <string.h>
#include <stdarg.h>

#ifndef NEXT
#define NEXT 2          /* extra opcode sets */
#endif
#ifndef NOPS
#define NOPS 2          /* opcodes per extra set */
#endif
#ifndef NRS
#define NRS 3           /* rule sets on the target */
#endif
#ifndef QSET
#define QSET 1
#endif
#ifndef MAJORS
#define MAJORS 0, 1, 1
#endif
#ifndef PRE_RS
#define PRE_RS 0        /* rule sets already present on the target (fill level) */
#endif

void orc_debug_print (int level, const char *file, const char *func, int line, const char *format, ...) { }
int sprintf (char *str, const char *format, ...) { str[0] = 0; return 0; }
void orc_global_mutex_lock (void) { }
void orc_global_mutex_unlock (void) { }

static int sys_calls[3], ext_calls[NEXT][NOPS];
static void *last_d, *last_s; static int last_off, last_n;
static void emu_sys0 (OrcOpcodeExecutor *ex, int o, int n) { sys_calls[0]++; }
static void emu_sys1 (OrcOpcodeExecutor *ex, int o, int n) { sys_calls[1]++; }
static void emu_sys2 (OrcOpcodeExecutor *ex, int o, int n) { sys_calls[2]++; }
#define EXT_EMU(s,k) static void emu_ext_##s##_##k (OrcOpcodeExecutor *ex, int o, int n) { ext_calls[s][k]++; last_d = ex->dest_ptrs[0]; last_s = ex->src_ptrs[0]; last_off = o; last_n = n; }
EXT_EMU(0,0) EXT_EMU(0,1) EXT_EMU(0,2)
#if NEXT > 1
EXT_EMU(1,0) EXT_EMU(1,1) EXT_EMU(1,2)
#endif
#if NEXT > 2
EXT_EMU(2,0) EXT_EMU(2,1) EXT_EMU(2,2)
#endif

static OrcStaticOpcode sys_ops[] = {
  { "addb", 0, { 1 }, { 1, 1 }, emu_sys0 },
  { "addw", 0, { 2 }, { 2, 2 }, emu_sys1 },
  { "ab", 0, { 1 }, { 1 }, emu_sys2 },
  { "" }
};
static OrcStaticOpcode ext_ops[NEXT][NOPS + 1];
static OrcOpcodeEmulateNFunc ext_emu[3][3] = {
  { emu_ext_0_0, emu_ext_0_1, emu_ext_0_2 },
#if NEXT > 1
  { emu_ext_1_0, emu_ext_1_1, emu_ext_1_2 },
#endif
#if NEXT > 2
  { emu_ext_2_0, emu_ext_2_1, emu_ext_2_2 },
#endif
};

#ifndef FIRSTCH
#define FIRSTCH 'a'
#endif
static void nondet_name (char *d)
{
  /* arbitrary non-empty name of <= 4 bytes; the first byte is a configuration constant so that the
   * opcode count of a registered set (computed by scanning for an empty name) stays concrete */
  int len = nondet_int (); V_ASSUME (len >= 1 && len <= 4);
  d[0] = FIRSTCH;
  for (int i = 1; i < 5; i++) { char c = nondet_char (); if (i < len) { V_ASSUME (c != 0); d[i] = c; } else d[i] = 0; }
}

static void setup_sets (void)
{
  int major = orc_opcode_register_static (sys_ops, "sys");
  V_ASSERT (major == 0, "first registered set gets major 0");
  for (int s = 0; s < NEXT; s++) {
    for (int k = 0; k < NOPS; k++) {
      nondet_name (ext_ops[s][k].name);
      ext_ops[s][k].dest_size[0] = 1; ext_ops[s][k].src_size[0] = 1;
      ext_ops[s][k].emulateN = ext_emu[s][k];
    }
    ext_ops[s][NOPS].name[0] = 0;
    char pfx[4] = { 'x', (char) ('0' + s), 0, 0 };
    int m = orc_opcode_register_static (ext_ops[s], pfx);
    V_ASSERT (m == s + 1, "majors are assigned in registration order");
  }
}

/* reference: first match in registration order */
static OrcStaticOpcode *ref_find (const char *q)
{
  for (int k = 0; k < 3; k++) if (strcmp (q, sys_ops[k].name) == 0) return &sys_ops[k];
  for (int s = 0; s < NEXT; s++) for (int k = 0; k < NOPS; k++) if (strcmp (q, ext_ops[s][k].name) == 0) return &ext_ops[s][k];
  return 0;
}

void h_lookup (void)
{
  setup_sets ();
  char q[5]; nondet_name (q);
  OrcStaticOpcode *got = orc_opcode_find_by_name (q);
  V_ASSERT (got == ref_find (q), "find_by_name returns the first match in registration order (built-ins first)");
  V_ASSERT (orc_opcode_find_by_name ("addb") == &sys_ops[0] && orc_opcode_find_by_name ("addw") == &sys_ops[1] && orc_opcode_find_by_name ("ab") == &sys_ops[2],
            "built-in opcodes are found exactly as before the registration");
  /* owning set of every opcode pointer */
  for (int k = 0; k < 3; k++) V_ASSERT (orc_opcode_set_find_by_opcode (&sys_ops[k]) == orc_opcode_set_get ("sys"), "built-in opcode belongs to sys");
  for (int s = 0; s < NEXT; s++) for (int k = 0; k < NOPS; k++) {
    OrcOpcodeSet *os = orc_opcode_set_find_by_opcode (&ext_ops[s][k]);
    V_ASSERT (os != 0 && os->opcode_major == s + 1 && os->opcodes == ext_ops[s] && os->n_opcodes == NOPS, "extension opcode belongs to its own set");
  }
  V_ASSERT (orc_opcode_set_find_by_opcode (&sys_ops[3]) == 0, "terminator entry belongs to no set");
  V_ASSERT (orc_opcode_set_get ("sys")->n_opcodes == 3 && orc_opcode_set_get ("sys")->opcodes == sys_ops, "sys set unchanged");
  V_ASSERT (orc_opcode_set_get ("x0") != 0 && orc_opcode_set_get ("nope") == 0, "sets are found by prefix");
  V_WITNESS ();
}

static void emitA (OrcCompiler *c, void *u, OrcInstruction *i) { }
static void emitB (OrcCompiler *c, void *u, OrcInstruction *i) { }
static OrcTarget tgt;

void h_rules (void)
{
  setup_sets ();
  tgt.name = "t";
  /* pre-existing rule sets (fill level PRE_RS) for the sys set with arbitrary flags */
  for (int i = 0; i < PRE_RS; i++) { OrcRuleSet *r = orc_rule_set_new (orc_opcode_set_get ("sys"), &tgt, nondet_uint ()); if (nondet_bool ()) orc_rule_register (r, "addb", emitA, 0); }
  OrcRuleSet *rs[NRS]; unsigned req[NRS]; int major[NRS]; int has[NRS]; int slot_other[NRS];
  int which = nondet_int (); V_ASSUME (which >= 0 && which < NOPS);       /* opcode (index) we will query */
  int qset = QSET;           /* its set: 0 = sys (configuration: allocation sizes depend on it) */
  static const int majors_cfg[] = { MAJORS };
  for (int i = 0; i < NRS; i++) {
    major[i] = majors_cfg[i];
    req[i] = nondet_uint ();
    rs[i] = orc_rule_set_new (orc_opcode_set_get_nth (major[i]), &tgt, req[i]);
    V_ASSERT (rs[i] == &tgt.rule_sets[PRE_RS + i] && tgt.n_rule_sets == PRE_RS + i + 1, "rule sets are appended in order");
    V_ASSERT (PRE_RS + i < ORC_N_RULE_SETS, "harness stays within the rule-set capacity");
    has[i] = nondet_bool ();
    if (has[i] && major[i] == qset) {
      const char *nm = qset == 0 ? sys_ops[which].name : ext_ops[qset - 1][which].name;
      /* names inside one set may collide: register by name hits the first slot with that name */
      orc_rule_register (rs[i], nm, i & 1 ? emitA : emitB, (void *) (size_t) (i + 1));
    }
    slot_other[i] = -1;
    if (has[i] && major[i] != qset) {
      /* a rule sitting at the same index in a rule set that belongs to *another* opcode set must never be returned */
      int n2 = major[i] == 0 ? 3 : NOPS;
      int w2 = which < n2 ? which : n2 - 1;
      const char *nm2 = major[i] == 0 ? sys_ops[w2].name : ext_ops[major[i] - 1][w2].name;
      orc_rule_register (rs[i], nm2, emitA, (void *) (size_t) 99);
      slot_other[i] = orc_opcode_set_find_by_name (orc_opcode_set_get_nth (major[i]), nm2);
    }
  }
  OrcStaticOpcode *op = qset == 0 ? &sys_ops[which] : &ext_ops[qset - 1][which];
  /* slot written by orc_rule_register = index of the first opcode in the owning set with that name */
  int slot = orc_opcode_set_find_by_name (orc_opcode_set_get_nth (qset), op->name);
  V_ASSERT (slot >= 0 && slot <= which, "name lookup inside the owning set");
  unsigned flags = nondet_uint ();
  OrcRule *got = orc_target_get_rule (&tgt, op, flags);
  /* reference: newest rule set of that major whose required flags are satisfied and which has an emitter in the slot */
  OrcRule *want = 0;
  for (int i = NRS - 1; i >= 0; i--) {
    if (major[i] != qset) continue;
    if (req[i] & ~flags) continue;
    if (rs[i]->rules[slot].emit) { want = &rs[i]->rules[slot]; break; }
  }
  if (want == 0 && qset == 0 && slot == 0) {
    for (int i = PRE_RS - 1; i >= 0; i--) {
      if (tgt.rule_sets[i].required_target_flags & ~flags) continue;
      if (tgt.rule_sets[i].rules[0].emit) { want = &tgt.rule_sets[i].rules[0]; break; }
    }
  }
  V_ASSERT (got == want, "get_rule returns the newest satisfied rule set that has an emitter, else older ones, else NULL");
  /* frame: registration wrote exactly the addressed slot */
  for (int i = 0; i < NRS; i++) {
    int n = major[i] == 0 ? 3 : NOPS;
    for (int k = 0; k < 3; k++) { if (k >= n) break;
      if (has[i] && major[i] != qset) { if (k == slot_other[i]) V_ASSERT (rs[i]->rules[k].emit == emitA && rs[i]->rules[k].emit_user == (void *) (size_t) 99, "rule of another opcode set sits in its own slot");
                                          else V_ASSERT (rs[i]->rules[k].emit == 0 && rs[i]->rules[k].emit_user == 0, "other rule slots stay empty"); continue; }
      if (!(has[i] && major[i] == qset && k == slot)) V_ASSERT (rs[i]->rules[k].emit == 0 && rs[i]->rules[k].emit_user == 0, "other rule slots stay empty");
      else V_ASSERT (rs[i]->rules[k].emit == (i & 1 ? emitA : emitB) && rs[i]->rules[k].emit_user == (void *) (size_t) (i + 1), "registered slot holds emitter and user data");
    }
  }
  V_WITNESS ();
}

/* emulation dispatches to the application's function with the operand pointers of the program */
void h_emulate_ext (void)
{
  setup_sets ();
  int s = nondet_int (), k = nondet_int ();
  V_ASSUME (s >= 0 && s < NEXT && k >= 0 && k < NOPS);
  static OrcCode code; static OrcInstruction insn[2]; static OrcCodeVariable vars[ORC_N_COMPILER_VARIABLES];
  static orc_uint8 d[40], src[40];
  memset (&code, 0, sizeof code);
  insn[0].opcode = &ext_ops[s][k]; insn[0].dest_args[0] = ORC_VAR_D1; insn[0].src_args[0] = ORC_VAR_S1;
  insn[1].opcode = &sys_ops[2]; insn[1].dest_args[0] = ORC_VAR_D1; insn[1].src_args[0] = ORC_VAR_S1;
  vars[ORC_VAR_D1].vartype = ORC_VAR_TYPE_DEST; vars[ORC_VAR_D1].size = 1;
  vars[ORC_VAR_S1].vartype = ORC_VAR_TYPE_SRC; vars[ORC_VAR_S1].size = 1;
  code.n_insns = 2; code.insns = insn; code.vars = vars;
  static OrcExecutor ex;
  ex.program = 0; ex.arrays[ORC_VAR_A2] = &code; ex.arrays[ORC_VAR_D1] = d; ex.arrays[ORC_VAR_S1] = src;
  int n = nondet_int (); V_ASSUME (n >= 1 && n <= 16);
  ex.n = n;
  orc_executor_emulate (&ex);
  for (int a = 0; a < NEXT; a++) for (int b = 0; b < NOPS; b++)
    V_ASSERT (ext_calls[a][b] == ((a == s && b == k) ? 1 : 0), "exactly the application's emulation function of the used opcode runs, once per chunk");
  V_ASSERT (sys_calls[2] == 1 && sys_calls[0] == 0 && sys_calls[1] == 0, "built-in instruction of the same program still uses the built-in function");
  V_ASSERT (last_d == d && last_s == src && last_off == 0 && last_n == n, "extension function receives the program's operand pointers, offset and n");
  V_WITNESS ();
}
