/* C19: CPU feature detection, executable marking, default flags, default target and override.
 * Real code (linked TUs): orccpu-x86.c (orc_x86_detect_cpuid, orc_x86_cpuid_handle_standard_flags, vendor paths),
 * orcprogram-{mmx,sse,avx}.c (*_is_executable, *_get_default_flags, orc_*_init), orcprogram-x86.c
 * (orc_x86_register_extension), orctarget.c (orc_target_register, orc_target_get_default, orc_target_get_by_name). */
#include "verif.h"
#include <orc/orc.h>
#include <orc/orcinternal.h>
#include <orc/orcx86.h>
#include <orc/orcsse.h>
#include <orc/orcmmx.h>
#include <orc/orcavx.h>
#include <string.h>

#ifndef VENDOR
#define VENDOR 0      /* 0 Intel, 1 AMD, 2 other */
#endif
#ifndef OVERRIDE
#define OVERRIDE 0    /* 0 unset, 1 arbitrary string <= 7 chars */
#endif

extern void (*orc_verif_cpuid_hook) (orc_uint32, orc_uint32, orc_uint32 *, orc_uint32 *, orc_uint32 *, orc_uint32 *);
extern orc_uint32 (*orc_verif_xgetbv_hook) (void);

void orc_debug_print (int level, const char *file, const char *func, int line, const char *format, ...) { }
int orc_compiler_flag_check (const char *flag) { return 0; }   /* ORC_CODE carries no -feature switches */
void orc_compiler_sse_register_rules (OrcTarget *t) { }
void orc_compiler_avx_register_rules (OrcTarget *t) { }
void orc_compiler_mmx_register_rules (OrcTarget *t) { }
int _orc_compiler_flag_debug;

/* arbitrary but per-leaf-stable cpuid */
static orc_uint32 l0_a, l1_a, l1_b, l1_c, l1_d, l7_b, l7_c, l7_d, e0_a, e1_c, e1_d, xcr0;
static orc_uint32 other[4];
static void cpuid_stub (orc_uint32 op, orc_uint32 ecx_in, orc_uint32 *a, orc_uint32 *b, orc_uint32 *c, orc_uint32 *d)
{
  switch (op) {
    case 0:
      *a = l0_a; *b = 0; *d = 0;
      *c = VENDOR == 0 ? (('n'<<0)|('t'<<8)|('e'<<16)|('l'<<24)) : VENDOR == 1 ? (('c'<<0)|('A'<<8)|('M'<<16)|('D'<<24)) : 0x12345678;
      break;
    case 1: *a = l1_a; *b = l1_b; *c = l1_c; *d = l1_d; break;
    case 7: *a = 0; *b = l7_b; *c = l7_c; *d = l7_d; break;
    case 0x80000000u: *a = e0_a; *b = 0; *c = 0; *d = 0; break;
    case 0x80000001u: *a = 0; *b = 0; *c = e1_c; *d = e1_d; break;
    default: *a = other[0]; *b = other[1]; *c = other[2]; *d = other[3]; break;
  }
}
static orc_uint32 xgetbv_stub (void) { return xcr0; }

static char envbuf[8];
static int env_key_ok = 1;
static const char DOCVAR[] = DOC_ENVVAR;
char *_orc_getenv (const char *key)
{
  if (strcmp (key, DOCVAR) != 0) env_key_ok = 0;
#if OVERRIDE
  char *r = v_malloc (8);
  for (int i = 0; i < 8; i++) r[i] = envbuf[i];
  return r;
#else
  return 0;
#endif
}

static OrcTarget t_c, t_neon;

void h_cpu (void)
{
  l0_a = nondet_uint (); l1_a = nondet_uint (); l1_b = nondet_uint (); l1_c = nondet_uint (); l1_d = nondet_uint ();
  l7_b = nondet_uint (); l7_c = nondet_uint (); l7_d = nondet_uint (); e0_a = nondet_uint (); e1_c = nondet_uint (); e1_d = nondet_uint ();
  xcr0 = nondet_uint ();
  for (int i = 0; i < 4; i++) other[i] = nondet_uint ();
  /* bound: the cache-descriptor walk (leaf 2/4, branding string) is not the subject */
  V_ASSUME (l0_a <= 1);
  V_ASSUME (e0_a < 4 || e0_a >= 0x80000000u);
  for (int i = 0; i < 7; i++) envbuf[i] = nondet_char ();
  envbuf[7] = 0;
  orc_verif_cpuid_hook = cpuid_stub;
  orc_verif_xgetbv_hook = xgetbv_stub;

  /* registration in the order of orc_init(): c, mmx, sse, avx, neon */
  t_c.name = "c"; t_c.executable = 0; orc_target_register (&t_c);
  orc_mmx_init ();
  orc_sse_init ();
  orc_avx_init ();
  t_neon.name = "neon"; t_neon.executable = 0; orc_target_register (&t_neon);

  OrcTarget *mmx = orc_target_get_by_name ("mmx"), *sse = orc_target_get_by_name ("sse"), *avx = orc_target_get_by_name ("avx");
  V_ASSERT (mmx && sse && avx, "x86 targets registered and found by name");
  V_ASSERT (orc_target_get_by_name ("c") == &t_c && orc_target_get_by_name ("neon") == &t_neon, "lookup by name returns the named target");
  V_ASSERT (orc_target_get_by_name ("ssse") == 0 && orc_target_get_by_name ("") == 0, "unknown names are not found");

  int has = l0_a >= 1;
  int f_mmx = has && (l1_d >> 23 & 1), f_sse2 = has && (l1_d >> 26 & 1), f_sse3 = has && (l1_c & 1), f_ssse3 = has && (l1_c >> 9 & 1);
  int f_sse41 = has && (l1_c >> 19 & 1), f_sse42 = has && (l1_c >> 20 & 1);
  int f_osxsave = has && (l1_c >> 26 & 1) && (l1_c >> 27 & 1) && ((xcr0 & 6) == 6);
  int f_avx = f_osxsave && (l1_c >> 28 & 1), f_avx2 = f_avx && (l7_b >> 5 & 1);

  V_ASSERT (mmx->executable == f_mmx, "mmx executable iff CPUID reports MMX");
  V_ASSERT (sse->executable == f_sse2, "sse executable iff CPUID reports SSE2");
  V_ASSERT (avx->executable == (f_avx && f_avx2), "avx executable iff AVX and AVX2 and OS-enabled XMM+YMM state");

  unsigned sf = orc_target_get_default_flags (sse), af = orc_target_get_default_flags (avx), mf = orc_target_get_default_flags (mmx);
  V_ASSERT (!!(sf & ORC_TARGET_SSE_SSE2) == f_sse2 && !!(sf & ORC_TARGET_SSE_SSE3) == f_sse3 && !!(sf & ORC_TARGET_SSE_SSSE3) == f_ssse3
            && !!(sf & ORC_TARGET_SSE_SSE4_1) == f_sse41 && !!(sf & ORC_TARGET_SSE_SSE4_2) == f_sse42, "sse default flags are exactly the detected features");
  V_ASSERT (!!(af & ORC_TARGET_AVX_AVX) == f_avx && !!(af & ORC_TARGET_AVX_AVX2) == f_avx2, "avx default flags claim AVX/AVX2 only when usable");
  V_ASSERT (!!(af & ORC_TARGET_SSE_SSE3) == f_sse3 && !!(af & ORC_TARGET_SSE_SSSE3) == f_ssse3 && !!(af & ORC_TARGET_SSE_SSE4_1) == f_sse41, "avx default flags: SSE-level bits as detected");
  V_ASSERT (!!(mf & ORC_TARGET_MMX_MMX) == f_mmx && !!(mf & ORC_TARGET_MMX_SSSE3) == f_ssse3 && !!(mf & ORC_TARGET_MMX_SSE4_1) == f_sse41, "mmx default flags as detected");
  if (mf & ORC_TARGET_MMX_MMXEXT) V_ASSERT (f_sse2 || (VENDOR == 1 && e0_a >= 1 && (e1_d >> 22 & 1)), "MMXEXT only with SSE or AMD extended MMX");
  V_ASSERT ((sf & ORC_TARGET_SSE_64BIT) && (af & ORC_TARGET_SSE_64BIT) && (mf & ORC_TARGET_MMX_64BIT), "64-bit code generation on amd64");

  OrcTarget *best = (f_avx && f_avx2) ? avx : f_sse2 ? sse : f_mmx ? mmx : 0;
  OrcTarget *def = orc_target_get_default ();
  V_ASSERT (env_key_ok, "the override variable read is the documented one");
#if OVERRIDE == 0
  V_ASSERT (def == best, "default target is the most capable executable backend");
  V_ASSERT (orc_target_get_by_name (0) == best, "NULL name means default");
#else
  OrcTarget *named = orc_target_get_by_name (envbuf);
  if (named == 0) V_ASSERT (def == best, "unknown override name falls back to the default");
  else if (named->executable) V_ASSERT (def == named, "override naming an executable backend is honoured");
  else V_ASSERT (def == 0 || def->executable, "override naming a backend this CPU cannot execute is not handed back by the default path");
#endif
  V_WITNESS ();
}
