/* C14: the .orc parser is total.  Unit steps of orc/orcparse.c (included for access to its static functions)
 * from symbolic states; linked with orcutils.c, orcprogram.c. */
#include "verif.h"
#include <stdarg.h>
#include "orcparse.c"

/* ---- stubs ------------------------------------------------------------------------------------------ */
void orc_debug_print (int level, const char *file, const char *func, int line, const char *format, ...) { }
int vasprintf (char **strp, const char *fmt, va_list ap) { char *s = v_malloc (2); s[0] = 'e'; s[1] = 0; *strp = s; return 1; }
int snprintf (char *str, size_t size, const char *format, ...) { if (size) str[0] = 0; return 0; }
int sprintf (char *str, const char *format, ...) { str[0] = 0; return 0; }
/* strtod/strtol: arbitrary value, end pointer anywhere inside the string (over-approximation of libc) */
/* all strings in these harnesses are shorter than 12 bytes; the explicit bound keeps symex cheap when the pointer is a merged (symbolic) token pointer */
static size_t v_strlen (const char *s) { size_t n = 0; for (; n < 12; n++) if (!s[n]) break; return n; }
double strtod (const char *nptr, char **endptr)
{
  /* libc contract, over-approximated: no conversion when the string cannot start a number
   * (first byte not a digit, sign, '.', blank, or the i/n of inf/nan); otherwise the end pointer is
   * anywhere inside the string */
  char c = nptr[0];
  int may = (c >= '0' && c <= '9') || c == '+' || c == '-' || c == '.' || c == ' ' || (c >= 9 && c <= 13) || c == 'i' || c == 'I' || c == 'n' || c == 'N';
  if (!may) { if (endptr) *endptr = (char *) nptr; return 0.0; }
  size_t l = v_strlen (nptr); size_t k = nondet_size_t (); V_ASSUME (k <= l); if (endptr) *endptr = (char *) nptr + k; return 0.0;
}
#ifdef STRTOL_FUNCTIONAL
/* arbitrary but functional: the same token always converts to the same value (the harness reads it back with tokval) */
static const char *st_seen[6]; static long st_val[6]; static int st_n;
static long tokval (const char *t)
{
  for (int i = 0; i < 6; i++) { if (i >= st_n) break; if (st_seen[i] == t) return st_val[i]; }
  long v = nondet_long (); V_ASSUME (v >= 1 && v <= 100000);
  if (st_n < 6) { st_seen[st_n] = t; st_val[st_n] = v; st_n++; }
  return v;
}
long strtol (const char *nptr, char **endptr, int base)
{ if (endptr) *endptr = (char *) nptr + v_strlen (nptr); return tokval (nptr); }
#else
long strtol (const char *nptr, char **endptr, int base)
{ size_t l = v_strlen (nptr); size_t k = nondet_size_t (); V_ASSUME (k <= l); if (endptr) *endptr = (char *) nptr + k; return nondet_long (); }
#endif
void orc_init (void) { }
int isspace (int c) { return c == ' ' || (c >= 9 && c <= 13); }
static void emu (OrcOpcodeExecutor *ex, int o, int n) { }
static OrcStaticOpcode ops[] = {
  { "addb", 0, { 1 }, { 1, 1 }, emu },
  { "copyb", 0, { 1 }, { 1 }, emu },
  { "splitwb", 0, { 1, 1 }, { 2 }, emu },
  { "ldresl", 0, { 4 }, { 4, 4, 4 }, emu },
  { "" }
};
static OrcOpcodeSet the_set = { 0, "sys", 4, ops };
OrcOpcodeSet *orc_opcode_set_get (const char *name) { return &the_set; }
OrcStaticOpcode *orc_opcode_find_by_name (const char *name)
{ for (int i = 0; i < 4; i++) if (strcmp (name, ops[i].name) == 0) return &ops[i]; return 0; }

#ifndef L
#define L 6
#endif

/* ---- (a) line splitter: progress + exact copy --------------------------------------------------- */
void h_get_line (void)
{
  static char text[L + 1];
  for (int i = 0; i < L; i++) text[i] = nondet_char ();
  text[L] = 0;
  OrcParser parser; 
  orc_parse_init (&parser, text, 1);
  size_t len = v_strlen (text);
  V_ASSERT (parser.code_length == (int) len, "init records the text length");
  size_t pos = nondet_size_t (); V_ASSUME (pos < len);      /* orc_parse_has_data() holds */
  parser.p = text + pos;
  int ln = nondet_int (); V_ASSUME (ln >= 0 && ln < 1000000);
  parser.line_number = ln;
  orc_parse_get_line (&parser);
  V_ASSERT (parser.p > text + pos, "every line strictly advances the read position (termination)");
  V_ASSERT (parser.p <= text + len, "read position never passes the terminator");
  V_ASSERT (parser.line_number == ln + 1 && parser.line_number >= 1, "line numbers count from 1");
  V_ASSERT (parser.line != 0 && parser.line_length >= 0 && pos + parser.line_length <= len, "line length inside the text");
  for (int i = 0; i < L; i++) { if (i >= parser.line_length) break; V_ASSERT (parser.line[i] == text[pos + i] && text[pos + i] != '\n', "line copy equals the source bytes up to the newline"); }
  V_ASSERT (parser.line[parser.line_length] == 0, "line copy is terminated");
  /* the line ends at a newline, at CR LF, or at the end of the text */
  { char e = text[pos + parser.line_length]; V_ASSERT (e == 0 || e == '\n' || (e == '\r' && text[pos + parser.line_length + 1] == '\n') || (e == '\r' && text[pos + parser.line_length + 1] == 0), "line ends at LF, CR LF or end of text"); }
  orc_parse_free_line (&parser);
  V_WITNESS ();
}

/* ---- (b) tokenizer from any intermediate state -------------------------------------------------- */
void h_tokens (void)
{
  char *buf = v_malloc (L + 1);
  int len = nondet_int (); V_ASSUME (len >= 0 && len <= L);
  for (int i = 0; i < L; i++) { char c = nondet_char (); if (i < len) { V_ASSUME (c != 0 && c != '\n'); buf[i] = c; } else buf[i] = 0; }
  buf[L] = 0;
  OrcLine line; memset (&line, 0, sizeof line);
  int off = nondet_int (); V_ASSUME (off >= 0 && off <= len);
  line.p = buf + off; line.end = buf + len;
  int nt = nondet_int (); V_ASSUME (nt >= 0 && nt <= ORC_LINE_MAX_TOKENS);   /* invariant of the tokenizer loop */
  line.n_tokens = nt;
  for (int i = 0; i < ORC_LINE_MAX_TOKENS; i++) line.tokens[i] = buf;
  orc_line_parse_tokens (&line);
  V_ASSERT (line.n_tokens >= nt && line.n_tokens <= ORC_LINE_MAX_TOKENS, "token count never exceeds the token array");
  V_ASSERT (line.p >= buf + off && line.p <= buf + len + 1, "scan position stays inside the line buffer");
  for (int i = 0; i < ORC_LINE_MAX_TOKENS; i++) { if (i < nt || i >= line.n_tokens) continue;
    V_ASSERT (line.tokens[i] >= buf + off && line.tokens[i] <= buf + len, "token pointers point into the line");
    for (const char *q = line.tokens[i]; *q; q++) V_ASSERT (*q != ' ' && *q != '\t' && *q != ',', "tokens contain no separators");
  }
  V_WITNESS ();
}

/* ---- token vectors for handlers ------------------------------------------------------------------- */
#ifndef NTOK
#define NTOK 3
#endif
#ifndef TL
#define TL 3
#endif
static char tokbuf[ORC_LINE_MAX_TOKENS][TL + 1];
/* SYMPOS: bit mask of token positions that are arbitrary strings of <= TL bytes; the other positions hold
 * the concrete well-formed tokens of CONCRETE_TOKENS (keeps the name-lookup loops cheap: one symbolic string at a time) */
#ifndef SYMPOS
#define SYMPOS 0xffff
#endif
#ifndef CONCRETE_TOKENS
#define CONCRETE_TOKENS "x", "1", "sa", "sa", "sa", "sa", "sa", "sa"
#endif
static const char *concrete_tokens[] = { CONCRETE_TOKENS, "z", "z", "z", "z", "z", "z", "z", "z", "z", "z", "z", "z", "z", "z", "z", "z" };
static void mk_line (OrcLine *line, int ntok, const char *first)
{
  memset (line, 0, sizeof *line);
  for (int i = 0; i < ntok; i++) {
    if ((SYMPOS >> i) & 1) {
      for (int k = 0; k < TL; k++) tokbuf[i][k] = nondet_char ();
      tokbuf[i][TL] = 0;
      line->tokens[i] = tokbuf[i];
    } else line->tokens[i] = concrete_tokens[i];
  }
  if (first) line->tokens[0] = first;
  line->n_tokens = ntok;
}

static OrcProgram *mk_program (void)
{
  /* a valid program whose tables are at the configured fill level */
  OrcProgram *p = orc_program_new ();
  orc_program_set_name (p, "f");
#ifdef FILL_SRC
  for (int i = 0; i < FILL_SRC; i++) { char nm[3] = { 's', (char) ('a' + i), 0 }; orc_program_add_source (p, 1, nm); }
#endif
#ifdef FILL_DEST
  for (int i = 0; i < FILL_DEST; i++) { char nm[3] = { 'd', (char) ('a' + i), 0 }; orc_program_add_destination (p, 1, nm); }
#endif
#ifdef FILL_CONST
  for (int i = 0; i < FILL_CONST; i++) { char nm[3] = { 'c', (char) ('a' + i), 0 }; orc_program_add_constant (p, 1, i, nm); }
#endif
#ifdef FILL_TEMP
  for (int i = 0; i < FILL_TEMP; i++) { char nm[3] = { 't', (char) ('a' + i), 0 }; orc_program_add_temporary (p, 1, nm); }
#endif
#ifdef FILL_PARAM
  for (int i = 0; i < FILL_PARAM; i++) { char nm[3] = { 'p', (char) ('a' + i), 0 }; orc_program_add_parameter (p, 1, nm); }
#endif
#ifdef FILL_ACC
  for (int i = 0; i < FILL_ACC; i++) { char nm[3] = { 'a', (char) ('a' + i), 0 }; orc_program_add_accumulator (p, 2, nm); }
#endif
#ifdef FILL_INSNS
  orc_program_add_temporary (p, 1, "x");
  for (int i = 0; i < FILL_INSNS; i++) orc_program_append_str (p, "copyb", "x", "x", 0);
#endif
  return p;
}

#ifndef DIRECTIVE
#define DIRECTIVE ".source"
#endif
#ifndef HAVE_PROGRAM
#define HAVE_PROGRAM 1
#endif
/* ---- (c) one directive line from an arbitrary parser state, through the dispatcher ----------------- */
void h_directive (void)
{
  OrcParser parser; memset (&parser, 0, sizeof parser);
  parser.code = ""; parser.opcode_set = &the_set; parser.enable_errors = 1; parser.line_number = 7;
#if HAVE_PROGRAM
  parser.program = mk_program ();
  orc_vector_append (&parser.programs, parser.program);
#endif
  /* an earlier .init may have left a name behind (arbitrary parser state) */
  if (nondet_bool ()) { parser.init_function = v_malloc (3); parser.init_function[0] = 'i'; parser.init_function[1] = 0; }
  OrcLine line;
  mk_line (&line, NTOK, DIRECTIVE);
  int ne0 = parser.errors.n_items;
  OrcProgram *p0 = parser.program;
  int r = orc_parse_handle_directive (&parser, &line);
  /* whatever the line was, the recorded init function is either absent or a live string (it is handed to the
   * application with the first program and freed by it) */
  if (parser.init_function) { char c0 = parser.init_function[0]; (void) c0; }
  V_ASSERT (r == 0 || r == 1, "handler returns");
  V_ASSERT (parser.errors.n_items >= ne0, "errors only accumulate");
  for (int i = 0; i < 4; i++) { if (i < ne0 || i >= parser.errors.n_items) continue;
    OrcParseError *e = parser.errors.items[i];
    V_ASSERT (e != 0 && e->line_number == 7 && e->text != 0, "each error record carries the current line number"); }
#ifndef NEEDS_PROGRAM
#define NEEDS_PROGRAM 1
#endif
#if !HAVE_PROGRAM && NEEDS_PROGRAM
  if (parser.program == 0) V_ASSERT (parser.errors.n_items > ne0, "a directive that needs a function, before any .function, is reported as an error");
#endif
  if (parser.program) {
    OrcProgram *p = parser.program;
    V_ASSERT (p->n_src_vars >= 0 && p->n_src_vars <= ORC_MAX_SRC_VARS && p->n_dest_vars >= 0 && p->n_dest_vars <= ORC_MAX_DEST_VARS
              && p->n_const_vars <= ORC_MAX_CONST_VARS && p->n_temp_vars <= ORC_MAX_TEMP_VARS && p->n_param_vars <= ORC_MAX_PARAM_VARS
              && p->n_accum_vars <= ORC_MAX_ACCUM_VARS, "variable counts stay within their tables");
  }
  V_WITNESS ();
}

/* ---- (d) one opcode line -------------------------------------------------------------------------- */
#ifndef OPNAME
#define OPNAME "addb"
#endif
#ifndef PREFIX
#define PREFIX 0
#endif
void h_opcode (void)
{
  OrcParser parser; memset (&parser, 0, sizeof parser);
  parser.code = ""; parser.opcode_set = &the_set; parser.enable_errors = 1; parser.line_number = 3;
#if HAVE_PROGRAM
  parser.program = mk_program ();
#endif
  OrcLine line;
  mk_line (&line, NTOK, PREFIX == 1 ? "x2" : PREFIX == 2 ? "x4" : OPNAME);
  if (PREFIX && NTOK > 1) line.tokens[1] = OPNAME;
  int n0 = parser.program ? parser.program->n_insns : 0;
  int ne0 = parser.errors.n_items;
  orc_parse_handle_opcode (&parser, &line);
  if (parser.program) {
    OrcProgram *p = parser.program;
    V_ASSERT (p->n_insns == n0 || p->n_insns == n0 + 1, "an opcode line appends at most one instruction");
    V_ASSERT (p->n_insns <= ORC_N_INSNS, "instruction count never exceeds the instruction table");
    if (p->n_insns == n0 + 1) {
      OrcInstruction *in = &p->insns[n0];
      V_ASSERT (in->opcode != 0 && strcmp (in->opcode->name, OPNAME) == 0, "appended instruction has the named opcode");
      V_ASSERT (in->flags == (PREFIX == 1 ? ORC_INSTRUCTION_FLAG_X2 : PREFIX == 2 ? ORC_INSTRUCTION_FLAG_X4 : 0), "prefix flag as written");
      V_ASSERT (in->dest_args[0] >= 0 && in->dest_args[0] < ORC_N_VARIABLES && p->vars[in->dest_args[0]].size != 0, "operands are declared variables");
    } else V_ASSERT (parser.errors.n_items > ne0 || p->error_msg != 0, "a rejected opcode line is reported");
  } else V_ASSERT (parser.errors.n_items > ne0, "an opcode line before any .function is reported as an error");
  V_WITNESS ();
}

/* ---- (e) _strtoll ----------------------------------------------------------------------------------- */
void h_strtoll (void)
{
  char s[7];
  for (int i = 0; i < 6; i++) s[i] = nondet_char ();
  s[6] = 0;
  char *end = (char *) 1;
  int base = nondet_int (); V_ASSUME (base == 0 || base == 8 || base == 10 || base == 16);
  orc_int64 v = _strtoll (s, &end, base);
  V_ASSERT (end >= s && end <= s + v_strlen (s), "end pointer is always written and lies inside the string");
  (void) v;
  V_WITNESS ();
}

/* ---- (f) literal operands / .const: return-value contract used by the parser ------------------------ */
void h_constant_str (void)
{
  OrcProgram *p = mk_program ();
  char s[4]; for (int i = 0; i < 3; i++) s[i] = nondet_char (); s[3] = 0;
  int size = nondet_int (); V_ASSUME (size == 0 || size == 1 || size == 2 || size == 4 || size == 8);
  int nc = p->n_const_vars;
  int id = orc_program_add_constant_str (p, size, s, "k");
  V_ASSERT (id == -1 || id == 0 || (id >= ORC_VAR_C1 && id < ORC_VAR_C1 + ORC_MAX_CONST_VARS), "returns a constant slot, 0 (table full) or -1 (not a number)");
  V_ASSERT (p->n_const_vars == nc || (p->n_const_vars == nc + 1 && id == ORC_VAR_C1 + nc), "at most one constant added, at the next slot");
  V_ASSERT (p->n_const_vars <= ORC_MAX_CONST_VARS, "constant table never overflows");
  V_WITNESS ();
}

/* ---- (g) error vector as handed to the application --------------------------------------------------- */
#ifndef NERR
#define NERR 2
#endif
void h_error_vector (void)
{
  OrcParser parser; memset (&parser, 0, sizeof parser);
  parser.enable_errors = 1; parser.line_number = 1;
  for (int i = 0; i < NERR; i++) { parser.line_number++; orc_parse_add_error (&parser, "x"); }
  OrcParseError **errors = ORC_VECTOR_AS_TYPE (&parser.errors, OrcParseError);
  int n = orc_vector_length (&parser.errors);
  V_ASSERT (n == NERR, "one record per reported problem");
  for (int i = 0; i < NERR; i++) V_ASSERT (errors[i] != 0 && errors[i]->line_number == i + 2 && errors[i]->text != 0, "records carry their line number and text");
  orc_parse_error_freev (errors);      /* what the documentation tells applications to call */
  V_WITNESS ();
}

/* ---- (h) sanity check on any small valid program ----------------------------------------------------- */
void h_sanity (void)
{
  OrcParser parser; memset (&parser, 0, sizeof parser);
  parser.enable_errors = 1;
  OrcProgram *p = mk_program ();
  orc_program_add_temporary (p, 1, "t1");
  orc_program_append_str (p, "addb", "da", "t1", "sa");
  orc_program_append_str (p, "copyb", "da", "sa", 0);
  orc_parse_sanity_check (&parser, p);
  V_ASSERT (parser.errors.n_items >= 2, "temporary read before written and destination written twice are both reported");
  V_WITNESS ();
}

/* =====================================================================================================================
 * C15: a program written as .orc text is the program built through the API (unit contracts on the same real functions)
 * ===================================================================================================================== */
static long g_strtol_val; static int g_strtol_fixed;
/* (the strtol stub above returns an arbitrary long; for the equivalence harnesses the harness needs to know the value the
 * handler saw: it is recorded here by a wrapper compiled in when C15_EQUIV is defined) */
#ifdef C15_EQUIV
long __wrap_strtol_value (void) { return g_strtol_val; }
#endif

static int str_eq (const char *a, const char *b) { if (!a || !b) return a == b; return strcmp (a, b) == 0; }
static int var_eq (OrcVariable *x, OrcVariable *y)
{
  return x->vartype == y->vartype && x->size == y->size && x->alignment == y->alignment && x->param_type == y->param_type
      && x->value.i == y->value.i && str_eq (x->name, y->name) && str_eq (x->type_name, y->type_name);
}

#ifndef DKIND
#define DKIND 0
#endif
/* one declaration directive, well formed, with an arbitrary (symbolic) size token value: handler == API call */
void h_dir_equiv (void)
{
  OrcParser parser; memset (&parser, 0, sizeof parser);
  parser.code = ""; parser.opcode_set = &the_set; parser.enable_errors = 1; parser.line_number = 1;
  parser.program = mk_program ();
  OrcProgram *q = mk_program ();              /* the API-built twin */
  static const char *dn[] = { ".source", ".dest", ".temp", ".param", ".longparam", ".floatparam", ".doubleparam", ".accumulator", ".source", ".dest" };
  OrcLine line; memset (&line, 0, sizeof line);
  line.tokens[0] = dn[DKIND]; line.tokens[1] = "4"; line.tokens[2] = "nm"; line.n_tokens = 3;
  int with_align = (DKIND == 8), with_type = (DKIND == 9);
  if (with_align) { line.tokens[3] = "align"; line.tokens[4] = "16"; line.n_tokens = 5; }
  if (with_type) { line.tokens[3] = "ty"; line.n_tokens = 4; }
  orc_parse_handle_directive (&parser, &line);
  /* the size (and alignment) the handler passed on is whatever strtol returned for the token; the API twin gets the same values */
  OrcProgram *p = parser.program;
  int idx = -1;
  for (int i = 0; i < ORC_N_VARIABLES; i++) if (p->vars[i].name && strcmp (p->vars[i].name, "nm") == 0) idx = i;
  V_ASSERT (idx >= 0, "the declared variable exists under its name");
  int size = p->vars[idx].size;
  int r = -1;
  switch (DKIND) {
    case 0: case 8: r = orc_program_add_source (q, size, "nm"); break;
    case 1: case 9: r = orc_program_add_destination (q, size, "nm"); break;
    case 2: r = orc_program_add_temporary (q, size, "nm"); break;
    case 3: r = orc_program_add_parameter (q, size, "nm"); break;
    case 4: r = orc_program_add_parameter_int64 (q, size, "nm"); break;
    case 5: r = orc_program_add_parameter_float (q, size, "nm"); break;
    case 6: r = orc_program_add_parameter_double (q, size, "nm"); break;
    case 7: r = orc_program_add_accumulator (q, size, "nm"); break;
  }
  if (with_align) orc_program_set_var_alignment (q, r, p->vars[idx].alignment);
  if (with_type) orc_program_set_type_name (q, r, "ty");
  V_ASSERT (r == idx, "the directive declares the same variable slot as the API call");
  V_ASSERT (var_eq (&p->vars[idx], &q->vars[r]), "class, size, alignment, parameter type, name and type name equal the API-built variable");
  V_ASSERT (p->n_src_vars == q->n_src_vars && p->n_dest_vars == q->n_dest_vars && p->n_temp_vars == q->n_temp_vars && p->n_param_vars == q->n_param_vars
            && p->n_accum_vars == q->n_accum_vars && p->n_const_vars == q->n_const_vars, "variable counters equal");
  V_ASSERT (parser.errors.n_items == 0, "a well-formed directive reports no error");
  V_WITNESS ();
}

/* program-level directives: .n in every keyword arrangement, .m, .flags 2d == the API calls, and nothing else changes */
#ifndef NKIND
#define NKIND 0
#endif
#ifdef STRTOL_FUNCTIONAL
void h_dotn (void)
{
  OrcParser parser; memset (&parser, 0, sizeof parser);
  parser.code = ""; parser.opcode_set = &the_set; parser.enable_errors = 1; parser.line_number = 1;
  parser.program = mk_program ();
  OrcProgram *p = parser.program;
  OrcProgram *q = mk_program ();
  static const char *A = "7", *B = "8", *C = "9";      /* distinct token objects; their values are arbitrary (tokval) */
  OrcLine line; memset (&line, 0, sizeof line);
  const char *t[8]; int n = 0;
  t[n++] = (NKIND == 8) ? ".m" : (NKIND == 9) ? ".flags" : ".n";
  switch (NKIND) {
    case 0: t[n++] = A; orc_program_set_constant_n (q, tokval (A)); break;
    case 1: t[n++] = "mult"; t[n++] = A; orc_program_set_n_multiple (q, tokval (A)); break;
    case 2: t[n++] = "min"; t[n++] = A; orc_program_set_n_minimum (q, tokval (A)); break;
    case 3: t[n++] = "max"; t[n++] = A; orc_program_set_n_maximum (q, tokval (A)); break;
    case 4: t[n++] = "mult"; t[n++] = A; t[n++] = "min"; t[n++] = B; orc_program_set_n_multiple (q, tokval (A)); orc_program_set_n_minimum (q, tokval (B)); break;
    case 5: t[n++] = "max"; t[n++] = A; t[n++] = "mult"; t[n++] = B; orc_program_set_n_maximum (q, tokval (A)); orc_program_set_n_multiple (q, tokval (B)); break;
    case 6: t[n++] = "mult"; t[n++] = A; t[n++] = "min"; t[n++] = B; t[n++] = "max"; t[n++] = C;
            orc_program_set_n_multiple (q, tokval (A)); orc_program_set_n_minimum (q, tokval (B)); orc_program_set_n_maximum (q, tokval (C)); break;
    case 7: t[n++] = "min"; t[n++] = A; t[n++] = "max"; t[n++] = B; orc_program_set_n_minimum (q, tokval (A)); orc_program_set_n_maximum (q, tokval (B)); break;
    case 8: t[n++] = A; orc_program_set_constant_m (q, tokval (A)); break;
    case 9: t[n++] = "2d"; orc_program_set_2d (q); break;
  }
  for (int i = 0; i < n; i++) line.tokens[i] = t[i];
  line.n_tokens = n;
  orc_parse_handle_directive (&parser, &line);
  V_ASSERT (parser.errors.n_items == 0, "a well-formed directive reports no error");
  V_ASSERT (p->constant_n == q->constant_n && p->n_multiple == q->n_multiple && p->n_minimum == q->n_minimum && p->n_maximum == q->n_maximum
            && p->constant_m == q->constant_m && p->is_2d == q->is_2d, "the directive sets exactly what the API calls set (constant n/m, multiple, minimum, maximum, 2d)");
  V_ASSERT (p->n_insns == q->n_insns && p->n_src_vars == q->n_src_vars && p->n_dest_vars == q->n_dest_vars && p->n_const_vars == q->n_const_vars, "and declares nothing");
  V_WITNESS ();
}
#endif

/* numeric literals: decimal / negative / hex / octal with symbolic digits == the value the literal denotes */
#ifndef LKIND
#define LKIND 0
#endif
void h_literal (void)
{
  OrcProgram *p = orc_program_new ();
  char s[8]; long long want = 0; int want_size = 4;
  unsigned a = nondet_uint (), b = nondet_uint (), c = nondet_uint ();
#if LKIND == 0            /* decimal abc */
  V_ASSUME (a >= 1 && a <= 9 && b <= 9 && c <= 9);
  s[0] = '0' + a; s[1] = '0' + b; s[2] = '0' + c; s[3] = 0; want = 100 * a + 10 * b + c;
#elif LKIND == 1          /* negative decimal -ab */
  V_ASSUME (a >= 1 && a <= 9 && b <= 9);
  s[0] = '-'; s[1] = '0' + a; s[2] = '0' + b; s[3] = 0; want = -(long long) (10 * a + b);
#elif LKIND == 2          /* hex 0xAB, either case */
  V_ASSUME (a <= 15 && b <= 15);
  s[0] = '0'; s[1] = nondet_bool () ? 'x' : 'X';
  s[2] = a < 10 ? '0' + a : (nondet_bool () ? 'a' : 'A') + (a - 10); s[3] = b < 10 ? '0' + b : (nondet_bool () ? 'a' : 'A') + (b - 10); s[4] = 0; want = 16 * a + b;
#elif LKIND == 3          /* 64-bit suffix: abL */
  V_ASSUME (a >= 1 && a <= 9 && b <= 9);
  s[0] = '0' + a; s[1] = '0' + b; s[2] = nondet_bool () ? 'L' : 'l'; s[3] = 0; want = 10 * a + b; want_size = 8;
#elif LKIND == 7          /* two 64-bit literals in one function that agree in their low 32 bits: two distinct constants */
  V_ASSUME (a >= 1 && a <= 9 && b <= 9);
  char l1[8] = { '0' + b, 'L', 0 };                                                   /* bL               */
  char l2[24] = { '0', 'x', '0' + a, '0', '0', '0', '0', '0', '0', '0', '0' + b, 'L', 0 };   /* 0xa0000000bL */
  int i1 = orc_program_add_constant_str (p, 0, l1, "k1");
  int i2 = orc_program_add_constant_str (p, 0, l2, "k2");
  V_ASSERT (i1 == ORC_VAR_C1 && p->vars[i1].value.i == (long long) b && p->vars[i1].size == 8, "first literal has its value");
  V_ASSERT (i2 >= ORC_VAR_C1 && i2 < ORC_VAR_C1 + ORC_MAX_CONST_VARS && p->vars[i2].vartype == ORC_VAR_TYPE_CONST
            && p->vars[i2].value.i == (long long) (((unsigned long long) a << 32) | b) && p->vars[i2].size == 8, "a second literal that differs only above bit 31 keeps its own value");
  V_ASSERT (p->vars[i1].value.i == (long long) b, "and the first one is unchanged");
  V_WITNESS ();
  return;
#elif LKIND == 5          /* full-width 64-bit hex: 0x a fff fff fff fff f b c L  (top of the unsigned range included) */
  V_ASSUME (a <= 15 && b <= 15 && c <= 15);
  char big[24]; int k = 0;
  big[k++] = '0'; big[k++] = 'x';
  big[k++] = a < 10 ? '0' + a : 'a' + (a - 10);
  for (int i = 0; i < 13; i++) big[k++] = 'f';
  big[k++] = b < 10 ? '0' + b : 'A' + (b - 10); big[k++] = c < 10 ? '0' + c : 'a' + (c - 10);
  big[k++] = 'L'; big[k] = 0;
  want = (long long) (((unsigned long long) a << 60) | 0x0fffffffffffff00ULL | (b << 4) | c); want_size = 8;
  int id5 = orc_program_add_constant_str (p, 0, big, "k");
  V_ASSERT (id5 == ORC_VAR_C1 && p->vars[id5].vartype == ORC_VAR_TYPE_CONST && p->vars[id5].value.i == want && p->vars[id5].size == 8, "a 16-digit hex literal with L suffix has the 64-bit value it denotes");
  V_WITNESS ();
  return;
#elif LKIND == 6          /* full-width decimal 184467440737095516ab L, up to 2^64-1 */
  V_ASSUME (a <= 1 && b <= 9 && (a == 0 || b <= 5));
  char big[24]; const char *pre = "184467440737095516"; int k = 0;
  for (; pre[k]; k++) big[k] = pre[k];
  big[k++] = '0' + a; big[k++] = '0' + b; big[k++] = 'l'; big[k] = 0;
  want = (long long) (18446744073709551600ULL + 10 * a + b); want_size = 8;
  int id6 = orc_program_add_constant_str (p, 0, big, "k");
  V_ASSERT (id6 == ORC_VAR_C1 && p->vars[id6].vartype == ORC_VAR_TYPE_CONST && p->vars[id6].value.i == want && p->vars[id6].size == 8, "a 20-digit decimal literal with L suffix has the 64-bit value it denotes");
  V_WITNESS ();
  return;
#else                      /* octal 0ab */
  V_ASSUME (a <= 7 && b <= 7);
  s[0] = '0'; s[1] = '0' + a; s[2] = '0' + b; s[3] = 0; want = 8 * a + b;
#endif
  int id = orc_program_add_constant_str (p, 0, s, "k");
  V_ASSERT (id == ORC_VAR_C1, "a numeric literal becomes the first constant");
  V_ASSERT (p->vars[id].vartype == ORC_VAR_TYPE_CONST && p->vars[id].value.i == want, "the constant has the value the literal denotes");
  V_ASSERT (p->vars[id].size == want_size, "default size 4, 8 with the L suffix");
  V_WITNESS ();
}

#ifndef OPRE
#define OPRE 0
#endif
#ifndef OWHICH
#define OWHICH 0
#endif
#ifndef OSWAP
#define OSWAP 0
#endif
/* opcode line with declared operands: one instruction, operand order and prefix kept */
void h_opcode_order (void)
{
  OrcParser parser; memset (&parser, 0, sizeof parser);
  parser.code = ""; parser.opcode_set = &the_set; parser.enable_errors = 1; parser.line_number = 2;
  OrcProgram *p = orc_program_new ();
  parser.program = p;
  int vd = orc_program_add_destination (p, 1, "d"), va = orc_program_add_source (p, 1, "a"), vb = orc_program_add_source (p, 1, "b"), vd2 = orc_program_add_destination (p, 1, "e");
  OrcLine line; memset (&line, 0, sizeof line);
  int pre = OPRE;          /* configuration: prefix, opcode and operand order are enumerated by the runner */
  int k = 0;
  if (pre == 1) line.tokens[k++] = "x2";
  if (pre == 2) line.tokens[k++] = "x4";
  int which = OWHICH;
  int swap = OSWAP;
  if (which == 0) { line.tokens[k++] = "addb"; line.tokens[k++] = "d"; line.tokens[k++] = swap ? "b" : "a"; line.tokens[k++] = swap ? "a" : "b"; }
  else { line.tokens[k++] = "splitwb"; line.tokens[k++] = swap ? "e" : "d"; line.tokens[k++] = swap ? "d" : "e"; line.tokens[k++] = "a"; }
  line.n_tokens = k;
  orc_parse_handle_opcode (&parser, &line);
  V_ASSERT (p->n_insns == 1 && parser.errors.n_items == 0, "a well-formed opcode line appends exactly one instruction");
  OrcInstruction *in = &p->insns[0];
  V_ASSERT (in->flags == (pre == 1 ? ORC_INSTRUCTION_FLAG_X2 : pre == 2 ? ORC_INSTRUCTION_FLAG_X4 : 0), "prefix kept");
  if (which == 0) V_ASSERT (in->dest_args[0] == vd && in->src_args[0] == (swap ? vb : va) && in->src_args[1] == (swap ? va : vb), "operand order as written (dest, src1, src2)");
  else V_ASSERT (in->dest_args[0] == (swap ? vd2 : vd) && in->dest_args[1] == (swap ? vd : vd2) && in->src_args[0] == va, "operand order as written (dest1, dest2, src)");
  V_WITNESS ();
}

/* formatting independence of the tokenizer: an extra blank (space or tab) inserted at any position next to a separator, or a
 * trailing comment, yields the same token sequence */
#ifndef FL
#define FL 6
#endif
static int tok_same (OrcLine *x, OrcLine *y)
{
  if (x->n_tokens != y->n_tokens) return 0;
  for (int i = 0; i < ORC_LINE_MAX_TOKENS; i++) { if (i >= x->n_tokens) break; if (strcmp (x->tokens[i], y->tokens[i]) != 0) return 0; }
  return 1;
}
void h_format_tokens (void)
{
  char *l1 = v_malloc (FL + 1), *l2 = v_malloc (FL + 4);
  int len = nondet_int (); V_ASSUME (len >= 1 && len <= FL);
  for (int i = 0; i < FL; i++) { char c = nondet_char (); if (i < len) { V_ASSUME (c != 0 && c != '\n' && c != '\r' && c != '#'); l1[i] = c; } else l1[i] = 0; }
  l1[FL] = 0;
  int pos = nondet_int (); V_ASSUME (pos >= 0 && pos <= len);
  /* the inserted blank must not split a token: it goes next to an existing blank/comma, or at either end */
  V_ASSUME (pos == 0 || pos == len || l1[pos - 1] == ' ' || l1[pos - 1] == '\t' || l1[pos - 1] == ',' || l1[pos] == ' ' || l1[pos] == '\t');
  /* ... and not directly before a comma (", ," vs ",," keeps the empty operand either way, but " ," would create one) */
  V_ASSUME (pos == len || l1[pos] != ',');
  V_ASSUME (pos == 0 || l1[pos - 1] != ',' || 1);
  char blank = nondet_bool () ? ' ' : '\t';
  int j = 0;
  for (int i = 0; i <= FL; i++) { if (i == pos) l2[j++] = blank; if (i < len) l2[j++] = l1[i]; }
  int len2 = len + 1;
  if (nondet_bool ()) { l2[j++] = ' '; l2[j++] = '#'; len2 += 2; }        /* trailing comment */
  l2[j] = 0;
  OrcLine a, b2; memset (&a, 0, sizeof a); memset (&b2, 0, sizeof b2);
  a.p = l1; a.end = l1 + len; b2.p = l2; b2.end = l2 + len2;
  orc_line_skip_blanks (&a); orc_line_skip_blanks (&b2);
  if (orc_line_has_data (&a) && !orc_line_is_comment (&a)) orc_line_parse_tokens (&a);
  if (orc_line_has_data (&b2) && !orc_line_is_comment (&b2)) orc_line_parse_tokens (&b2);
  V_ASSERT (tok_same (&a, &b2), "extra blank next to a separator / trailing comment does not change the tokens");
  V_WITNESS ();
}

/* line endings: LF, CR LF and a missing final newline give the same line sequence */
void h_format_lines (void)
{
  static char t1[8], t2[12];
  int len = nondet_int (); V_ASSUME (len >= 1 && len <= 5);
  int j = 0;
  for (int i = 0; i < 5; i++) {
    char c = nondet_char ();
    if (i < len) { V_ASSUME (c != 0 && c != '\r'); t1[i] = c; if (c == '\n') t2[j++] = '\r'; t2[j++] = c; } }
  t1[len] = 0; t2[j] = 0;
  OrcParser p1, p2; orc_parse_init (&p1, t1, 0); orc_parse_init (&p2, t2, 0);
  for (int k = 0; k < 6; k++) {
    int h1 = orc_parse_has_data (&p1), h2 = orc_parse_has_data (&p2);
    V_ASSERT (h1 == h2, "same number of lines with LF and CR LF");
    if (!h1) break;
    orc_parse_get_line (&p1); orc_parse_get_line (&p2);
    V_ASSERT (p1.line_length == p2.line_length && strcmp (p1.line, p2.line) == 0 && p1.line_number == p2.line_number, "line content and numbering independent of the line ending");
  }
  orc_parse_free_line (&p1); orc_parse_free_line (&p2);
  V_WITNESS ();
}
