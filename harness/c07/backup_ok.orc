.function bko_int
.backup my_bko_int
.dest 2 d1
.source 2 s1
.param 2 p1
addw d1, s1, p1

.function bko_mixed
.backup my_bko_mixed
.dest 8 d1
.source 8 s1
.longparam 8 p1
.floatparam 4 p2
.param 4 p3
addq d1, s1, p1

.function bko_2d
.flags 2d
.backup my_bko_2d
.dest 1 d1
.source 1 s1
.source 1 s2
addusb d1, s1, s2
