.function c07_addw_p
.dest 2 d1
.source 2 s1
.param 2 p1
addw d1, s1, p1

.function c07_addb_p
.dest 1 d1
.source 1 s1
.param 1 p1
addb d1, s1, p1

.function c07_2d
.flags 2d
.dest 1 d1
.source 1 s1
.source 1 s2
addusb d1, s1, s2

.function c07_2d_constm
.flags 2d
.m 2
.dest 2 d1
.source 2 s1
.param 2 p1
subw d1, s1, p1

.function c07_fparam
.dest 4 d1
.floatparam 4 p1
copyl d1, p1

.function c07_lparam
.dest 8 d1
.source 8 s1
.longparam 8 p1
addq d1, s1, p1

.function c07_dparam
.dest 8 d1
.doubleparam 8 p1
copyq d1, p1

.function c07_mixparams
.dest 8 d1
.dest 4 d2
.source 4 s1
.param 4 p1
.floatparam 4 p2
.longparam 8 p3
.temp 4 t1
.temp 8 t2
addl t1, s1, p1
xorl d2, t1, p2
convslq t2, t1
addq d1, t2, p3

.function c07_acc
.source 2 s1
.accumulator 4 a1
.temp 4 t1
convswl t1, s1
accl a1, t1

.function c07_acc2
.dest 1 d1
.source 1 s1
.source 1 s2
.accumulator 4 a1
.accumulator 2 a2
.temp 2 t1
accsadubl a1, s1, s2
convubw t1, s1
accw a2, t1
copyb d1, s2

.function c07_constn
.n 8
.dest 2 d1
.source 2 s1
.const 2 c1 0x7fff
subssw d1, s1, c1

.function c07_x2
.dest 4 d1
.source 4 s1
.param 4 p1
x2 addw d1, s1, p1

.function c07_multi
.dest 1 d1
.dest 1 d2
.source 2 s1
.source 1 s2
.temp 1 t1
splitwb d1, t1, s1
avgub d2, t1, s2

.function c07_shift
.dest 2 d1
.source 2 s1
.param 2 p1
shruw d1, s1, p1

.function c07_inplace
.dest 1 d1
.source 1 s1
addb d1, d1, s1

.function c07_addf
.dest 4 d1
.source 4 s1
.source 4 s2
addf d1, s1, s2

.function c07_n255
.n 255
.dest 1 d1
.source 1 s1
.param 1 p1
addb d1, s1, p1

.function c07_n256
.n 256
.dest 2 d1
.source 2 s1
addw d1, d1, s1

.function c07_m255
.flags 2d
.m 255
.dest 1 d1
.source 1 s1
copyb d1, s1

.function c07_nbounds
.n mult 8 min 16 max 4096
.dest 4 d1
.source 4 s1
.const 4 c1 0x80000000
addl d1, s1, c1

.function c07_const64
.dest 8 d1
.source 8 s1
.const 8 c1 0x0123456789abcdefL
xorq d1, s1, c1
