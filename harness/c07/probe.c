/* C07: stands in for the compiled code the generated wrapper jumps to: records the executor the wrapper filled in
 * and supplies accumulator results, so the wrapper's marshalling can be compared with the executor contract that
 * compiled code (C01) and orc_executor_emulate (C02) read. */
#include <orc/orc.h>
OrcExecutor c07_seen;
int c07_calls;
orc_int32 c07_acc_in[4];
void
c07_probe (OrcExecutor * ex)
{
  int i;
  c07_seen = *ex;
  c07_calls++;
  for (i = 0; i < 4; i++) ex->accumulators[i] = c07_acc_in[i];
}
