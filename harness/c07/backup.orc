.function bk_int
.backup my_bk_int
.dest 2 d1
.source 2 s1
.param 2 p1
addw d1, s1, p1

.function bk_mixed
.backup my_bk_mixed
.dest 8 d1
.source 8 s1
.longparam 8 p1
.floatparam 4 p2
addq d1, s1, p1

.function bk_double
.backup my_bk_double
.dest 8 d1
.doubleparam 8 p1
copyq d1, p1

.function bk_2d_acc
.flags 2d
.backup my_bk_2d
.source 1 s1
.accumulator 4 a1
.temp 4 t1
.temp 2 t2
convubw t2, s1
convuwl t1, t2
accl a1, t1

.function bk_constn
.backup my_bk_constn
.n 8
.dest 2 d1
.source 2 s1
addw d1, d1, s1
