/* C05: loop-shift selection terminates and is correct.  Real code: orc/orcprogram-x86.c:orc_x86_compiler_max_loop_shift */
#include "verif.h"
#include "orcprogram-x86.c"
void orc_debug_print (int level, const char *file, const char *func, int line, const char *format, ...) { }

void h_loopshift (void)
{
  static OrcX86Target t; static OrcCompiler c;
  int rs = nondet_int (), mv = nondet_int ();
  V_ASSUME (rs == 8 || rs == 16 || rs == 32);
  /* x2/x4 prefixes multiply operand sizes: max_var_size ranges over 1..32 */
  V_ASSUME (mv == 1 || mv == 2 || mv == 4 || mv == 8 || mv == 16 || mv == 32);
  t.register_size = rs; c.max_var_size = mv; c.loop_shift = -1;
  orc_x86_compiler_max_loop_shift (&t, &c);
  V_ASSERT (c.loop_shift >= 0 && c.loop_shift <= 5, "loop shift in range");
  if (mv <= rs) V_ASSERT ((mv << c.loop_shift) == rs, "one vector register holds exactly 2^loop_shift elements of the largest variable");
  else V_ASSERT (c.loop_shift == 0, "variables wider than a register are processed one at a time");
  V_WITNESS ();
}
