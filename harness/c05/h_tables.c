/* C05: fixed-capacity tables of the program and of the compiler.
 * Real code: orc/orccompiler.c (included: static orc_compiler_rewrite_insns, _new_temporary, _dup_temporary, _check_sizes),
 * linked orcprogram.c, orcopcode.c, orcutils.c */
#include "verif.h"
#include <stdarg.h>
#include "orccompiler.c"

void orc_debug_print (int level, const char *file, const char *func, int line, const char *format, ...) { }
int vasprintf (char **strp, const char *fmt, va_list ap) { char *s = v_malloc (1); s[0] = 0; *strp = s; return 0; }
int sprintf (char *str, const char *format, ...) { str[0] = 0; return 0; }
void orc_init (void) { }
void orc_global_mutex_lock (void) { }
void orc_global_mutex_unlock (void) { }
OrcCodeRegion *orc_code_region_alloc (void) { return 0; }
void orc_code_allocate_codemem (OrcCode *code, int size) { }
void orc_code_chunk_free (OrcCodeChunk *chunk) { }
void orc_executor_emulate (OrcExecutor *ex) { }
OrcRule *orc_target_get_rule (OrcTarget *target, OrcStaticOpcode *opcode, unsigned int target_flags) { return 0; }
char *_orc_getenv (const char *key) { return 0; }
static void emu (OrcOpcodeExecutor *ex, int o, int n) { }
static OrcStaticOpcode ops[] = {
  { "addb", 0, { 1 }, { 1, 1 }, emu },
  { "copyb", 0, { 1 }, { 1 }, emu },
  { "loadb", ORC_STATIC_OPCODE_LOAD, { 1 }, { 1 }, emu },
  { "storeb", ORC_STATIC_OPCODE_STORE, { 1 }, { 1 }, emu },
  { "loadpb", ORC_STATIC_OPCODE_LOAD | ORC_STATIC_OPCODE_SCALAR | ORC_STATIC_OPCODE_INVARIANT, { 1 }, { 1 }, emu },
  { "loadw", ORC_STATIC_OPCODE_LOAD, { 2 }, { 2 }, emu }, { "storew", ORC_STATIC_OPCODE_STORE, { 2 }, { 2 }, emu },
  { "loadl", ORC_STATIC_OPCODE_LOAD, { 4 }, { 4 }, emu }, { "storel", ORC_STATIC_OPCODE_STORE, { 4 }, { 4 }, emu },
  { "loadq", ORC_STATIC_OPCODE_LOAD, { 8 }, { 8 }, emu }, { "storeq", ORC_STATIC_OPCODE_STORE, { 8 }, { 8 }, emu },
  { "loadpw", ORC_STATIC_OPCODE_LOAD | ORC_STATIC_OPCODE_SCALAR | ORC_STATIC_OPCODE_INVARIANT, { 2 }, { 2 }, emu },
  { "loadpl", ORC_STATIC_OPCODE_LOAD | ORC_STATIC_OPCODE_SCALAR | ORC_STATIC_OPCODE_INVARIANT, { 4 }, { 4 }, emu },
  { "loadpq", ORC_STATIC_OPCODE_LOAD | ORC_STATIC_OPCODE_SCALAR | ORC_STATIC_OPCODE_INVARIANT, { 8 }, { 8 }, emu },
  { "" }
};

#ifndef NPROG
#define NPROG 26           /* instructions of the source program */
#endif
#ifndef KIND
#define KIND 0             /* 0: addb d,s,t (3 array operands)  1: addb d,s,c (constant)  2: copyb t,t (temporaries only) */
#endif

/* load/store expansion from a program with NPROG instructions: stays inside compiler->insns[] and vars[] */
void h_rewrite (void)
{
  orc_opcode_register_static (ops, "sys");
  OrcProgram *p = orc_program_new ();
  orc_program_add_destination (p, 1, "d");
  orc_program_add_source (p, 1, "s");
  orc_program_add_source (p, 1, "t");
  orc_program_add_constant (p, 1, nondet_int (), "c");
  orc_program_add_temporary (p, 1, "x");
  /* instructions are stored directly (the append API is exercised by C14/C15); the table limit is respected */
  int cnt = NPROG <= ORC_N_INSNS ? NPROG : ORC_N_INSNS;
  for (int i = 0; i < cnt; i++) {
    OrcInstruction *in = &p->insns[i];
#if KIND == 0
    in->opcode = &ops[0]; in->dest_args[0] = ORC_VAR_D1; in->src_args[0] = ORC_VAR_S1; in->src_args[1] = ORC_VAR_S2;
#elif KIND == 1
    in->opcode = &ops[0]; in->dest_args[0] = ORC_VAR_D1; in->src_args[0] = ORC_VAR_S1; in->src_args[1] = ORC_VAR_C1;
#else
    in->opcode = &ops[1]; in->dest_args[0] = ORC_VAR_T1; in->src_args[0] = ORC_VAR_T1;
#endif
  }
  p->n_insns = cnt;
  OrcCompiler *c = v_malloc (sizeof (OrcCompiler));
  memset (c, 0, sizeof (OrcCompiler));
  c->program = p;
  memcpy (c->insns, p->insns, p->n_insns * sizeof (OrcInstruction));
  c->n_insns = p->n_insns;
  memcpy (c->vars, p->vars, ORC_N_VARIABLES * sizeof (OrcVariable));
  c->n_temp_vars = p->n_temp_vars;
  orc_compiler_rewrite_insns (c);
  V_ASSERT (c->n_insns >= 0 && c->n_insns <= ORC_N_INSNS, "expanded instruction count stays within the compiler table");
  V_ASSERT (ORC_VAR_T1 + c->n_temp_vars + c->n_dup_vars <= ORC_N_COMPILER_VARIABLES, "temporaries stay within the compiler variable table");
#if KIND == 0
  if (NPROG * 4 > ORC_N_INSNS || NPROG * 3 + 1 > ORC_N_COMPILER_VARIABLES - ORC_VAR_T1) V_ASSERT (c->error, "an expansion that does not fit is refused with an error");
  else V_ASSERT (!c->error && c->n_insns == NPROG * 4, "an expansion that fits succeeds");
#endif
  if (c->error) V_ASSERT (ORC_COMPILE_RESULT_IS_FATAL (c->result), "refused expansion is a fatal-class result (nothing may try to run it)");
  V_WITNESS ();
}

/* variable declaration limits, from the public API, at fill level FILL of the class under test */
#ifndef CLASS
#define CLASS 0
#endif
#ifndef FILL
#define FILL 0
#endif
void h_add_var (void)
{
  OrcProgram *p = orc_program_new ();
  int size = nondet_int (); V_ASSUME (size >= 1 && size <= 8);
  int r = -2;
  for (int i = 0; i <= FILL; i++) {
    char nm[3] = { 'v', (char) ('a' + i), 0 };
    switch (CLASS) {
      case 0: r = orc_program_add_source (p, size, nm); break;
      case 1: r = orc_program_add_destination (p, size, nm); break;
      case 2: r = orc_program_add_temporary (p, size, nm); break;
      case 3: r = orc_program_add_constant (p, size, nondet_int (), nm); break;
      case 4: r = orc_program_add_parameter (p, size, nm); break;
      case 5: r = orc_program_add_accumulator (p, size, nm); break;
      case 6: r = orc_program_add_parameter_int64 (p, 8, nm); break;
      case 7: r = orc_program_add_constant_int64 (p, 8, nondet_llong (), nm); break;
    }
  }
  static const int caps[] = { ORC_MAX_SRC_VARS, ORC_MAX_DEST_VARS, ORC_MAX_TEMP_VARS, ORC_MAX_CONST_VARS, ORC_MAX_PARAM_VARS, ORC_MAX_ACCUM_VARS, ORC_MAX_PARAM_VARS, ORC_MAX_CONST_VARS };
  V_ASSERT (p->n_src_vars <= ORC_MAX_SRC_VARS && p->n_dest_vars <= ORC_MAX_DEST_VARS && p->n_temp_vars <= ORC_MAX_TEMP_VARS && p->n_const_vars <= ORC_MAX_CONST_VARS
            && p->n_param_vars <= ORC_MAX_PARAM_VARS && p->n_accum_vars <= ORC_MAX_ACCUM_VARS, "variable counts never exceed their class capacity");
  if (FILL >= caps[CLASS]) V_ASSERT (r == 0 && p->error_msg != 0, "declaring one variable too many is refused and recorded as the program error");
  else V_ASSERT (r >= 0 && r < ORC_N_VARIABLES && p->vars[r].size != 0, "a declaration within the limit returns its variable index");
  V_WITNESS ();
}

/* every append entry point at the instruction-table limit: accepted below it, refused at it, and a refusal leaves the
 * bytes behind insns[] (vars[0] lies exactly where insns[100] would) untouched */
#ifndef API
#define API 0
#endif
void h_append (void)
{
  orc_opcode_register_static (ops, "sys");
  OrcProgram *p = orc_program_new ();
  orc_program_add_destination (p, 1, "d1");
  orc_program_add_source (p, 1, "s1");
  orc_program_add_source (p, 1, "s2");
  for (int i = 0; i < FILL && i < ORC_N_INSNS; i++) {
    OrcInstruction *in = &p->insns[i];
    in->opcode = &ops[0]; in->dest_args[0] = ORC_VAR_D1; in->src_args[0] = ORC_VAR_S1; in->src_args[1] = ORC_VAR_S2;
  }
  p->n_insns = FILL;
  OrcVariable before[1];
  memcpy (before, p->vars, sizeof before);
  int n_before = p->n_insns;
  switch (API) {
    case 0: orc_program_append (p, "addb", ORC_VAR_D1, ORC_VAR_S1, ORC_VAR_S2); break;
    case 1: orc_program_append_2 (p, "addb", 0, ORC_VAR_D1, ORC_VAR_S1, ORC_VAR_S2, ORC_VAR_D1); break;
    case 2: orc_program_append_ds (p, "copyb", ORC_VAR_D1, ORC_VAR_S1); break;
    case 3: orc_program_append_str (p, "addb", "d1", "s1", "s2"); break;
    case 4: orc_program_append_str_2 (p, "addb", 0, "d1", "s1", "s2", "d1"); break;
    case 5: orc_program_append_ds_str (p, "copyb", "d1", "s1"); break;
    case 6: { const char *a[3] = { "d1", "s1", "s2" }; orc_program_append_str_n (p, "addb", 0, 3, a); break; }
  }
  V_ASSERT (p->n_insns <= ORC_N_INSNS, "instruction count never exceeds the table");
  if (FILL >= ORC_N_INSNS) {
    V_ASSERT (p->n_insns == n_before, "an append to a full table is refused");
    V_ASSERT (p->error_msg != 0, "the refusal is recorded as the program error");
  } else {
    V_ASSERT (p->n_insns == n_before + 1 && p->insns[n_before].opcode != 0, "an append below the limit is stored");
  }
  V_ASSERT (memcmp (before, p->vars, sizeof before) == 0, "appending never writes behind the instruction table (vars[] unchanged)");
  V_WITNESS ();
}
