/* Default stubs: logging and formatting are never the subject. */
#include <stdarg.h>
#include <stdlib.h>
int _orc_debug_level_stub;
void orc_debug_print (int level, const char *file, const char *func, int line, const char *format, ...) { }
