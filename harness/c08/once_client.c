/* C08: the shape of every orcc-generated wrapper: once-guarded lazy initialisation.
 * orc_once_enter / orc_once_leave are the real inline functions of orc/orconce.h (C11 atomics variant). */
#include <orc/orc.h>
#include <orc/orconce.h>
extern void *make_payload (void);       /* the initialiser body: builds and compiles the program */
static OrcOnce once = ORC_ONCE_INIT;
void *client (void)
{
  void *v;
  if (!orc_once_enter (&once, &v)) {
    v = make_payload ();
    orc_once_leave (&once, v);
  }
  return v;
}
