/* C06 (1): acquiring executable memory under every combination of OS failures.
 * Real code: orc/orccodemem.c: orc_code_region_alloc, orc_code_region_allocate_codemem,
 * orc_code_region_allocate_codemem_dual_map, orc_code_region_allocate_codemem_anon_map,
 * orc_code_region_get_free_chunk, orc_code_allocate_codemem. */
#include "verif.h"
#include "orccodemem.c"

void orc_global_mutex_lock (void) { }
void orc_global_mutex_unlock (void) { }
int _orc_compiler_flag_debug;
int _orc_codemem_alignment = 15;
void orc_debug_print (int level, const char *file, const char *func, int line, const char *format, ...) { }
void *orc_malloc (size_t n) { return v_malloc (n); }
int sprintf (char *str, const char *format, ...) { str[0] = 0; return 0; }

/* environment: every call may fail independently */
static int open_fds, live_maps, next_fd = 3, max_open_fds, failed_map_deref;
static char dirbuf[4] = "/t";
char *getenv (const char *name) { if (nondet_bool ()) return 0; return dirbuf; }
int mkstemp (char *templ) { if (nondet_bool ()) return -1; open_fds++; if (open_fds > max_open_fds) max_open_fds = open_fds; return next_fd++; }
mode_t umask (mode_t m) { return 022; }
int unlink (const char *p) { return 0; }
int ftruncate (int fd, off_t len) { V_ASSERT (fd >= 3, "ftruncate on an open descriptor"); return nondet_bool () ? -1 : 0; }
int close (int fd) { V_ASSERT (fd >= 3 && fd < next_fd, "close on a descriptor we handed out"); open_fds--; return 0; }
void *mmap (void *addr, size_t len, int prot, int flags, int fd, off_t off)
{
  if (!(flags & MAP_ANONYMOUS)) V_ASSERT (fd >= 3 && fd < next_fd && open_fds > 0, "file mapping uses an open descriptor");
  if (nondet_bool ()) return MAP_FAILED;
  live_maps++;
  return v_malloc (len);
}
int munmap (void *addr, size_t len) { V_ASSERT (addr != MAP_FAILED && addr != 0, "munmap of a real mapping"); live_maps--; return 0; }

/* one allocation attempt: the whole chain XDG_RUNTIME_DIR, HOME, TMPDIR, /tmp, anonymous */
void h_region_alloc (void)
{
#ifdef DEBUGFLAG
  _orc_compiler_flag_debug = 1;
#endif
  OrcCodeRegion *r = orc_code_region_alloc ();
  V_ASSERT (open_fds == 0, "no descriptor stays open after an allocation attempt");
  V_ASSERT (max_open_fds <= 1, "at most one descriptor open at any time");
  if (!r) V_ASSERT (live_maps == 0, "failed attempt leaves no mapping behind");
  else {
    V_ASSERT (r->size == SIZE, "region size recorded");
    V_ASSERT (r->exec_ptr != MAP_FAILED && r->write_ptr != MAP_FAILED && r->exec_ptr && r->write_ptr, "MAP_FAILED never kept as a pointer");
    V_ASSERT (live_maps == 1 || live_maps == 2, "exactly the mappings of the successful method remain");
    V_ASSERT ((live_maps == 1) == (r->exec_ptr == r->write_ptr), "one mapping iff write and exec views coincide");
    r->write_ptr[SIZE - 1] = 0; r->write_ptr[0] = 0;            /* both views are usable 64 KiB objects */
    { orc_uint8 x = r->exec_ptr[SIZE - 1]; (void) x; }
  }
  V_WITNESS ();
}

/* K successive compile-time allocations from the empty allocator, any failure pattern */
#ifndef KALLOC
#define KALLOC 3
#endif
void h_codemem_faults (void)
{
  for (int i = 0; i < KALLOC; i++) {
    OrcCode code; code.chunk = 0; code.code = 0; code.exec = 0;
    int size = nondet_int ();
    V_ASSUME (size >= 0 && size <= 4096);
    int regions_before = orc_code_n_regions;
    orc_code_allocate_codemem (&code, size);
    V_ASSERT (open_fds == 0, "no descriptor leak across compile-time allocations");
    if (code.chunk == 0) {
      V_ASSERT (code.code == 0 && code.exec == 0, "no usable pointers without a chunk");
      V_ASSERT (orc_code_n_regions == regions_before, "failed mapping registers no region");
    } else {
      V_ASSERT (code.code != 0 && code.exec != 0 && code.exec != MAP_FAILED && code.code != MAP_FAILED, "valid pointers with a chunk");
      code.code[0] = 0xc3;     /* writable */
    }
  }
  V_ASSERT (live_maps <= 2 * KALLOC, "mappings bounded by successful regions");
  V_ASSERT (orc_code_n_regions <= 1, "small requests share one region once it exists");
  V_WITNESS ();
}
