/* C06 (2): _orc_compiler_init decides JIT vs backup/emulate.  Real code: orc/orccompiler.c:_orc_compiler_init,
 * orc_compiler_flag_check; orc/orcutils.c: strsplit, _strndup. */
#include "verif.h"
#include <stdarg.h>
#include "orcutils.c"
#include "orccompiler.c"

void orc_debug_print (int level, const char *file, const char *func, int line, const char *format, ...) { }
static int probe_calls, probe_ok;
OrcCodeRegion *orc_code_region_alloc (void) { probe_calls++; probe_ok = nondet_bool (); return probe_ok ? v_malloc (32) : 0; }
#ifndef ENVVAL
#define ENVVAL 0
#endif
static const char *envs[] = { 0, "emulate", "backup", "debug", "backup,emulate", "debug,backup", " emulate", "emulat", "", "Backup" };
char *_orc_getenv (const char *key)
{
  const char *v = envs[ENVVAL];
  V_ASSERT (key[0] == 'O' && key[1] == 'R' && key[2] == 'C' && key[3] == '_' && key[4] == 'C' && key[5] == 'O' && key[6] == 'D' && key[7] == 'E' && key[8] == 0, "reads ORC_CODE");
  if (!v) return 0;
  char *r = v_malloc (16); int i = 0; for (; v[i]; i++) r[i] = v[i]; r[i] = 0; return r;
}
void h_compiler_init (void)
{
  _orc_compiler_init ();
  int want_backup = (ENVVAL == 2 || ENVVAL == 4 || ENVVAL == 5);
  int want_emulate = (ENVVAL == 1 || ENVVAL == 4 || ENVVAL == 6);
  int want_debug = (ENVVAL == 3 || ENVVAL == 5);
  V_ASSERT (_orc_compiler_flag_debug == want_debug, "debug flag as requested");
  if (want_backup || want_emulate) {
    V_ASSERT (probe_calls == 0, "no mapping probe when JIT is disabled by the user");
    V_ASSERT (_orc_compiler_flag_backup == want_backup && _orc_compiler_flag_emulate == want_emulate, "flags as requested");
  } else {
    V_ASSERT (probe_calls == 1, "exactly one mapping probe");
    if (probe_ok) V_ASSERT (!_orc_compiler_flag_backup && !_orc_compiler_flag_emulate, "JIT stays enabled when executable memory is available");
    else V_ASSERT (_orc_compiler_flag_backup && _orc_compiler_flag_emulate, "no executable memory => backup and emulate forced");
  }
  V_ASSERT (_orc_codemem_alignment == 15, "16-byte chunk alignment");
  V_WITNESS ();
}
