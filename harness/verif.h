/* Harness API shared by all CBMC harnesses. */
#ifndef VERIF_H
#define VERIF_H
#include <stddef.h>
#include <stdlib.h>
#define V_ASSERT(c, msg) __CPROVER_assert((c), msg)
#define V_ASSUME(c) __CPROVER_assume(c)
/* reachability witness: must come back FAILURE, otherwise the harness is vacuous */
#define V_WITNESS() __CPROVER_assert(0, "WITNESS reachable")
int nondet_int(void);
unsigned nondet_uint(void);
_Bool nondet_bool(void);
char nondet_char(void);
unsigned char nondet_uchar(void);
short nondet_short(void);
long nondet_long(void);
unsigned long nondet_ulong(void);
long long nondet_llong(void);
size_t nondet_size_t(void);
static inline void *v_malloc(size_t n) { void *p = malloc(n); __CPROVER_assume(p != 0); return p; }
#endif
