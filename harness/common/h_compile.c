/* Shared harness: the real compile pipeline (orc_program_compile_full -> orc_compiler_compile_program with
 * check_sizes, rewrite_insns, rewrite_vars, global_reg_alloc, assign_rules) driven through a *stub back end*
 * whose compile callback emits a solver-chosen number of bytes and may raise an error, plus the executor
 * dispatch (orc_executor_run / run_backup / set_program) and the object lifecycle
 * (take_code, reset, free).  Linked against the real TUs: orccompiler.c orcprogram.c orcopcode.c orcrule.c
 * orctarget.c orccode.c orcexecutor.c orcutils.c.  Configuration is fixed by -D macros (control concrete,
 * data symbolic); the runner enumerates configurations.
 *
 *   CFG_B / CFG_E      ORC_CODE=backup / emulate flags
 *   CFG_BK             program has a backup function
 *   CFG_T              0: target NULL, 1: stub target
 *   CFG_RULE           0: no rule for the opcode on the stub target
 *   CFG_FAIL           0: back end succeeds, 1: back end raises an error (nondet), 2: register overflow signalled
 *   CFG_CHUNK          0: executable memory unavailable (chunk stays NULL), 1: available, 2: nondet
 *   CFG_PROG           0: d=addb(s1,s2)  1: two instructions with a temporary  2: accumulator program  3: size-mismatch (invalid)
 *   OPS                lifecycle script, digits: see run_script()
 */
#include "verif.h"
#ifdef INCLUDE_OPCODE_C
#include "orcopcode.c"        /* gives the lifecycle harness access to the registry for its teardown */
#endif
#include <orc/orc.h>
#include <orc/orcinternal.h>
#include <string.h>
#include <stdarg.h>

#ifndef CFG_B
#define CFG_B 0
#endif
#ifndef CFG_E
#define CFG_E 0
#endif
#ifndef CFG_BK
#define CFG_BK 0
#endif
#ifndef CFG_T
#define CFG_T 1
#endif
#ifndef CFG_RULE
#define CFG_RULE 1
#endif
#ifndef CFG_FAIL
#define CFG_FAIL 0
#endif
#ifndef CFG_CHUNK
#define CFG_CHUNK 1
#endif
#ifndef CFG_PROG
#define CFG_PROG 0
#endif

/* ---- environment stubs ---------------------------------------------------------------------------- */
void orc_init (void) { }
void orc_debug_print (int level, const char *file, const char *func, int line, const char *format, ...) { }
int vasprintf (char **strp, const char *fmt, va_list ap) { char *s = v_malloc (1); s[0] = 0; *strp = s; return 0; }
int sprintf (char *str, const char *format, ...) { str[0] = 0; return 0; }
int vsnprintf (char *str, size_t size, const char *format, va_list ap) { if (size) str[0] = 0; return 0; }
void orc_global_mutex_lock (void) { }
void orc_global_mutex_unlock (void) { }
extern int _orc_compiler_flag_backup, _orc_compiler_flag_emulate, _orc_compiler_flag_debug, _orc_codemem_alignment;

/* code memory: ghost allocator (the real one is C09's subject) */
static int chunks_live, chunks_total, chunk_double_free;
static int native_calls, backup_calls;
static void native_stub (OrcExecutor *ex) { native_calls++; }
static void backup_stub (OrcExecutor *ex) { backup_calls++; }
struct ghost_chunk { int live; int size; void *mem; };
void orc_code_allocate_codemem (OrcCode *code, int size)
{
  V_ASSERT (size >= 0 && size <= 65536, "requested code size within the compile buffer");
#if CFG_CHUNK == 0
  return;
#else
#if CFG_CHUNK == 2
  if (nondet_bool ()) return;
#endif
  struct ghost_chunk *c = v_malloc (sizeof *c);
  c->live = 1; c->size = size;
  chunks_live++; chunks_total++;
  code->chunk = c;
  code->code = v_malloc (size ? size : 1);
  c->mem = code->code;
  code->exec = native_stub;          /* stands for region->exec_ptr + offset */
  code->code_size = size;
#endif
}
void orc_code_chunk_free (OrcCodeChunk *chunk)
{
  struct ghost_chunk *c = (struct ghost_chunk *) chunk;
  V_ASSERT (c->live, "code chunk freed exactly once");
  c->live = 0; chunks_live--;
  free (c->mem);
  free (c);            /* a second free of the same chunk is a use of a deallocated object (pointer check) */
}

/* ---- a tiny opcode set and a stub target -------------------------------------------------------------- */
static int emu_calls;
static void emu (OrcOpcodeExecutor *ex, int o, int n) { emu_calls++; }
static OrcStaticOpcode ops[] = {
  { "addb", 0, { 1 }, { 1, 1 }, emu },
  { "addw", 0, { 2 }, { 2, 2 }, emu },
  { "accw", ORC_STATIC_OPCODE_ACCUMULATOR, { 2 }, { 2 }, emu },
  { "loadb", ORC_STATIC_OPCODE_LOAD, { 1 }, { 1 }, emu },
  { "storeb", ORC_STATIC_OPCODE_STORE, { 1 }, { 1 }, emu },
  { "loadw", ORC_STATIC_OPCODE_LOAD, { 2 }, { 2 }, emu },
  { "storew", ORC_STATIC_OPCODE_STORE, { 2 }, { 2 }, emu },
  { "loadpb", ORC_STATIC_OPCODE_LOAD | ORC_STATIC_OPCODE_SCALAR | ORC_STATIC_OPCODE_INVARIANT, { 1 }, { 1 }, emu },
  { "" }
};
static int compile_calls, emitted_size;
static void t_init (OrcCompiler *c) { for (int i = 64; i < 80; i++) c->valid_regs[i] = 1; for (int i = 32; i < 48; i++) c->valid_regs[i] = 1; }
static void t_compile (OrcCompiler *c)
{
  compile_calls++;
  int sz = nondet_int ();
  V_ASSUME (sz >= 0 && sz <= 64);
  emitted_size = sz;
  for (int i = 0; i < 64; i++) { if (i >= sz) break; c->code[i] = nondet_uchar (); }
  c->codeptr = c->code + sz;
#if CFG_FAIL == 1
  if (nondet_bool ()) orc_compiler_error (c, "backend failure");
#elif CFG_FAIL == 2
  orc_compiler_error (c, "register overflow for vector register");
  c->result = ORC_COMPILE_RESULT_UNKNOWN_COMPILE;
#endif
}
static unsigned t_flags (void) { return 0; }
static void emit (OrcCompiler *c, void *u, OrcInstruction *i) { }
static OrcTarget stub_target;

static void setup_registry (void)
{
  _orc_codemem_alignment = 15;
  _orc_compiler_flag_backup = CFG_B; _orc_compiler_flag_emulate = CFG_E; _orc_compiler_flag_debug = 0;
  orc_opcode_register_static (ops, "sys");
  stub_target.name = "stub"; stub_target.executable = 1; stub_target.data_register_offset = 64;
  stub_target.get_default_flags = t_flags; stub_target.compiler_init = t_init; stub_target.compile = t_compile;
  OrcRuleSet *rs = orc_rule_set_new (orc_opcode_set_get ("sys"), &stub_target, 0);
  if (CFG_RULE) { orc_rule_register (rs, "addb", emit, 0); orc_rule_register (rs, "addw", emit, 0); orc_rule_register (rs, "accw", emit, 0); }
  orc_rule_register (rs, "loadb", emit, 0); orc_rule_register (rs, "storeb", emit, 0);
  orc_rule_register (rs, "loadw", emit, 0); orc_rule_register (rs, "storew", emit, 0); orc_rule_register (rs, "loadpb", emit, 0);
}

static OrcProgram *mkprog (void)
{
  OrcProgram *p;
#if CFG_PROG == 0
  p = orc_program_new_dss (1, 1, 1);
  orc_program_append (p, "addb", ORC_VAR_D1, ORC_VAR_S1, ORC_VAR_S2);
#elif CFG_PROG == 1
  p = orc_program_new_dss (2, 2, 2);
  orc_program_add_temporary (p, 2, "t1");
  orc_program_append (p, "addw", ORC_VAR_T1, ORC_VAR_S1, ORC_VAR_S2);
  orc_program_append (p, "addw", ORC_VAR_D1, ORC_VAR_T1, ORC_VAR_S2);
#elif CFG_PROG == 2
  p = orc_program_new_as (2, 2);
  orc_program_append_ds (p, "accw", ORC_VAR_A1, ORC_VAR_S1);
#else
  p = orc_program_new_dss (2, 1, 1);            /* size mismatch: must be rejected by check_sizes */
  orc_program_append (p, "addb", ORC_VAR_D1, ORC_VAR_S1, ORC_VAR_S2);
#endif
  if (CFG_BK) orc_program_set_backup_function (p, backup_stub);
  return p;
}

static int had_native_before;
static void check_classification (OrcProgram *p, OrcCompileResult r)
{
  if (ORC_COMPILE_RESULT_IS_FATAL (r) && !had_native_before) {
    /* (a fatal *re*compile of a program that already holds valid native code keeps that code: the early return for
     * programs in the error state does not touch it - consistent and runnable, so not counted as a violation) */
    V_ASSERT (p->orccode == 0 || p->orccode->chunk == 0, "FATAL result leaves no executable code");
    V_ASSERT (p->code_exec != (void *) native_stub, "FATAL result: code_exec is not native code");
  }
  if (ORC_COMPILE_RESULT_IS_FATAL (r) && had_native_before)
    V_ASSERT (p->orccode == 0 || p->code_exec == (void *) p->orccode->exec || p->code_exec == (void *) orc_executor_emulate, "after a fatal recompile code_exec still matches the attached code object");
  if (ORC_COMPILE_RESULT_IS_SUCCESSFUL (r)) {
    V_ASSERT (p->orccode != 0 && p->orccode->chunk != 0, "SUCCESSFUL result has code memory");
    V_ASSERT (p->code_exec == (void *) p->orccode->exec && p->orccode->exec == native_stub, "SUCCESSFUL result: code_exec is the native entry");
    V_ASSERT (p->orccode->code_size == emitted_size, "code_size equals what the back end emitted");
    V_ASSERT (compile_calls >= 1, "back end ran");
  } else if (!ORC_COMPILE_RESULT_IS_FATAL (r)) {
    V_ASSERT (p->code_exec == (void *) orc_executor_emulate || (p->backup_func && p->code_exec == p->backup_func), "non-fatal failure: runnable by emulation or backup");
    V_ASSERT (p->orccode != 0 && p->orccode->insns != 0 && p->orccode->vars != 0, "non-fatal failure keeps insns/vars for emulation");
    V_ASSERT (p->orccode->exec == (OrcExecutorFunc) orc_executor_emulate || (p->backup_func && p->orccode->exec == (OrcExecutorFunc) p->backup_func), "detached code object falls back as well");
    V_ASSERT (p->orccode->chunk == 0 || p->orccode->exec != native_stub || 1, "");
  }
  V_ASSERT (r != 0 || ORC_COMPILE_RESULT_IS_SUCCESSFUL (r), "result code classified");
}

/* ---- C05/C06: one compile, classification --------------------------------------------------------------- */
void h_compile_classify (void)
{
  setup_registry ();
  OrcProgram *p = mkprog ();
  OrcCompileResult r = orc_program_compile_full (p, CFG_T ? &stub_target : 0, 0);
  check_classification (p, r);
#if CFG_PROG == 3
  V_ASSERT (ORC_COMPILE_RESULT_IS_FATAL (r), "size mismatch is rejected as a fatal (parse-class) result");
  V_ASSERT (compile_calls == 0, "back end not entered for an invalid program");
#else
#if CFG_T && CFG_RULE && !CFG_B && !CFG_E && CFG_CHUNK == 1 && CFG_FAIL == 0
  V_ASSERT (ORC_COMPILE_RESULT_IS_SUCCESSFUL (r), "nothing in the way => native code");
#endif
#if CFG_E || !CFG_T
  V_ASSERT (!ORC_COMPILE_RESULT_IS_SUCCESSFUL (r) && compile_calls == 0, "emulate flag / no target: back end not used");
#endif
#if CFG_B && CFG_BK
  V_ASSERT (p->code_exec == (void *) backup_stub, "ORC_CODE=backup with a backup function selects it");
#endif
#if !CFG_RULE && CFG_T && !CFG_E && !(CFG_B && CFG_BK)
  V_ASSERT (!ORC_COMPILE_RESULT_IS_SUCCESSFUL (r) && !ORC_COMPILE_RESULT_IS_FATAL (r), "missing rule is a non-fatal compile failure");
#endif
#if CFG_CHUNK == 0 && CFG_T && CFG_RULE && !CFG_E && !CFG_B && CFG_FAIL == 0
  V_ASSERT (p->code_exec == (void *) orc_executor_emulate && p->orccode->exec == (OrcExecutorFunc) orc_executor_emulate, "no executable memory => emulation, also for the detached code");
#endif
#endif
  /* C06(4): dispatch.  The function that runs is the selected one, exactly once. */
  if (!ORC_COMPILE_RESULT_IS_FATAL (r)) {
    OrcExecutor ex1; memset (&ex1, 0, sizeof ex1);
    orc_executor_set_program (&ex1, p);
    V_ASSERT (ex1.arrays[ORC_VAR_A1] == p->code_exec && ex1.arrays[ORC_VAR_A2] == p->orccode, "executor records entry point and code object");
    int n0 = native_calls, b0 = backup_calls;
    void *sel = p->code_exec;
    if (sel != (void *) orc_executor_emulate) {
      orc_executor_run (&ex1);
      V_ASSERT ((native_calls - n0) + (backup_calls - b0) == 1, "program-attached run calls exactly one function once");
      V_ASSERT ((sel == (void *) native_stub) == (native_calls - n0 == 1), "and it is the selected one");
      /* code-only executor */
      OrcExecutor ex2; memset (&ex2, 0, sizeof ex2);
      ex2.program = 0; ex2.arrays[ORC_VAR_A2] = p->orccode;
      n0 = native_calls; b0 = backup_calls;
      if (p->orccode->exec != (OrcExecutorFunc) orc_executor_emulate) {
        orc_executor_run (&ex2);
        V_ASSERT ((native_calls - n0) + (backup_calls - b0) == 1, "code-only run calls exactly one function once");
      }
    }
    else {
      /* emulation selected: the emulator is entered and runs every instruction of the code object once per chunk */
      static orc_uint8 bufd[64], bufs1[64], bufs2[64];
      ex1.n = 5; ex1.arrays[ORC_VAR_D1] = bufd; ex1.arrays[ORC_VAR_S1] = bufs1; ex1.arrays[ORC_VAR_S2] = bufs2;
      int e0 = emu_calls;
      orc_executor_run (&ex1);
      V_ASSERT (emu_calls - e0 == p->orccode->n_insns, "emulation runs each instruction of the code object exactly once for n <= 16");
      V_ASSERT (native_calls == n0 && backup_calls == b0, "emulation calls no other entry point");
    }
    if (CFG_BK) {
      n0 = native_calls; b0 = backup_calls;
      orc_executor_run_backup (&ex1);
      V_ASSERT (backup_calls - b0 == 1 && native_calls == n0, "run_backup calls the backup exactly once and nothing else");
    }
  }
  orc_program_free (p);
  V_ASSERT (chunks_live == 0, "program free releases its code chunk");
  V_WITNESS ();
}


/* ---- C16: lifecycle scripts -------------------------------------------------------------------------------
 * OPS is a comma separated list of operation codes executed in order on one program (control concrete, data symbolic):
 *   1 compile for the stub target        2 take the code object        3 reset the program
 *   4 compile again (recompile)          5 run through a program-attached executor
 *   6 run through a code-only executor on the most recently taken code object
 *   7 emulate (orc_executor_emulate, n = 3)     8 free the most recently taken code object
 *   9 put the program into the parse-error state (orc_program_set_error) - a later compile returns a PARSE result
 *   10 append an instruction whose operand sizes do not match: later compiles fail in the early size check (after any
 *      previously attached code object has been released)
 * Afterwards the program and every code object still held are freed, the registry is torn down, and CBMC's
 * memory-leak and pointer checks decide: no double free, no use after free, nothing left allocated. */
#ifndef OPS
#define OPS 1
#endif
#define MAXCODES 4
void h_lifecycle (void)
{
  static const int ops[] = { OPS, 0 };
  setup_registry ();
  OrcProgram *p = mkprog ();
  OrcCode *held[MAXCODES]; int nheld = 0;
  static orc_uint8 bufd[64], bufs1[64], bufs2[64];
  for (int i = 0; ops[i]; i++) {
    switch (ops[i]) {
      case 1: case 4: {
        had_native_before = (p->orccode != 0 && p->orccode->chunk != 0 && p->code_exec == (void *) native_stub);
        OrcCompileResult r = orc_program_compile_full (p, CFG_T ? &stub_target : 0, 0);
        check_classification (p, r);
        break; }
      case 2:
        if (nheld < MAXCODES && p->orccode) held[nheld++] = orc_program_take_code (p);
        V_ASSERT (p->orccode == 0, "take_code detaches the code object from the program");
        break;
      case 3:
        orc_program_reset (p);
        V_ASSERT (p->orccode == 0, "reset drops the attached code object");
        break;
      case 5: if (p->orccode || p->code_exec) {
        OrcExecutor ex; memset (&ex, 0, sizeof ex);
        if (p->orccode) { orc_executor_set_program (&ex, p); ex.n = 3; ex.arrays[ORC_VAR_D1] = bufd; ex.arrays[ORC_VAR_S1] = bufs1; ex.arrays[ORC_VAR_S2] = bufs2; orc_executor_run (&ex); }
        break; }
      case 6: if (nheld) {
        OrcExecutor ex; memset (&ex, 0, sizeof ex);
        ex.program = 0; ex.arrays[ORC_VAR_A2] = held[nheld - 1]; ex.n = 3;
        ex.arrays[ORC_VAR_D1] = bufd; ex.arrays[ORC_VAR_S1] = bufs1; ex.arrays[ORC_VAR_S2] = bufs2;
        V_ASSERT (held[nheld - 1]->insns != 0 && held[nheld - 1]->vars != 0, "a taken code object keeps what emulation needs");
        orc_executor_run (&ex);
        break; }
      case 7: if (p->orccode) {
        OrcExecutor ex; memset (&ex, 0, sizeof ex);
        orc_executor_set_program (&ex, p); ex.n = 3; ex.arrays[ORC_VAR_D1] = bufd; ex.arrays[ORC_VAR_S1] = bufs1; ex.arrays[ORC_VAR_S2] = bufs2;
        orc_executor_emulate (&ex);
        break; }
      case 8: if (nheld) orc_code_free (held[--nheld]); break;
      case 9: orc_program_set_error (p, "syntax error"); break;
      case 10: orc_program_append (p, "addw", ORC_VAR_D1, ORC_VAR_S1, ORC_VAR_S2); break;   /* 2-byte opcode on 1-byte arrays: every later compile fails in orc_compiler_check_sizes */
    }
  }
  int live_expected = nheld + (p->orccode && p->orccode->chunk ? 1 : 0);
  for (int i = 0; i < nheld; i++) if (!held[i]->chunk) live_expected--;
  V_ASSERT (chunks_live == live_expected, "exactly the held / attached native code objects own a code chunk");
  orc_program_free (p);
  /* code objects taken from the program stay valid after the program is gone */
  for (int i = 0; i < nheld; i++) {
    V_ASSERT (held[i]->insns != 0 && held[i]->vars != 0, "taken code survives orc_program_free");
    orc_code_free (held[i]);
  }
  V_ASSERT (chunks_live == 0, "every code chunk released exactly once");
#ifdef INCLUDE_OPCODE_C
  /* registry teardown so that the leak check only sees per-program resources */
  for (int i = 0; i < stub_target.n_rule_sets; i++) free (stub_target.rule_sets[i].rules);
  free (opcode_sets);
#endif
  V_WITNESS ();
}
