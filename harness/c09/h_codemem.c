/* C09: one inductive step of the code-memory allocator from an arbitrary valid pre-state.
 * Real code: orc/orccodemem.c (included below, so static functions and globals are visible). */
#include "verif.h"
#include "orccodemem.c"

#ifndef K
#define K 5            /* max chunks per region in the pre-state */
#endif
#ifndef R
#define R 2            /* regions in the pre-state */
#endif

/* ---- environment stubs ------------------------------------------------------------ */
static int lock_depth, lock_calls;
void orc_global_mutex_lock (void) { V_ASSERT(lock_depth == 0, "global mutex not taken recursively"); lock_depth++; lock_calls++; }
void orc_global_mutex_unlock (void) { V_ASSERT(lock_depth == 1, "unlock only when held"); lock_depth--; }
int _orc_compiler_flag_debug;
int _orc_codemem_alignment = 15;
void orc_debug_print (int level, const char *file, const char *func, int line, const char *format, ...) { }
void *orc_malloc (size_t n) { return v_malloc (n); }
int sprintf (char *str, const char *format, ...) { str[0] = 0; return 0; }
char *getenv (const char *name) { return 0; }
int mkstemp (char *templ) { return -1; }          /* file-backed path is C06's subject; here: anon map only */
mode_t umask (mode_t m) { return 022; }
int unlink (const char *p) { return 0; }
int ftruncate (int fd, off_t len) { return -1; }
int close (int fd) { return 0; }
static int maps_created;
void *mmap (void *addr, size_t len, int prot, int flags, int fd, off_t off)
{
  if (nondet_bool ()) return MAP_FAILED;
  maps_created++;
  return v_malloc (len);
}
int munmap (void *addr, size_t len) { return 0; }

/* ---- symbolic pre-state ------------------------------------------------------------- */
static OrcCodeChunk *ch[R][K];
static int nch[R];
static OrcCodeRegion *reg[R];

static OrcCodeRegion *mkregion (int r)
{
  OrcCodeRegion *g = v_malloc (sizeof *g);
  int k = nondet_int ();
  V_ASSUME (k >= 1 && k <= K);
  nch[r] = k;
  g->size = SIZE;
  g->write_ptr = v_malloc (SIZE);
  g->exec_ptr = v_malloc (SIZE);
  int off = 0;
  for (int i = 0; i < K; i++) ch[r][i] = 0;
  for (int i = 0; i < K; i++) {
    if (i >= k) break;
    OrcCodeChunk *c = v_malloc (sizeof (OrcCodeChunk));
    ch[r][i] = c;
    c->region = g; c->offset = off; c->used = nondet_bool ();
    int sz = nondet_int ();
    V_ASSUME (sz > 0 && (sz & 15) == 0 && sz <= SIZE);
    c->size = sz; off += sz;
    c->prev = i ? ch[r][i-1] : 0; c->next = 0;
    if (i) ch[r][i-1]->next = c;
    if (i) V_ASSUME (ch[r][i-1]->used || c->used);   /* Inv: no two adjacent free chunks */
  }
  V_ASSUME (off == SIZE);
  g->chunks = ch[r][0];
  return g;
}

/* representation invariant, evaluated on the real structures */
static int inv (OrcCodeRegion *g, int maxk)
{
  int off = 0, n = 0;
  OrcCodeChunk *c = g->chunks, *prev = 0;
  if (!c) return 0;
  while (c) {
    if (n >= maxk) return 0;
    if (c->offset != off || c->size <= 0 || (c->size & 15) || c->prev != prev || c->region != g) return 0;
    if (prev && !prev->used && !c->used) return 0;
    off += c->size; prev = c; c = c->next; n++;
  }
  return off == g->size;
}

static void setup (void)
{
  orc_code_regions = v_malloc (sizeof (void *) * R);
  for (int r = 0; r < R; r++) { reg[r] = mkregion (r); orc_code_regions[r] = reg[r]; }
  orc_code_n_regions = R;
}

/* ---- step: allocate ------------------------------------------------------------------ */
void h_alloc (void)
{
  setup ();
  OrcCode code;
  code.chunk = 0; code.code = 0; code.exec = 0;
  int size = nondet_int ();
  V_ASSUME (size >= 0 && size <= SIZE);
  int aligned = ((size > 1 ? size : 1) + 15) & ~15;

  /* ghost copy of used chunks (frame) and a probe byte of region memory */
  int u_off[R][K], u_sz[R][K], u_used[R][K];
  int fits = 0;
  for (int r = 0; r < R; r++) for (int i = 0; i < K; i++) {
    u_used[r][i] = 0;
    if (i < nch[r]) { u_used[r][i] = ch[r][i]->used; u_off[r][i] = ch[r][i]->offset; u_sz[r][i] = ch[r][i]->size;
      if (!ch[r][i]->used && aligned <= ch[r][i]->size) fits = 1; }
  }
  int pr = nondet_int (), pi = nondet_int ();
  V_ASSUME (pr >= 0 && pr < R && pi >= 0 && pi < SIZE);
  orc_uint8 probe_w = reg[pr]->write_ptr[pi], probe_x = reg[pr]->exec_ptr[pi];

  orc_code_allocate_codemem (&code, size);

  V_ASSERT (lock_depth == 0 && lock_calls == 1, "allocator step runs under the global mutex exactly once and releases it");
  if (fits) {
    V_ASSERT (code.chunk != 0, "a fitting free chunk exists => allocation succeeds");
    V_ASSERT (orc_code_n_regions == R && maps_created == 0, "no new region while a free chunk fits");
  }
  if (code.chunk) {
    OrcCodeChunk *c = code.chunk;
    OrcCodeRegion *g = c->region;
    V_ASSERT (c->used, "returned chunk is marked used");
    V_ASSERT (c->size >= size && c->size >= aligned, "returned chunk is large enough");
    V_ASSERT (c->offset >= 0 && c->offset + c->size <= g->size, "returned chunk lies inside its region");
    V_ASSERT (code.code == g->write_ptr + c->offset && code.exec == g->exec_ptr + c->offset, "code/exec pointers are region base + offset");
    V_ASSERT (code.code_size == size, "code_size recorded");
    int found = 0;
    for (int r = 0; r < orc_code_n_regions && r < R + 1; r++) if (orc_code_regions[r] == g) found = 1;
    V_ASSERT (found, "owning region is registered");
    /* the chunk was free before (or is in a fresh region): it is not one of the previously used chunks */
    for (int r = 0; r < R; r++) for (int i = 0; i < K; i++)
      if (u_used[r][i]) V_ASSERT (ch[r][i] != c, "a used chunk is never handed out again");
  } else {
    V_ASSERT (!fits, "failure only when nothing fits and no region could be mapped");
    V_ASSERT (code.code == 0 && code.exec == 0, "failed allocation leaves no pointers");
  }
  for (int r = 0; r < R; r++) V_ASSERT (inv (reg[r], K + 1), "Inv preserved (tiling, alignment, links, coalesced)");
  if (orc_code_n_regions == R + 1) V_ASSERT (inv (orc_code_regions[R], 2), "Inv holds for the new region");
  V_ASSERT (orc_code_n_regions == R || orc_code_n_regions == R + 1, "at most one region added");
  for (int r = 0; r < R; r++) {
    V_ASSERT (orc_code_regions[r] == reg[r], "existing regions stay registered");
    for (int i = 0; i < K; i++)
      if (u_used[r][i]) V_ASSERT (ch[r][i]->used && ch[r][i]->offset == u_off[r][i] && ch[r][i]->size == u_sz[r][i], "frame: live chunks keep offset and size");
  }
  V_ASSERT (reg[pr]->write_ptr[pi] == probe_w && reg[pr]->exec_ptr[pi] == probe_x, "allocator does not touch code bytes");
  V_WITNESS ();
}

/* ---- step: free ----------------------------------------------------------------------- */
void h_free (void)
{
  setup ();
  int fr = nondet_int (), fj = nondet_int ();
  V_ASSUME (fr >= 0 && fr < R && fj >= 0 && fj < nch[fr] && fj < K);
  V_ASSUME (ch[fr][fj]->used);
  int u_off[R][K], u_sz[R][K], u_used[R][K], nused = 0;
  for (int r = 0; r < R; r++) for (int i = 0; i < K; i++) {
    u_used[r][i] = 0;
    if (i < nch[r]) { u_used[r][i] = ch[r][i]->used; u_off[r][i] = ch[r][i]->offset; u_sz[r][i] = ch[r][i]->size;
      if (r == fr && ch[r][i]->used) nused++; }
  }
  int f_off = ch[fr][fj]->offset, f_sz = ch[fr][fj]->size;
  int pi = nondet_int ();
  V_ASSUME (pi >= 0 && pi < SIZE);
  orc_uint8 probe_w = reg[fr]->write_ptr[pi];

  orc_code_chunk_free (ch[fr][fj]);

  V_ASSERT (lock_depth == 0 && lock_calls == 1, "free runs under the global mutex exactly once and releases it");
  for (int r = 0; r < R; r++) V_ASSERT (inv (reg[r], K + 1), "Inv preserved after free (incl. no adjacent free chunks => coalesced)");
  for (int r = 0; r < R; r++) for (int i = 0; i < K; i++)
    if (u_used[r][i] && !(r == fr && i == fj))
      V_ASSERT (ch[r][i]->used && ch[r][i]->offset == u_off[r][i] && ch[r][i]->size == u_sz[r][i], "frame: other live chunks untouched");
  /* the freed range is now covered by one free chunk */
  {
    OrcCodeChunk *c = reg[fr]->chunks; int n = 0, ok = 0;
    while (c && n < K + 1) { if (!c->used && c->offset <= f_off && c->offset + c->size >= f_off + f_sz) ok = 1; c = c->next; n++; }
    V_ASSERT (ok, "freed range is free afterwards");
  }
  if (nused == 1)
    V_ASSERT (reg[fr]->chunks && !reg[fr]->chunks->used && reg[fr]->chunks->next == 0 && reg[fr]->chunks->size == SIZE, "last free leaves a single full-size free chunk");
  V_ASSERT (orc_code_n_regions == R, "free never changes the region table");
  V_ASSERT (reg[fr]->write_ptr[pi] == probe_w, "free does not touch code bytes");
  V_WITNESS ();
}

/* ---- bounded history from the empty allocator (cross-check that Inv is reachable, not too weak) ----- */
#ifndef H
#define H 4
#endif
void h_history (void)
{
  OrcCode codes[H];
  int live[H];
  for (int i = 0; i < H; i++) { live[i] = 0; codes[i].chunk = 0; }
  for (int step = 0; step < H; step++) {
    if (nondet_bool ()) {
      int size = nondet_int ();
      V_ASSUME (size >= 0 && size <= SIZE);
      codes[step].chunk = 0;
      orc_code_allocate_codemem (&codes[step], size);
      if (codes[step].chunk) live[step] = 1;
    } else {
      int j = nondet_int ();
      V_ASSUME (j >= 0 && j < step && live[j]);
      orc_code_chunk_free (codes[j].chunk);
      live[j] = 0;
    }
    for (int r = 0; r < orc_code_n_regions && r < H; r++) V_ASSERT (inv (orc_code_regions[r], H + 2), "history: Inv after every step");
    for (int a = 0; a < H; a++) for (int b = 0; b < H; b++)
      if (a < b && live[a] && live[b] && ((OrcCodeChunk*)codes[a].chunk)->region == ((OrcCodeChunk*)codes[b].chunk)->region) {
        OrcCodeChunk *x = codes[a].chunk, *y = codes[b].chunk;
        V_ASSERT (x->offset + x->size <= y->offset || y->offset + y->size <= x->offset, "history: live functions never overlap");
      }
  }
  V_ASSERT (orc_code_n_regions <= H, "history: regions bounded by allocations");
  V_WITNESS ();
}
