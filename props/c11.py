"""C11 - target feature flags bound the instructions that are emitted (per flag subset; reaching an instruction outside the allowed ISA classes is a fault)."""
from lib import x86run
from lib.common import Report, tier
from props import x86common


def flagsets():
    """quick: default + minimal + each single feature removed; thorough: every subset of the feature bits"""
    import itertools
    SSE = {'sse3': 2, 'ssse3': 4, 'sse4.1': 8, 'sse4.2': 16}
    base_sse = 1 | (1 << 9)
    base_avx = base_sse | (1 << 10)
    MMX = {'mmxext': 2, 'ssse3': 16, 'sse4.1': 32}
    base_mmx = 1 | (1 << 9)
    out = {'sse': [], 'avx': [], 'mmx': []}
    if tier() == 'quick':
        allb = sum(SSE.values())
        out['sse'] = [('all', base_sse | allb), ('minimal', base_sse)] + [('no-' + k, base_sse | (allb & ~v)) for k, v in SSE.items()]
        out['avx'] = [('all', base_avx | allb | (1 << 11)), ('no-avx2', base_avx | allb)] + [('no-' + k, base_avx | (1 << 11) | (allb & ~v)) for k, v in SSE.items()]
        allm = sum(MMX.values())
        out['mmx'] = [('all', base_mmx | allm), ('minimal', base_mmx)] + [('no-' + k, base_mmx | (allm & ~v)) for k, v in MMX.items()]
    else:
        for r in range(len(SSE) + 1):
            for c in itertools.combinations(SSE.values(), r):
                out['sse'].append(('s%x' % sum(c), base_sse | sum(c)))
                out['avx'].append(('a%x' % sum(c), base_avx | (1 << 11) | sum(c)))
                out['avx'].append(('a%x-noavx2' % sum(c), base_avx | sum(c)))
        for r in range(len(MMX) + 1):
            for c in itertools.combinations(MMX.values(), r):
                out['mmx'].append(('m%x' % sum(c), base_mmx | sum(c)))
    return out


def main():
    rep = Report('C11', 'translation_validation')
    rep.bounds = dict(n='symbolic, 0..2*elements_per_vector+3 (avx capped at 36 in the quick tier); every head/tail length and <=2 main-loop iterations are feasible paths',
                      alignment='base pointers symbolic (every residue allowed by the element size)', m='1..2 rows for 2-D programs, n<=9',
                      programs='quick: every opcode once (operand kind rotates with VERIF_SEED) + every 4th x2/x4 form + structural extras; thorough: whole single-opcode family',
                      targets='sse, avx, mmx (64-bit code)')
    rep.assume(*x86common.ASSUME)
    results, info = x86run.run(('C01', 'C11'), flagsets=flagsets(), quick_frac=4, n_small=True, diff_only=True)
    # C11's statement includes: for every flag subset under which the program still compiles, the code computes the same results
    for r in results:
        r['viol']['C11'] = r['viol'].get('C11', []) + ['[results under this flag set] ' + x for x in r['viol'].get('C01', [])]
    x86common.fold('C11', 'translation_validation', results, info, rep, '')
    return rep.finish()


def replay(path):
    import json
    print(json.dumps(json.load(open(path)), indent=1)[:8000])
    return 0
