"""C07 - what orcc generates works end to end through its C prototype.
orcc is built from the tree and run on a corpus (.orc text in harness/c07/corpus.orc: int/float/64-bit/double parameters,
2-D with strides, constant n/m, one and two accumulators, several destinations, x2, in-place) in every option set:
  (1) every output (implementation + header, normal and -DDISABLE_ORC) is compiled by gcc -Wall -Werror in one
      translation unit with its own header (prototype consistency)                                [concrete gate]
  (2) the generated *wrapper* is executed symbolically (irsym, from clang IR) through the prototype the header declares,
      with symbolic array contents and parameter values; its code pointer is the generated backup function of the same
      file (that is ORC_CODE=backup); memory afterwards is compared with the composition oracle of C02 by the solver
  (2b) the same call with the code object ORC_CODE=emulate leaves behind: exec = the real orc_executor_emulate (IR of
      orcexecutor.c + emulator kernels), instructions and variables of the program
  (3) the same call on the -DDISABLE_ORC body
  (1b) the bytecode array embedded in each generated wrapper is fed to the real orc_program_new_from_static_bytecode and the
      rebuilt program is compared with the parsed one                                           [concrete gate; symbolic: C13]
  (1c) functions with a user-supplied backup (.backup): compile gate on harness/c07/backup.orc; for those that compile
      (harness/c07/backup_ok.orc) the user's function receives exactly the caller's arguments, through the executor and in
      the DISABLE_ORC build (irsym, all argument values)
  (4) orc_memcpy / orc_memset of the checked-in orcfunctions.c, wrapper + backup, against memcpy/memset semantics
JIT and emulate modes differ from (2) only in the function the wrapper jumps to with the executor it filled in; those
functions are tied to the same oracle by C01 (JIT) and C02 (orc_executor_emulate)."""
import os, re, json, subprocess, time
import z3
from lib import build, common
from lib.common import Report, tier, VERIF, REPO

CORPUS = os.path.join(VERIF, 'harness', 'c07', 'corpus.orc')
OFFSETS_C = r'''#include <stdio.h>
#include <stddef.h>
#include <orc/orc.h>
#include <orc/orcinternal.h>
int main(){printf("{\"code_exec\":%zu,\"sizeof_code\":%zu,\"prog_code_exec\":%zu,\"sizeof_prog\":%zu,\"ex_program\":%zu,\"ex_n\":%zu,\"ex_arrays\":%zu,\"ex_params\":%zu,\"ex_acc\":%zu,\"sizeof_ex\":%zu,\"A1\":%d,\"A2\":%d,\"T1\":%d,\"P1\":%d}",offsetof(OrcCode,exec),sizeof(OrcCode),offsetof(OrcProgram,code_exec),sizeof(OrcProgram),
offsetof(OrcExecutor,program),offsetof(OrcExecutor,n),offsetof(OrcExecutor,arrays),offsetof(OrcExecutor,params),offsetof(OrcExecutor,accumulators),sizeof(OrcExecutor),ORC_VAR_A1,ORC_VAR_A2,ORC_VAR_T1,ORC_VAR_P1);}'''
OFFSETS2_C = r'''#include <stdio.h>
#include <stddef.h>
#include <orc/orc.h>
#include <orc/orcinternal.h>
#define O(T,f) printf("\"%s.%s\":%zu,", #T, #f, offsetof(T,f))
int main(){printf("{");O(OrcCode,n_insns);O(OrcCode,insns);O(OrcCode,vars);O(OrcCode,is_2d);O(OrcCode,constant_n);O(OrcCode,constant_m);
O(OrcInstruction,opcode);O(OrcInstruction,dest_args);O(OrcInstruction,src_args);O(OrcInstruction,flags);
O(OrcCodeVariable,vartype);O(OrcCodeVariable,size);O(OrcCodeVariable,value);
printf("\"sizeof_insn\":%zu,\"sizeof_cvar\":%zu,\"sizeof_opcode\":%zu,\"NCV\":%d}",sizeof(OrcInstruction),sizeof(OrcCodeVariable),sizeof(OrcStaticOpcode),ORC_N_COMPILER_VARIABLES);}'''


def prototypes(hdr_text):
    out = {}
    for m in re.finditer(r'(?m)^(?:static inline void\n|static void\n|void\n|void )(\w+) \(([^)]*)\)\s*(?:;|\{)', hdr_text):
        if m.group(1).startswith('_backup_') or m.group(1) in out:
            continue
        args = []
        for a in m.group(2).split(','):
            a = a.strip()
            if not a or a == 'void':
                continue
            nm = re.findall(r'(\w+)$', a)[0]
            args.append((nm, a[:-len(nm)].strip()))
        out[m.group(1)] = args
    return out


def gcc_compiles(b, tag, text, defs=()):
    src = os.path.join(b.dir, tag + '.c')
    open(src, 'w').write(text)
    r = subprocess.run(['gcc', '-c', '-Wall', '-Werror', '-Wno-unused-function', '-Wno-unused-variable', '-Wno-unused-but-set-variable', '-O1'] + b.cflags + ['-D' + d for d in defs] + ['-I' + b.dir, src, '-o', os.path.join(b.dir, tag + '.o')],
                       capture_output=True, text=True)
    return r.returncode == 0, r.stderr


def run_function(rep, b, m, off, job, fname, proto, prog, optable, n, rows, mode, code_global=None):
    """symbolic call of the generated function through its prototype; compare with the oracle"""
    from engines.irsym import Executor, MemFault, Unsupported
    from engines import orcref, oracle as O
    from lib.x86check import prove_equal
    t0 = time.time()
    ex = Executor(m, max_steps=3000000)
    pv = {v['name']: v for v in prog['prog_vars']}
    byidx = {v['i']: v for v in prog['prog_vars']}
    code = prog['orccode']
    n_eff = code.get('constant_n') or n
    rows_eff = (code.get('constant_m') or rows) if code.get('is_2d') else 1
    # orcdump parse names variables v<i>; roles by index
    def var_of(role):
        k, j = role[0], int(role[1:]) - 1
        base = dict(d=0, s=4, a=12, p=24)[k]
        return byidx.get(base + j)
    arrays, params, accs, argv = {}, {}, {}, []
    gap = 6
    for nm, ty in proto:
        mm = re.match(r'^([dsap])(\d)$', nm)
        if mm and '*' in ty:
            v = var_of(nm)
            if v is None:
                raise Unsupported('prototype names %s but the program has no such variable' % nm)
            if nm[0] == 'a':
                A = ex.alloc('acc_' + nm, v['size'], init='zero')
                ex.write(A, 0, z3.BitVec('old_' + nm, 8 * v['size']), v['size'])
                accs[v['i']] = (A, v['size'], nm)
                argv.append(A)
                continue
            rowbytes = v['size'] * (n_eff + 2) + gap
            A = ex.alloc('arr_' + nm, rowbytes * rows_eff, init='zero')
            syms = {}
            for r_ in range(rows_eff):
                for e in range(n_eff + 2):
                    t = z3.BitVec('%s_r%d_e%d' % (nm, r_, e), 8 * v['size'])
                    syms[(r_, e)] = t
                    ex.write(A, r_ * rowbytes + e * v['size'], t, v['size'])
            arrays[v['i']] = dict(addr=A, size=v['size'], syms=syms, rowbytes=rowbytes, writable=nm[0] == 'd', name=nm)
            argv.append(A)
        elif nm.endswith('_stride'):
            v = var_of(nm[:2])
            argv.append(arrays[v['i']]['rowbytes'])
        elif mm and nm[0] == 'p':
            v = var_of(nm)
            bits = 64 if ('int64' in ty or 'double' in ty) else 32
            t = z3.BitVec('arg_' + nm, bits)
            params[v['i']] = (z3.Extract(31, 0, t), z3.Extract(63, 32, t) if bits == 64 else z3.BitVecVal(0, 32), v['size'])
            argv.append(t)
        elif nm == 'n':
            argv.append(n_eff)
        elif nm == 'm':
            argv.append(rows_eff)
        else:
            raise Unsupported('prototype argument %s %s' % (ty, nm))
    asm = []
    for insn in code['insns']:
        if insn['op'][:3] in ('shl', 'shr') and insn['s'][1] in params:
            asm.append(z3.ULT(params[insn['s'][1]][0], 8 * optable[insn['op']]['src'][0]))
    for a_ in asm:
        ex.assume(a_)
    acc_in = None
    if mode == 'emulate':
        # ORC_CODE=emulate: the published code object is the one a compile under that setting leaves behind - instructions and
        # variables of the program, exec = orc_executor_emulate (the real function, from the IR of orcexecutor.c)
        gname = [g_ for g_ in m.globals if g_.split('$')[0] == 'opcodes'][0]
        opbase = ex.gaddr[gname]
        ins = code['insns']
        C = ex.alloc('code', off['sizeof_code'], init='zero')
        I = ex.alloc('insns', off['sizeof_insn'] * len(ins), init='zero')
        V = ex.alloc('cvars', off['sizeof_cvar'] * off['NCV'], init='zero')
        ex.write(C, off['code_exec'], ex.function_address('orc_executor_emulate'), 8)
        ex.write(C, off['OrcCode.n_insns'], len(ins), 4); ex.write(C, off['OrcCode.insns'], I, 8); ex.write(C, off['OrcCode.vars'], V, 8)
        ex.write(C, off['OrcCode.is_2d'], 1 if code['is_2d'] else 0, 4)
        ex.write(C, off['OrcCode.constant_n'], code.get('constant_n') or 0, 4); ex.write(C, off['OrcCode.constant_m'], code.get('constant_m') or 0, 4)
        for j, insn in enumerate(ins):
            a = j * off['sizeof_insn']
            ex.write(I, a + off['OrcInstruction.opcode'], opbase + optable[insn['op']]['index'] * off['sizeof_opcode'], 8)
            for k in range(2):
                ex.write(I, a + off['OrcInstruction.dest_args'] + 4 * k, insn['d'][k] & 0xffffffff, 4)
            for k in range(4):
                ex.write(I, a + off['OrcInstruction.src_args'] + 4 * k, insn['s'][k] & 0xffffffff, 4)
            ex.write(I, a + off['OrcInstruction.flags'], insn['flags'], 4)
        for v in code['vars']:
            a = v['i'] * off['sizeof_cvar']
            ex.write(V, a + off['OrcCodeVariable.vartype'], v['vartype'], 4)
            ex.write(V, a + off['OrcCodeVariable.size'], v['size'], 4)
            ex.write(V, a + off['OrcCodeVariable.value'], int(v['value'], 16), 8)
        g = ex.gaddr
        if fname + '.once.0' in g:
            ex.write(g[fname + '.once.0'], 0, 1, 4); ex.write(g[fname + '.once.1'], 0, C, 8)
        elif fname + '.once' in g:
            ex.write(g[fname + '.once'], 0, 1, 4); ex.write(g[fname + '.once'], 8, C, 8)
        elif '_orc_code_' + fname in g:
            ex.write(g['_orc_code_' + fname], 0, C, 8)
        else:
            raise Unsupported('cannot find the once object / code pointer of %s among the globals' % fname)
    if mode in ('wrapper', 'probe'):
        # the state after a completed first call: flag set, code object published; its exec is the generated backup function
        C = ex.alloc('code', off['sizeof_code'], init='zero')
        bk = '_backup_' + fname if mode == 'wrapper' else 'c07_probe'
        if bk not in ex.gaddr:
            raise Unsupported('no backup function %s in the generated file' % bk)
        ex.write(C, off['code_exec'], ex.function_address(bk), 8)
        if mode == 'probe':
            acc_in = [z3.BitVec('acc_in%d' % k, 32) for k in range(4)]
            for k in range(4):
                ex.write(ex.gaddr['c07_acc_in'], 4 * k, acc_in[k], 4)
        g = ex.gaddr
        if fname + '.once.0' in g:
            ex.write(g[fname + '.once.0'], 0, 1, 4)
            ex.write(g[fname + '.once.1'], 0, C, 8)
        elif fname + '.once' in g:
            ex.write(g[fname + '.once'], 0, 1, 4)
            ex.write(g[fname + '.once'], 8, C, 8)
        elif '_orc_code_' + fname in g:
            ex.write(g['_orc_code_' + fname], 0, C, 8)
        else:
            raise Unsupported('cannot find the once object / code pointer of %s among the globals' % fname)
    paths = ex.call(fname, argv, on_fault='path')
    if len(paths) != 1 or paths[0].status != 'ok':
        return 'fault', '%s ended with %s %s' % (fname, [p.status for p in paths][:3], str(getattr(paths[0], 'error', ''))[:300])
    p = paths[0]
    if mode == 'probe':
        return probe_contract(rep, ex, p, off, C, arrays, params, accs, acc_in, code, n_eff, rows_eff)
    orc = O.Oracle(prog, optable, orcref.REF)
    out = orc.run(n_eff, rows_eff, lambda var, row, idx, size: arrays[var]['syms'][(row, idx)], lambda var: params[var][:2])
    s = z3.Solver()
    s.set('timeout', 30000 if tier() == 'quick' else 120000)
    for a_ in asm:
        s.add(a_)

    def q(w):
        s.push(); s.add(w); r = s.check(); md = s.model() if r == z3.sat else None; s.pop(); rep.queries += 1; return r, md
    bad, nobl = [], 0
    for i, a in arrays.items():
        for r_ in range(rows_eff):
            for e in range(n_eff + 2):
                got = p.read(a['addr'], r_ * a['rowbytes'] + e * a['size'], a['size'])
                want = a['syms'][(r_, e)]
                if a['writable'] and e < n_eff:
                    want = out['stores'].get((i, r_, e), want)
                got = got if z3.is_expr(got) else z3.BitVecVal(got, 8 * a['size'])
                nobl += 1
                pr = prove_equal(q, z3.simplify(got), z3.simplify(want))
                if pr != 'ok':
                    bad.append(('%s row %d element %d' % (a['name'], r_, e), pr))
    for i, (A, size, nm) in accs.items():
        got = p.read(A, 0, size)
        got = got if z3.is_expr(got) else z3.BitVecVal(got, 8 * size)
        want = out['acc'][i - 12]
        if size < 4:
            want = z3.Extract(8 * size - 1, 0, want)
        nobl += 1
        pr = prove_equal(q, z3.simplify(got), z3.simplify(want))
        if pr != 'ok':
            bad.append(('accumulator %s' % nm, pr))
    real = [x for x in bad if x[1] != 'unknown']
    if real:
        return 'differs', '%s: e.g. %s' % (real[0][0], str(real[0][1][1])[:300])
    if bad:
        return 'unknown', bad[0][0]
    return 'ok', nobl


def probe_contract(rep, ex, p, off, C, arrays, params, accs, acc_in, code, n_eff, rows_eff):
    """the executor the wrapper handed to the code, field by field, against the contract compiled code and the emulator read"""
    S = ex.gaddr['c07_seen']
    s = z3.Solver()
    bad, nobl = [], [0]

    def same(what, got, want, bits):
        nobl[0] += 1
        got = got if z3.is_expr(got) else z3.BitVecVal(got, bits)
        want = want if z3.is_expr(want) else z3.BitVecVal(want & ((1 << bits) - 1), bits)
        s.push(); s.add(got != want); r = s.check(); rep.queries += 1
        if r != z3.unsat:
            bad.append('%s: executor holds %s, contract says %s%s' % (what, z3.simplify(got), z3.simplify(want), (' e.g. ' + str(s.model())[:120]) if r == z3.sat else ' (unknown)'))
        s.pop()
    same('number of calls of the code', p.read(ex.gaddr['c07_calls'], 0, 4), 1, 32)
    same('ex->n', p.read(S, off['ex_n'], 4), n_eff, 32)
    same('ex->program', p.read(S, off['ex_program'], 8), 0, 64)
    same('ex->arrays[ORC_VAR_A2] (code object)', p.read(S, off['ex_arrays'] + 8 * off['A2'], 8), C, 64)
    if code.get('is_2d'):
        same('ORC_EXECUTOR_M(ex)', p.read(S, off['ex_params'] + 4 * off['A1'], 4), rows_eff, 32)
    for i, a in arrays.items():
        same('ex->arrays[%s]' % a['name'], p.read(S, off['ex_arrays'] + 8 * i, 8), a['addr'], 64)
        if code.get('is_2d'):
            same('ex->params[%s] (stride)' % a['name'], p.read(S, off['ex_params'] + 4 * i, 4), a['rowbytes'], 32)
    for i, (lo, hi, size) in params.items():
        same('ex->params[p%d] (low half)' % (i - off['P1'] + 1), p.read(S, off['ex_params'] + 4 * i, 4), lo, 32)
        if size == 8:
            same('ex->params[p%d + T1-P1] (high half)' % (i - off['P1'] + 1), p.read(S, off['ex_params'] + 4 * (i + off['T1'] - off['P1']), 4), hi, 32)
    for i, (A, size, nm) in accs.items():
        want = acc_in[i - off['A1']]
        same('*%s (accumulator result handed back)' % nm, p.read(A, 0, size), z3.Extract(8 * size - 1, 0, want), 8 * size)
    for i, a in arrays.items():           # the wrapper itself touches no array
        for (r_, e), t_ in a['syms'].items():
            got = p.read(a['addr'], r_ * a['rowbytes'] + e * a['size'], a['size'])
            if not (z3.is_expr(got) and z3.eq(z3.simplify(got), t_)):
                same('%s[%d][%d] untouched by the wrapper' % (a['name'], r_, e), got, t_, 8 * a['size'])
    if bad:
        return 'differs', bad[0]
    return 'ok', nobl[0]


def check_user_backup(rep, b, orcc, off):
    """functions with a user-supplied backup (.backup name): prototype -> executor -> the user's function, and the DISABLE_ORC
    direct call: the user's function receives exactly the caller's arguments (for all argument values)"""
    from engines.irsym import Module, Executor, MemFault, Unsupported
    src = os.path.join(VERIF, 'harness', 'c07', 'backup_ok.orc')
    c_out, h_out = os.path.join(b.dir, 'gen_bko.c'), os.path.join(b.dir, 'gen_bko.h')
    r1 = subprocess.run([orcc, '--implementation', '-o', c_out, src], capture_output=True, text=True, cwd=b.dir)
    r2 = subprocess.run([orcc, '--header', '-o', h_out, src], capture_output=True, text=True, cwd=b.dir)
    if r1.returncode or r2.returncode:
        rep.violated('c07.orcc|backup_ok corpus fails', 'orcc fails on harness/c07/backup_ok.orc: %s' % (r1.stderr + r2.stderr)[:300], name='c07.orcc.backup_ok')
        return
    fnames = re.findall(r'(?m)^\.function (\w+)', open(src).read())
    protos = {k: v for k, v in prototypes(open(h_out).read()).items() if k in fnames}
    helper = ['#include <orc/orc.h>', '#include "gen_bko.h"']
    for f, args in protos.items():
        helper.append('int calls_%s;' % f)
        for nm, ty in args:
            cty = 'const void *' if '*' in ty else ty
            helper.append('%s seen_%s_%s;' % (cty, f, nm))
        helper.append('void my_%s (%s) { calls_%s++; %s }' % (f, ', '.join('%s %s' % (ty, nm) for nm, ty in args), f, ' '.join('seen_%s_%s = %s;' % (f, nm, nm) for nm, ty in args)))
    hp = os.path.join(b.dir, 'bko_helper.c')
    open(hp, 'w').write('\n'.join(helper) + '\n')
    ll_exec = b.ir('c07_orcexecutor', os.path.join(REPO, 'orc', 'orcexecutor.c'), wrapv=True)
    for dn, defs in (('orc', []), ('noorc', ['DISABLE_ORC'])):
        try:
            ll = b.ir('c07_bko_' + dn, c_out, wrapv=True, defs=defs, extra=['-I' + b.dir])
            llh = b.ir('c07_bkoh_' + dn, hp, wrapv=True, defs=defs, extra=['-I' + b.dir])
            m = Module.load([ll, llh, ll_exec])
        except Exception as e:
            rep.violated('c07.backup_ok|does not compile %s' % dn, 'orcc output for harness/c07/backup_ok.orc does not compile (%s): %s' % (dn, str(e)[-400:]), name='c07.userbackup.' + dn)
            continue
        for f, args in sorted(protos.items()):
            job = 'c07.userbackup.%s.%s' % (dn, f)
            try:
                ex = Executor(m, max_steps=1000000)
                argv, want = [], {}
                for nm, ty in args:
                    if '*' in ty:
                        A = ex.alloc('arr_' + nm, 64, init='symbolic')
                        argv.append(A); want[nm] = (A, 64)
                    elif 'int64' in ty or 'double' in ty:
                        t_ = z3.BitVec('arg_' + nm, 64); argv.append(t_); want[nm] = (t_, 64)
                    elif nm == 'n':
                        argv.append(5); want[nm] = (5, 32)
                    elif nm == 'm':
                        argv.append(3); want[nm] = (3, 32)
                    else:
                        t_ = z3.BitVec('arg_' + nm, 32); argv.append(t_); want[nm] = (t_, 32)
                if not defs:
                    C = ex.alloc('code', off['sizeof_code'], init='zero')
                    ex.write(C, off['code_exec'], ex.function_address('_backup_' + f), 8)
                    g = ex.gaddr
                    if f + '.once.0' in g:
                        ex.write(g[f + '.once.0'], 0, 1, 4); ex.write(g[f + '.once.1'], 0, C, 8)
                    else:
                        ex.write(g[f + '.once'], 0, 1, 4); ex.write(g[f + '.once'], 8, C, 8)
                paths = ex.call(f, argv, on_fault='path')
                if len(paths) != 1 or paths[0].status != 'ok':
                    rep.violated('c07.userbackup|%s fault' % f, '%s: ended with %s' % (job, [p_.status for p_ in paths][:3]), name=job)
                    continue
                p_ = paths[0]
                s = z3.Solver()
                bad = None
                checks = [('number of calls of the user backup', p_.read(ex.gaddr['calls_' + f], 0, 4), 1, 32)]
                for nm, (w_, bits) in want.items():
                    checks.append(('argument %s' % nm, p_.read(ex.gaddr['seen_%s_%s' % (f, nm)], 0, bits // 8), w_, bits))
                for what, got, w_, bits in checks:
                    got = got if z3.is_expr(got) else z3.BitVecVal(got, bits)
                    w_ = w_ if z3.is_expr(w_) else z3.BitVecVal(w_, bits)
                    s.push(); s.add(got != w_); r_ = s.check(); rep.queries += 1
                    if r_ != z3.unsat:
                        bad = '%s: the user\'s backup function receives %s, the caller passed %s%s' % (what, z3.simplify(got), z3.simplify(w_), (' e.g. ' + str(s.model())[:150]) if r_ == z3.sat else '')
                    s.pop()
                if bad:
                    rep.violated('c07.userbackup|%s %s' % (f, bad.split(':')[0]), '%s: %s' % (job, bad[:400]), name=job)
                else:
                    rep.held(job, n_props=len(checks), engine='irsym')
            except (MemFault, Unsupported, Exception) as e:
                import traceback
                rep.inconc(job, 'engine: %s' % traceback.format_exc()[-300:])


def check_memfuncs(rep, b, off):
    """orc_memcpy / orc_memset (checked-in generated wrappers + backup) == memcpy / memset"""
    from engines.irsym import Module, Executor, MemFault, Unsupported
    ll = b.ir('c07_orcfunctions', os.path.join(REPO, 'orc', 'orcfunctions.c'), wrapv=True)
    m = Module.load([ll])
    ns = (0, 1, 7) if tier() == 'quick' else (0, 1, 2, 3, 7, 16, 33)
    for fn in ('orc_memcpy', 'orc_memset'):
        for n in ns:
            job = 'c07.%s.n%d' % (fn, n)
            try:
                ex = Executor(m, max_steps=2000000)
                C = ex.alloc('code', off['sizeof_code'], init='zero')
                ex.write(C, off['code_exec'], ex.function_address('_backup_' + fn), 8)
                g = ex.gaddr
                if fn + '.once.0' in g:
                    ex.write(g[fn + '.once.0'], 0, 1, 4); ex.write(g[fn + '.once.1'], 0, C, 8)
                else:
                    ex.write(g[fn + '.once'], 0, 1, 4); ex.write(g[fn + '.once'], 8, C, 8)
                D = ex.alloc('dst', n + 4, init='zero')
                dsym = [z3.BitVec('d%d' % i, 8) for i in range(n + 4)]
                for i, t_ in enumerate(dsym):
                    ex.write(D, i, t_, 1)
                if fn == 'orc_memcpy':
                    S_ = ex.alloc('src', n + 4, init='zero')
                    ssym = [z3.BitVec('s%d' % i, 8) for i in range(n + 4)]
                    for i, t_ in enumerate(ssym):
                        ex.write(S_, i, t_, 1)
                    paths = ex.call(fn, [D + 2, S_ + 1, n], on_fault='path')
                    want = lambda i: ssym[i - 2 + 1] if 2 <= i < 2 + n else dsym[i]
                else:
                    val = z3.BitVec('val', 32)
                    paths = ex.call(fn, [D + 2, val, n], on_fault='path')
                    want = lambda i: z3.Extract(7, 0, val) if 2 <= i < 2 + n else dsym[i]
                if len(paths) != 1 or paths[0].status != 'ok':
                    rep.violated('c07.%s|fault' % fn, '%s: %s(n=%d) ended with %s' % (job, fn, n, [p.status for p in paths][:3]), name=job)
                    continue
                bad = None
                s = z3.Solver()
                for i in range(n + 4):
                    got = paths[0].read(D, i, 1)
                    got = got if z3.is_expr(got) else z3.BitVecVal(got, 8)
                    s.push(); s.add(got != want(i)); r = s.check(); rep.queries += 1
                    if r != z3.unsat:
                        bad = 'byte %d of the destination buffer (call starts at byte 2, n=%d): %s' % (i, n, s.model() if r == z3.sat else 'unknown')
                    s.pop()
                if bad:
                    rep.violated('c07.%s|differs from libc semantics' % fn, '%s: %s' % (job, bad[:300]), name=job)
                else:
                    rep.held(job, n_props=n + 4, engine='irsym')
            except (MemFault, Unsupported, Exception) as e:
                import traceback
                rep.inconc(job, 'engine: %s' % traceback.format_exc()[-300:])


def main():
    from engines.irsym import Module, MemFault, Unsupported
    from engines.x86sym import family
    rep = Report('C07', 'translation_validation')
    t = tier()
    rep.bounds = dict(corpus='%d functions of harness/c07/corpus.orc' % len(re.findall(r'^\.function', open(CORPUS).read(), re.M)),
                      inputs='array contents and every parameter value fully symbolic; n=3 (constant n as declared), m=2, strides = row bytes + 6',
                      modes='marshalling contract (probe), wrapper+backup, wrapper+orc_executor_emulate, DISABLE_ORC', option_sets='compile gate: default(lazy), --inline, --lazy-init, --compat 0.4.5, --no-backup, .init (eager) x {normal, DISABLE_ORC}; symbolic: default/.init wrappers + backup, DISABLE_ORC bodies',
                      memfuncs='orc_memcpy/orc_memset n in {0,1,7} (thorough up to 33), misaligned pointers, symbolic bytes')
    rep.assume('the wrapper is executed in the state after a completed first call (once flag set, code published); the first call itself is C08',
               'the code pointer the wrapper jumps to is the generated backup function (ORC_CODE=backup); JIT code and orc_executor_emulate are tied to the same oracle by C01 and C02',
               'shift amounts given as parameters are assumed < element width (C-level undefined otherwise)',
               'gcc is the C compiler for the compile gate; clang -O1 IR for the symbolic runs (irsym validated natively in C02)',
               'functions whose instructions do floating-point arithmetic take part in the compile gate only (their generated bodies are compared with the emulator in C04)', '--test output and non-x86 --target assembly output are outside')
    b = build.Build('c07')
    orcc = b.native_prog('orcc', [os.path.join(REPO, 'tools', 'orcc.c')])
    exe = b.native_prog('orcdump', [os.path.join(VERIF, 'native', 'orcdump.c')])
    ops = family.load_opcodes(exe)
    optable = {o['name']: o for o in ops}
    src = os.path.join(b.dir, 'offs.c')
    open(src, 'w').write(OFFSETS_C)
    oe = os.path.join(b.dir, 'offs')
    subprocess.check_call(['gcc'] + b.cflags + [src, '-o', oe])
    off = json.loads(subprocess.check_output([oe]))
    open(src, 'w').write(OFFSETS2_C)
    subprocess.check_call(['gcc'] + b.cflags + [src, '-o', oe])
    off.update(json.loads(subprocess.check_output([oe])))
    corpus = open(CORPUS).read()
    # --compat 0.4.5 refuses float/64-bit parameters x2/x4 instructions, .n bounds and 64-bit constants by design (REQUIRE in orcc): those functions are left out of that corpus
    blocks = re.split(r'(?m)^(?=\.function)', corpus)
    old_ok = ''.join(bk for bk in blocks if not re.search(r'\.(floatparam|longparam|doubleparam)|^x[24] |\.n (mult|min|max)|\.const 8', bk, re.M))
    variants = {'lazy': corpus, 'eager': '.init c07_init\n' + corpus, 'compat': old_ok}
    # reference programs (parsed by the real parser, compiled once to get the code-object view the oracle uses)
    r = subprocess.run([exe, 'parse', CORPUS], capture_output=True, text=True)
    recipes = [('x', 'program ' + blk) for blk in r.stdout.split('program ')[1:]]
    recipes = [(re.match(r'program (\S+)', x[1]).group(1), x[1]) for x in recipes]
    compiled = {p['name']: p for p in family.compile_family(exe, 'sse', 'default', recipes=recipes, cwd=b.dir) if p.get('orccode')}
    # ---- (1) compile gate ---------------------------------------------------------------------------------------------
    optsets = [('default', 'lazy', []), ('inline', 'lazy', ['--inline']), ('lazyinit', 'lazy', ['--lazy-init']), ('compat045', 'compat', ['--compat', '0.4.5']),
               ('nobackup', 'lazy', ['--no-backup']), ('eager', 'eager', []), ('eager_inline', 'eager', ['--inline'])]
    outs = {}
    for tag, var, args in optsets:
        orc_in = os.path.join(b.dir, 'in_%s.orc' % var)
        open(orc_in, 'w').write(variants[var])
        c_out, h_out = os.path.join(b.dir, 'gen_%s.c' % tag), os.path.join(b.dir, 'gen_%s.h' % tag)
        r1 = subprocess.run([orcc, '--implementation'] + args + ['-o', c_out, orc_in], capture_output=True, text=True, cwd=b.dir)
        r2 = subprocess.run([orcc, '--header'] + args + ['-o', h_out, orc_in], capture_output=True, text=True, cwd=b.dir)
        if r1.returncode or r2.returncode:
            rep.violated('c07.orcc|%s fails' % tag, 'orcc %s fails on the corpus: %s' % (' '.join(args), (r1.stderr + r2.stderr + r1.stdout)[:300]), name='c07.orcc.' + tag)
            continue
        outs[tag] = (c_out, h_out)
        for dn, defs in (('orc', []), ('noorc', ['DISABLE_ORC'])):
            if '--inline' in args:
                # inline mode: the header carries the definitions; header and implementation are separate translation units
                ok, err = gcc_compiles(b, 'tu_%s_%s_h' % (tag, dn), '#include "%s"\n' % os.path.basename(h_out) + ''.join('void *c07_use_%s = (void *) %s;\n' % (f, f) for f in prototypes(open(h_out).read())), defs)
                if ok:
                    ok, err = gcc_compiles(b, 'tu_%s_%s' % (tag, dn), '#include "%s"\n' % os.path.basename(c_out), defs)
            else:
                ok, err = gcc_compiles(b, 'tu_%s_%s' % (tag, dn), '#include "%s"\n#include "%s"\n' % (os.path.basename(h_out), os.path.basename(c_out)), defs)
            job = 'c07.compiles.%s.%s' % (tag, dn)
            if ok:
                rep.held(job, n_props=1, engine='gcc')
            else:
                first = [l for l in err.splitlines() if 'error' in l][:2]
                rep.violated('c07.compiles|%s %s' % (tag, dn), '%s: orcc %s output does not compile%s: %s' % (job, ' '.join(args) or '(default)', ' with -DDISABLE_ORC' if defs else '', ' / '.join(first)[:400]), name=job)
    # ---- (1c) functions with a user-supplied backup (.backup): the call of the user's function orcc emits must compile ----------
    bk_in = os.path.join(VERIF, 'harness', 'c07', 'backup.orc')
    bk_c, bk_h = os.path.join(b.dir, 'gen_backup.c'), os.path.join(b.dir, 'gen_backup.h')
    r1 = subprocess.run([orcc, '--implementation', '-o', bk_c, bk_in], capture_output=True, text=True, cwd=b.dir)
    r2 = subprocess.run([orcc, '--header', '-o', bk_h, bk_in], capture_output=True, text=True, cwd=b.dir)
    if r1.returncode or r2.returncode:
        rep.violated('c07.orcc|backup corpus fails', 'orcc fails on harness/c07/backup.orc: %s' % (r1.stderr + r2.stderr)[:300], name='c07.orcc.backup')
    else:
        gen = open(bk_c).read()
        fnames = re.findall(r'(?m)^\.function (\w+)', open(bk_in).read())
        for dn, defs in (('orc', []), ('noorc', ['DISABLE_ORC'])):
            ok, err = gcc_compiles(b, 'tu_backup_' + dn, '#include "gen_backup.h"\n#include "gen_backup.c"\n', defs)
            # attribute each diagnostic to the generated function it lies in
            lines = gen.split('\n')
            starts = [(i + 1, mm_.group(1)) for i, l in enumerate(lines) for mm_ in [re.match(r'^/\* (\w+) \*/$', l)] if mm_]
            bad = {}
            for l in err.splitlines():
                mm_ = re.match(r'.*gen_backup\.c:(\d+):\d+: error: (.*)$', l)
                if mm_:
                    ln = int(mm_.group(1))
                    owner = [f for st, f in starts if st <= ln]
                    bad.setdefault(owner[-1] if owner else '?', []).append(mm_.group(2))
            for f in fnames:
                job = 'c07.compiles.backup.%s.%s' % (f, dn)
                if f in bad:
                    msg = re.sub(r'[‘’`\']', "'", bad[f][0])
                    rep.violated('c07.backup|%s: %s' % (f, msg), '%s: orcc output for a function with a user-supplied backup (.backup) does not compile%s: %s' % (job, ' with -DDISABLE_ORC' if defs else '', msg), name=job)
                elif not ok and not bad:
                    rep.violated('c07.backup|%s: does not compile' % f, '%s: %s' % (job, err[:300]), name=job)
                else:
                    rep.held(job, n_props=1, engine='gcc')
    # ---- (1b) the bytecode embedded in the generated wrapper rebuilds the program that was parsed -----------------------------
    if 'default' in outs:
        gen = open(outs['default'][0]).read()
        chunks = re.split(r'(?m)^/\* (\w+) \*/$', gen)
        bodies = dict(zip(chunks[1::2], chunks[2::2]))
        for fname, recipe in recipes:
            job = 'c07.bytecode.' + fname
            mm = re.search(r'static const orc_uint8 bc\[\] = \{([^}]*)\}', bodies.get(fname, ''))
            if not mm:
                rep.inconc(job, 'no embedded bytecode found in the generated wrapper')
                continue
            hexs = ''.join('%02x' % int(x) for x in re.findall(r'\d+', mm.group(1)))
            r3 = subprocess.run([exe, 'frombc', hexs], capture_output=True, text=True, timeout=60)
            def canon(txt):   # constant values are compared modulo the variable size (bits above it are never read)
                return re.sub(r'(?m)^var const (\d) (\S+) ([0-9a-f]+)$', lambda m_: 'var const %s %s %x' % (m_.group(1), m_.group(2), int(m_.group(3), 16) & ((1 << (8 * int(m_.group(1)))) - 1)), txt.strip())
            got, recipe = canon(r3.stdout), canon(recipe)
            if r3.returncode == 0 and got == recipe:
                rep.held(job, n_props=1, engine='native')
            else:
                diff = [(a, b_) for a, b_ in zip(got.splitlines() + ['<missing>'] * 50, recipe.strip().splitlines()) if a != b_][:2]
                rep.violated('c07.bytecode|%s' % fname, '%s: the program rebuilt from the bytecode embedded in the wrapper differs from the parsed program (rc=%d): %s' % (job, r3.returncode, diff or got[:200]), name=job)
    # ---- (2)(3) symbolic runs ---------------------------------------------------------------------------------------------
    runs = [('default', 'probe', []), ('default', 'wrapper', []), ('default', 'emulate', []), ('default', 'noorc', ['DISABLE_ORC']), ('eager', 'probe', []), ('inline', 'probe', [])]
    if t != 'quick':
        runs += [('eager', 'wrapper', []), ('lazyinit', 'probe', []), ('nobackup', 'probe', []), ('eager_inline', 'probe', [])]
    ll_probe = b.ir('c07_probe', os.path.join(VERIF, 'harness', 'c07', 'probe.c'), wrapv=True)
    ll_emu = [b.ir('c07_' + t_[:-2].replace('-', '_'), os.path.join(REPO, 'orc', t_), wrapv=True) for t_ in ('orcemulateopcodes.c', 'orcopcodes-sys.c', 'orcopcode.c', 'orcutils.c')]
    ll_exec = b.ir('c07_orcexecutor', os.path.join(REPO, 'orc', 'orcexecutor.c'), wrapv=True)
    FLOAT = 2 | 4           # ORC_STATIC_OPCODE_FLOAT_SRC | FLOAT_DEST
    for tag, mode, defs in runs:
        if tag not in outs:
            continue
        c_out, h_out = outs[tag]
        protos = prototypes(open(h_out).read())
        try:
            src_c = c_out
            if 'inline' in tag:
                src_c = os.path.join(b.dir, 'inl_%s_%s.c' % (tag, mode))
                open(src_c, 'w').write('#include "%s"\n' % os.path.basename(h_out) + ''.join('void *use_%s = (void *) %s;\n' % (f, f) for f in protos))
            ll = b.ir('c07_%s_%s' % (tag, mode), src_c, wrapv=True, defs=defs, extra=['-I' + b.dir])
            m = Module.load([ll, ll_exec] + ([ll_probe] if mode == 'probe' else []) + (ll_emu if mode == 'emulate' else []) if mode != 'noorc' else [ll])
        except Exception as e:
            rep.inconc('c07.sym.%s.%s' % (tag, mode), 'IR: %s' % str(e)[:300])
            continue
        for fname, prog in sorted(compiled.items()):
            job = 'c07.sym.%s.%s.%s' % (tag, mode, fname)
            big = (prog['orccode'].get('constant_n') or 0) > 16 or (prog['orccode'].get('constant_m') or 0) > 16
            if mode != 'probe' and (big or any(optable[i['op']]['flags'] & FLOAT for i in prog['orccode']['insns'])):
                continue      # float arithmetic: the bodies are C04's subject (NaN payloads, denormals); here only the compile gate
            if fname not in protos:
                rep.violated('c07.header|%s missing' % fname, '%s: the header of option set %s declares no prototype for %s' % (job, tag, fname), name=job)
                continue
            try:
                verdict, detail = run_function(rep, b, m, off, job, fname, protos[fname], prog, optable, 3, 2, mode)
            except (MemFault, Unsupported) as e:
                rep.inconc(job, 'engine: %s' % str(e)[:300])
                continue
            except Exception as e:
                import traceback
                rep.inconc(job, 'engine: %s' % traceback.format_exc()[-400:])
                continue
            if verdict == 'ok':
                rep.held(job, n_props=detail, engine='irsym')
                if len(rep.samples) < 8:
                    rep.samples.append(dict(function=fname, option_set=tag, mode=mode, prototype=', '.join('%s %s' % (ty, nm) for nm, ty in protos[fname]), obligations=detail))
            elif verdict == 'unknown':
                rep.inconc(job, 'equivalence with the reference not decided for %s' % detail)
            else:
                key = 'c07.%s.%s|%s' % (mode, fname, verdict)
                replay = rep.write_replay(job, dict(key=key, what=detail, function=fname, option_set=tag, mode=mode, prototype=protos[fname], kind='irsym'))
                rep.violated(key, '%s: calling %s through its prototype (%s, %s) does not compute the emulation semantics: %s' % (job, fname, tag, mode, detail), replay=replay, name=job)
    check_user_backup(rep, b, orcc, off)
    check_memfuncs(rep, b, off)
    rep.extra['programs'] = len(compiled)
    rep.functions.update(['orcc: output_code_header/output_prototype', 'orcc: output_code_execute (wrapper marshalling)', 'orcc: output_code_backup', 'orcc: output_code_no_orc',
                          'orc_memcpy', 'orc_memset', '_backup_orc_memcpy', '_backup_orc_memset'])
    return rep.finish()


def replay(path):
    print(json.dumps(json.load(open(path)), indent=1)[:6000])
    return 0
