"""C19 - the default target is the best backend the CPU really supports; override handling."""
import os, re
from lib import build, cbmc
from lib.common import VERIF, REPO, Report, tier

H = os.path.join(VERIF, 'harness', 'c19', 'h_cpu.c')
TUS = [os.path.join(REPO, 'orc', x) for x in 'orccpu-x86.c orctarget.c orcprogram-sse.c orcprogram-avx.c orcprogram-mmx.c orcprogram-x86.c'.split()]
FUNCS = ['orc_x86_detect_cpuid', 'orc_x86_cpuid_handle_standard_flags', 'orc_sse_detect_cpuid_intel', 'orc_sse_detect_cpuid_amd',
         'orc_sse_detect_cpuid_generic', 'check_xcr0_ymm', 'orc_sse_get_cpu_flags', 'orc_mmx_get_cpu_flags', 'sse_is_executable', 'avx_is_executable',
         'mmx_is_executable', 'sse_get_default_flags', 'avx_get_default_flags', 'mmx_get_default_flags', 'orc_x86_register_extension',
         'orc_target_register', 'orc_target_get_default', 'orc_target_get_by_name', 'orc_target_get_default_flags']


def documented_envvar():
    """The override variable as documented (doc/running.xml), scraped at check time."""
    txt = open(os.path.join(REPO, 'doc', 'running.xml')).read()
    names = re.findall(r'<envar>(ORC_[A-Z_]+)</envar>', txt)
    for n in names:
        # the paragraph that talks about target selection
        m = re.search(r'<envar>%s</envar>.*?</formalpara>' % n, txt, re.S)
        if m and re.search(r'target', m.group(0), re.I) and n not in ('ORC_DEBUG', 'ORC_CODE'):
            return n
    return 'ORC_TARGET'


def main():
    rep = Report('C19', 'model_checking')
    var = documented_envvar()
    rep.bounds = dict(cpuid='leaves 0,1,7,0x80000000,0x80000001 fully symbolic 32-bit registers; XCR0 symbolic; max basic leaf <= 1 and extended leaf < 4 (cache/branding walks excluded)',
                      vendors='Intel / AMD / other enumerated', override='unset, or any string of <= 7 arbitrary bytes', registration_order='c, mmx, sse, avx, neon (orc_init order)',
                      documented_variable=var)
    rep.assume('cpuid/xgetbv replaced through the ORC_VERIF hook by per-leaf-stable arbitrary values',
               'orc_compiler_flag_check returns 0 (no -sse2 style switches in ORC_CODE)', 'rule registration of the back ends stubbed out (not the subject)',
               'non-x86 targets represented by two non-executable dummies ("c", "neon")')
    b = build.Build('c19')
    js = []
    for v in (0, 1, 2):
        for o in (0, 1):
            js.append(cbmc.Job('c19.vendor%d.override%d' % (v, o), [H] + TUS, 'h_cpu', defs=['VENDOR=%d' % v, 'OVERRIDE=%d' % o, 'DOC_ENVVAR="%s"' % var],
                               unwind=12, timeout=600 if tier() == 'quick' else 1800, funcs=FUNCS))

    def keyfix(job, r, p):
        return None, None, ''
    # known-finding keys are vendor independent
    res = cbmc.run_jobs(b, js, rep)
    return rep.finish()


def replay(path):
    import json
    print(json.dumps(json.load(open(path)), indent=1)[:6000])
    return 0
