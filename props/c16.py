"""C16 - object lifecycle: every resource is released exactly once.
Enumerated operation scripts (control concrete) run through the real orcprogram.c / orccompiler.c / orccode.c /
orcexecutor.c with a stub back end; what each operation does to memory is decided symbolically by CBMC
(pointer checks = no use-after-free / double free, --memory-leak-check = nothing left allocated)."""
import itertools, os
from lib import build, cbmc
from lib.common import VERIF, REPO, Report, tier, seed

HC = os.path.join(VERIF, 'harness', 'common', 'h_compile.c')
HCPU = os.path.join(VERIF, 'harness', 'c19', 'h_cpu.c')
TUS = [os.path.join(REPO, 'orc', x) for x in 'orccompiler.c orcprogram.c orcrule.c orctarget.c orccode.c orcexecutor.c orcutils.c'.split()]
TUS19 = [os.path.join(REPO, 'orc', x) for x in 'orccpu-x86.c orctarget.c orcprogram-sse.c orcprogram-avx.c orcprogram-mmx.c orcprogram-x86.c'.split()]
FUNCS = ['orc_program_new', 'orc_program_compile_full', 'orc_compiler_compile_program', 'orc_program_take_code', 'orc_program_reset', 'orc_program_free',
         'orc_code_new', 'orc_code_free', 'orc_executor_set_program', 'orc_executor_run', 'orc_executor_emulate', 'orc_program_set_error']


def scripts(t):
    quick = ['1,10,4', '1,10,4,4', '1,2,8', '9,1', '1,3,4', '1,2,4,2,8', '1,2,3,4,5', '1,2,6,8', '1,5,7', '9,1,3,1', '1,9,4,2', '4,4,2,6']
    if t == 'quick':
        return quick
    out = list(quick)
    for k in (2, 3):
        for tup in itertools.product('123456789', repeat=k):
            s = ','.join(tup)
            if s not in out and ('1' in tup or '4' in tup):
                out.append(s)
    # budget: one script x configuration costs 2-5 min of CBMC; the thorough tier takes every 6th of the enumerated scripts
    # (rotating with the seed) on top of the quick ones
    extra = out[len(quick):]
    return quick + extra[seed() % 6::6][:60]


def main():
    rep = Report('C16', 'model_checking')
    t = tier()
    only = os.environ.get('C16_ONLY')
    rep.bounds = dict(scripts='operation sequences over {compile, take_code, reset, recompile, run (program), run (code-only), emulate, free code, enter parse-error state}: quick 18 scripts x configurations, thorough: the quick scripts plus a seed-rotated sixth (<= 60) of all sequences of length <= 3 containing a compile, two configurations each',
                      configurations='back end succeeds / fails while emitting / signals register overflow / refuses (no rule) / executable memory unavailable / ORC_CODE=emulate / backup function', data='emitted size and bytes symbolic')
    rep.assume('code memory is a ghost allocator that frees its chunk objects (a second free is a pointer-check failure); the real allocator is C09',
               'registry objects (opcode sets, rule arrays) are torn down by the harness before the leak check', 'malloc never fails', 'leaks inside the real x86 back ends are outside (stub back end)')
    b = build.Build('c16')
    js = []
    confs = [[], ['CFG_RULE=0'], ['CFG_CHUNK=0'], ['CFG_E=1'], ['CFG_BK=1', 'CFG_B=1']]
    # a back end that fails while emitting (after the scratch buffer exists) / signals register overflow
    for s, c in (('1', ['CFG_FAIL=1']), ('1,3,4', ['CFG_FAIL=1']), ('1,4,2,8', ['CFG_FAIL=2']), ('1,5', ['CFG_FAIL=1', 'CFG_CHUNK=2'])) if t == 'quick' else \
            [(s_, c_) for s_ in ('1', '1,3,4', '1,4,2,8', '1,5', '1,2,4', '9,1,3,1', '1,7') for c_ in (['CFG_FAIL=1'], ['CFG_FAIL=2'], ['CFG_FAIL=1', 'CFG_CHUNK=2'], ['CFG_FAIL=1', 'CFG_BK=1'])]:
        js.append(cbmc.Job('c16.ops%s.%s' % (s.replace(',', ''), '_'.join(x.replace('CFG_', '').replace('=', '') for x in c)), [HC] + TUS, 'h_lifecycle',
                           defs=['INCLUDE_OPCODE_C', 'OPS=' + s] + c, unwind=130, timeout=1500 if t == 'quick' else 3000, mem_gb=12, flags=['--memory-leak-check'], funcs=FUNCS))
    for i, s in enumerate(scripts(t)):
        cs = ([confs[0]] + ([confs[1 + (i + seed()) % 4]] if i % 2 == 0 else [])) if t == 'quick' else [confs[0], confs[1 + (i + seed()) % 4]]
        for c in cs:
            js.append(cbmc.Job('c16.ops%s.%s' % (s.replace(',', ''), '_'.join(x.replace('CFG_', '').replace('=', '') for x in c) or 'default'), [HC] + TUS, 'h_lifecycle',
                               defs=['INCLUDE_OPCODE_C', 'OPS=' + s] + c, unwind=130, timeout=1500 if t == 'quick' else 3000, mem_gb=12, flags=['--memory-leak-check'], funcs=FUNCS))
    # the override string of orc_target_get_default is allocated per call (once per orc_program_compile)
    js.append(cbmc.Job('c16.envleak', [HCPU] + TUS19, 'h_cpu', defs=['VENDOR=0', 'OVERRIDE=1', 'DOC_ENVVAR="ORC_TARGET"'], unwind=12, timeout=900,
                       flags=['--memory-leak-check'], funcs=['orc_target_get_default']))
    if only:
        js = [j for j in js if only in j.name]
    cbmc.run_jobs(b, js, rep)
    return rep.finish()


def replay(path):
    import json
    print(json.dumps(json.load(open(path)), indent=1)[:6000])
    return 0
