"""C06 - every fallback path still gives the emulation result / OS failures never crash or leak."""
import itertools, os
from lib import build, cbmc
from lib.common import VERIF, REPO, Report, tier

HR = os.path.join(VERIF, 'harness', 'c06', 'h_region.c')
HI = os.path.join(VERIF, 'harness', 'c06', 'h_init.c')
HC = os.path.join(VERIF, 'harness', 'common', 'h_compile.c')
TUS = [os.path.join(REPO, 'orc', x) for x in 'orccompiler.c orcprogram.c orcopcode.c orcrule.c orctarget.c orccode.c orcexecutor.c orcutils.c'.split()]
F_REGION = ['orc_code_region_alloc', 'orc_code_region_allocate_codemem', 'orc_code_region_allocate_codemem_dual_map',
            'orc_code_region_allocate_codemem_anon_map', 'orc_code_region_get_free_chunk', 'orc_code_allocate_codemem']
F_COMPILE = ['orc_program_compile_full', 'orc_compiler_compile_program', 'orc_compiler_check_sizes', 'orc_compiler_rewrite_insns',
             'orc_compiler_rewrite_vars', 'orc_compiler_global_reg_alloc', 'orc_compiler_rewrite_vars2', 'orc_compiler_assign_rules',
             'orc_executor_set_program', 'orc_executor_run', 'orc_executor_run_backup', 'orc_executor_emulate', 'orc_program_free', 'orc_code_free']


def compile_configs(t):
    if t == 'quick':
        return [[], ['CFG_RULE=0'], ['CFG_CHUNK=0'], ['CFG_FAIL=1'], ['CFG_FAIL=2'], ['CFG_E=1'], ['CFG_B=1', 'CFG_BK=1'], ['CFG_B=1'],
                ['CFG_T=0'], ['CFG_T=0', 'CFG_BK=1'], ['CFG_CHUNK=0', 'CFG_BK=1'], ['CFG_E=1', 'CFG_BK=1', 'CFG_PROG=2'],
                ['CFG_RULE=0', 'CFG_BK=1', 'CFG_PROG=1'], ['CFG_CHUNK=2', 'CFG_PROG=1'], ['CFG_PROG=3']]
    out = []
    for b, e, bk, tt, rule, fail, chunk in itertools.product((0, 1), (0, 1), (0, 1), (0, 1), (0, 1), (0, 1, 2), (0, 1)):
        out.append(['CFG_B=%d' % b, 'CFG_E=%d' % e, 'CFG_BK=%d' % bk, 'CFG_T=%d' % tt, 'CFG_RULE=%d' % rule, 'CFG_FAIL=%d' % fail, 'CFG_CHUNK=%d' % chunk])
    for prog in (1, 2, 3):
        for extra in ([], ['CFG_RULE=0'], ['CFG_CHUNK=2'], ['CFG_E=1'], ['CFG_BK=1', 'CFG_B=1'], ['CFG_FAIL=1']):
            out.append(['CFG_PROG=%d' % prog] + extra)
    return out


def jobs():
    t = tier()
    to = 400 if t == 'quick' else 1500
    js = [cbmc.Job('c06.region_alloc', [HR], 'h_region_alloc', unwind=12, timeout=to, funcs=F_REGION),
          cbmc.Job('c06.region_alloc.debug', [HR], 'h_region_alloc', defs=['DEBUGFLAG'], unwind=12, timeout=to, funcs=F_REGION),
          cbmc.Job('c06.codemem_faults', [HR], 'h_codemem_faults', defs=['KALLOC=1'], unwind=12, timeout=to, mem_gb=16, funcs=F_REGION)]
    for e in range(10):
        js.append(cbmc.Job('c06.compiler_init.env%d' % e, [HI], 'h_compiler_init', defs=['ENVVAL=%d' % e], unwind=20, timeout=to,
                           funcs=['_orc_compiler_init', 'orc_compiler_flag_check', 'strsplit', '_strndup']))
    for c in compile_configs(t):
        js.append(cbmc.Job('c06.compile.' + ('_'.join(x.replace('CFG_', '').replace('=', '') for x in c) or 'default'), [HC] + TUS,
                           'h_compile_classify', defs=c, unwind=130, timeout=900 if t == 'quick' else 2400, mem_gb=12, funcs=F_COMPILE))
    # fallback after a *re*compile: the first compile may succeed natively, a later one fail (back end error, no executable
    # memory): the entry point must fall back as well and nothing may still point into the released code
    for ops, c in ((('1,4,5', ['CFG_FAIL=1']), ('1,4,5', ['CFG_FAIL=1', 'CFG_BK=1'])) if t == 'quick' else
                   (('1,4,5', ['CFG_FAIL=1']), ('1,4,5', ['CFG_FAIL=1', 'CFG_BK=1']), ('1,4,5', ['CFG_CHUNK=2']), ('1,4,4,5', ['CFG_FAIL=1']), ('1,2,4,6', ['CFG_FAIL=1']))):
        js.append(cbmc.Job('c06.recompile.ops%s.%s' % (ops.replace(',', ''), '_'.join(x.replace('CFG_', '').replace('=', '') for x in c)), [HC] + TUS, 'h_lifecycle',
                           defs=['OPS=' + ops] + c, unwind=130, timeout=900 if t == 'quick' else 2400, mem_gb=12, funcs=F_COMPILE))
    return js


def main():
    rep = Report('C06', 'model_checking')
    rep.bounds = dict(os_failures='getenv x3, mkstemp, ftruncate, mmap x2 per directory, anonymous mmap: each call fails or succeeds independently (all combinations in one query)',
                      allocation_attempts='one attempt from the empty allocator (descriptor balance is per attempt => inductive over attempts); arbitrary pre-state step in C09',
                      compile='1-2 instruction programs through a stub back end emitting 0..64 symbolic bytes; configuration space enumerated as jobs',
                      unwind=130, unwinding_assertions=True)
    rep.assume('OS calls are stubs constrained only by "may fail"; real kernel behaviour (SELinux, noexec) is modelled as failure of the call',
               'malloc does not fail (allocation failure of the file-name buffer is outside the claim)',
               'code memory in the compile harness is a ghost allocator handing out a distinguishable native entry stub (the real allocator is C09)',
               'orc_debug_print / sprintf / vasprintf are empty stubs',
               'that the emulator computes the reference result is C02; that native code equals emulation is C01')
    b = build.Build('c06')
    cbmc.run_jobs(b, jobs(), rep)
    return rep.finish()


def replay(path):
    import json
    print(json.dumps(json.load(open(path)), indent=1)[:6000])
    return 0
