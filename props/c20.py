"""C20 - application-registered opcodes and rules behave like built-in ones."""
import os
from lib import build, cbmc
from lib.common import VERIF, REPO, Report, tier

H = os.path.join(VERIF, 'harness', 'c20', 'h_ext.c')
TUS = [os.path.join(REPO, 'orc', x) for x in 'orcopcode.c orcrule.c orctarget.c orcexecutor.c orcutils.c'.split()]
UB = [r'orc_opcode_set_find_by_opcode\|(same object violation|arithmetic overflow on signed -) in opcode - ']
F1 = ['orc_opcode_register_static', 'orc_opcode_set_get', 'orc_opcode_set_get_nth', 'orc_opcode_set_find_by_opcode', 'orc_opcode_set_find_by_name', 'orc_opcode_find_by_name']
F2 = F1 + ['orc_rule_set_new', 'orc_rule_register', 'orc_target_get_rule']


def jobs():
    t = tier()
    to = 600 if t == 'quick' else 2400
    js = []
    look = [('NEXT=1', 'NOPS=2'), ('NEXT=2', 'NOPS=2')] if t == 'quick' else [('NEXT=1', 'NOPS=2'), ('NEXT=2', 'NOPS=2'), ('NEXT=3', 'NOPS=2'), ('NEXT=2', 'NOPS=2', "FIRSTCH='x'")]    # ('NEXT=2','NOPS=3') gives no verdict in 2400 s: outside the bound
    for d in look:
        js.append(cbmc.Job('c20.lookup.' + '_'.join(d).replace('=', '').replace("'", ''), [H] + TUS, 'h_lookup', defs=list(d), unwind=8, timeout=to, ub_notes=UB, funcs=F1))
    rules = [(0, '0,1,1', 1), (0, '0,1,0', 0), (7, '0,0,2', 0), (0, '1,1,1', 1), (0, '2,1,2', 1)]
    if t != 'quick':
        rules += [(pre, m, q) for pre in (0, 3, 7) for m in ('0,0,0', '1,0,1', '2,2,1', '0,2,0') for q in (0, 1)]
    seen = set()
    for pre, m, q in rules:
        if (pre, m, q) in seen:
            continue
        seen.add((pre, m, q))
        js.append(cbmc.Job('c20.rules.pre%d.maj%s.q%d' % (pre, m.replace(',', ''), q), [H] + TUS, 'h_rules',
                           defs=['PRE_RS=%d' % pre, 'MAJORS=%s' % m, 'QSET=%d' % q], unwind=12, timeout=to, ub_notes=UB, funcs=F2))
    js.append(cbmc.Job('c20.emulate_ext', [H] + TUS, 'h_emulate_ext', unwind=100, timeout=to, ub_notes=UB,
                       funcs=F1 + ['orc_executor_emulate']))
    return js


def main():
    rep = Report('C20', 'model_checking')
    rep.bounds = dict(extra_sets='1..3', opcodes_per_extra_set='2 (3 opcodes with 2 extra sets: no verdict in 2400 s, outside)', names='first byte a configuration constant ("a": prefixes/extensions/duplicates of the built-in names addb, addw, ab occur), remaining <=3 bytes arbitrary',
                      rule_sets='3 new rule sets after a fill level of 0/3/7 existing ones (capacity 10 respected), majors enumerated, required flags and query flags arbitrary 32-bit',
                      emulation='hand-built code object using one extension opcode and one built-in, n in 1..16')
    rep.assume('registration beyond ORC_N_RULE_SETS / ORC_N_TARGETS is outside the property (quantifier: up to the capacity); noted in DESIGN.md as an unchecked limit in orc_rule_set_new/orc_target_register',
               'pointer subtraction across different opcode arrays in orc_opcode_set_find_by_opcode is standard-level UB with a benign meaning on the host: reported as UB-NOTE',
               'orc_debug_print/sprintf empty')
    b = build.Build('c20')
    cbmc.run_jobs(b, jobs(), rep)
    return rep.finish()


def replay(path):
    import json
    print(json.dumps(json.load(open(path)), indent=1)[:6000])
    return 0
