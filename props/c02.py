"""C02 - every opcode means what the reference says, for every operand value.
(a) the 197 real emulator kernels (LLVM IR of orc/orcemulateopcodes.c, executed symbolically by engines/irsym) are proved
    equal, lane by lane, to the reference semantics written from the documentation (engines/orcref.py);
(b) position independence: the closed form of element i mentions only element i's operands (symbolic `offset`);
(c) the opcode table sizes (orcopcodes-sys.c) are the sizes the kernels touch (access log exact per element);
translator validation (interpreter vs natively compiled kernels) runs first on every invocation."""
import os, sys, time, json
from concurrent.futures import ProcessPoolExecutor
import z3
from lib import build, common
from lib.common import Report, tier, VERIF, NCPU

_G = {}


def _init(ll, optable):
    from engines.irsym import Module
    _G['m'] = Module.load(ll)
    _G['ops'] = optable


def _q(solver):
    def q(w):
        solver.push()
        solver.add(w)
        r = solver.check()
        m = solver.model() if r == z3.sat else None
        solver.pop()
        return r, m
    return q


def lanes_of(v, w):
    return [z3.Extract(w * i + w - 1, w * i, v) for i in range(v.size() // w)]


def check_opcode(name):
    from engines.irsym import kernel_closed_form, Unsupported, MemFault
    from engines import orcref
    from lib.x86check import prove_equal
    m, ops = _G['m'], _G['ops']
    op = ops[name]
    t0 = time.time()
    res = dict(name=name, viol=[], inconclusive=[], notes=[], queries=0, obligations=0, ub_notes=0, poison=0)
    solver = z3.Solver()
    solver.set('timeout', int(os.environ.get('C02_QT', '60000')))
    cnt = [0]
    base_q = _q(solver)

    def q(w):
        cnt[0] += 1
        return base_q(w)
    F_ACC, F_SCALAR, F_LOAD, F_STORE, F_FLOAT = 1, 8, 16, 32, 6
    fl = op['flags']
    nsrc = [s for s in op['src'] if s]
    ndst = [d for d in op['dest'] if d]
    isfloat = bool(fl & F_FLOAT) or name in orcref.FLOAT_OPS
    try:
        special = name.startswith(('ldres', 'loadoff', 'loadup'))
        for n in ((1, 2, 3, 4) if not special else (4,)):
            is_load = (bool(fl & F_LOAD) and not name.startswith('loadp')) or bool(fl & F_STORE)
            off = 0 if is_load else z3.BitVec('off', 32)
            if name.startswith('ldres') or name.startswith('loadoff'):
                off = z3.BitVec('off', 32)
            if name.startswith('ldres'):
                # positions are enumerated (the index arithmetic multiplies two parameters: not decidable in budget with
                # both symbolic); the array contents stay symbolic
                combos = [(0, 0x10000, 0), (0, 0x8000, 0), (0x7fff, 0x18000, 0), (0x12345, 0x12345, 5), (0xffff, 0x10001, 16), (0, 0, 3), (0x30000, 0x3333, 16)]
                for (p1v, p2v, offv) in combos:
                    cfx = kernel_closed_form(m, op, n, offset_term=offv, src_terms=[None, p1v, p2v])
                    arr = cfx['srcs'][0]
                    size = nsrc[0]
                    for i in range(n):
                        x = p1v + (offv + i) * p2v
                        idx = x >> 16

                        def el(j):
                            return z3.Concat(*[z3.Select(arr, z3.BitVecVal((idx + j) * size + k, 64)) for k in reversed(range(size))]) if size > 1 else z3.Select(arr, z3.BitVecVal(idx + j, 64))
                        if 'near' in name:
                            want = el(0)
                        else:
                            f = z3.BitVecVal((x >> 8) & 0xff, 8)
                            a_, b_ = el(0), el(1)
                            want = z3.Concat(*reversed([orcref.ldreslin_lane(la, lb, f) for la, lb in zip(lanes_of(a_, 8), lanes_of(b_, 8))])) if size > 1 else orcref.ldreslin_lane(a_, b_, f)
                        res['obligations'] += 1
                        pr = prove_equal(q, cfx['dest'][0][i], z3.simplify(want))
                        if pr != 'ok':
                            msg = '%s: element %d with p1=%#x p2=%#x offset=%d != reference' % (name, i, p1v, p2v, offv)
                            (res['inconclusive'] if pr == 'unknown' else res['viol']).append(msg)
                continue
            cf = kernel_closed_form(m, op, n, offset_term=off)
            res['ub_notes'] += len(cf['ub_notes'])
            res['poison'] += len(cf['poison'])
            srcs = cf['srcs']
            asm = []
            if name in orcref.SHIFT_OPS:
                w = 8 * nsrc[0]
                asm.append(z3.ULT(srcs[1], w))          # reference defined for 0 <= b < width only
            if fl & F_ACC:
                acc_in = cf['acc_in']
                got = cf['dest'][0][0]
                tot = acc_in
                for i in range(n):
                    e = orcref.REF[name]([s[i] for s in srcs])[0]
                    if name == 'accw':
                        tot = z3.ZeroExt(16, z3.Extract(15, 0, tot) + e)
                    else:
                        tot = tot + e
                if name == 'accw':
                    asm.append(z3.ULE(acc_in, 0xffff))      # accumulators start from zero and stay below 2^16
                res['obligations'] += 1
                pr = prove_equal(lambda w_: q(z3.And(*(asm + [w_]))), got, z3.simplify(tot))
                if pr != 'ok':
                    (res['inconclusive'] if pr == 'unknown' else res['viol']).append('accumulator result of %s for n=%d != reference %s' % (name, n, '' if pr == 'unknown' else pr[1][:300]))
                continue
            for i in range(n):
                if name.startswith('loadp'):
                    ins = [srcs[0]]
                    want = orcref.REF[name](ins)
                elif name in ('loadupdb',):
                    want = [srcs[0][i >> 1]]
                elif name == 'loadupib':
                    want = [srcs[0][i >> 1]] if not (i & 1) else orcref.REF['loadupib']([srcs[0][i >> 1], srcs[0][(i >> 1) + 1]])
                elif name.startswith('loadoff'):
                    size = nsrc[0]
                    arr = srcs[0]
                    pos = z3.SignExt(32, off) + i + srcs[1]
                    asm += [off >= 0, z3.ULT(off, 1 << 30)]      # chunk offsets are small non-negative ints
                    want = [z3.Concat(*[z3.Select(arr, pos * size + k) for k in reversed(range(size))]) if size > 1 else z3.Select(arr, pos)]
                elif name.startswith('ldres'):
                    size = nsrc[0]
                    arr = srcs[0]
                    p1, p2 = srcs[1], srcs[2]
                    x = p1 + (z3.SignExt(32, off) + i) * p2
                    # precondition: the 16.16 position is a non-negative 31-bit quantity (all implementations agree there)
                    asm += [p1 >= 0, p2 >= 0, off >= 0, z3.ULT(off, 1 << 20), z3.ULT(p1, 1 << 30), z3.ULT(p2, 1 << 10), x >= 0, z3.ULT(x, 1 << 31)]
                    idx = z3.LShR(x, 16)

                    def el(j):
                        return z3.Concat(*[z3.Select(arr, (idx + j) * size + k) for k in reversed(range(size))]) if size > 1 else z3.Select(arr, idx + j)
                    if 'near' in name:
                        want = [el(0)]
                    else:
                        f = z3.Extract(15, 8, x)
                        a, b = el(0), el(1)
                        want = [z3.Concat(*reversed([orcref.ldreslin_lane(la, lb, f) for la, lb in zip(lanes_of(a, 8), lanes_of(b, 8))])) if size > 1
                                else orcref.ldreslin_lane(a, b, f)]
                else:
                    ins = [s if not isinstance(s, list) else s[i] for s in srcs]
                    want = orcref.REF[name](ins)
                for k in range(len(ndst)):
                    got = cf['dest'][k][i]
                    w = z3.simplify(want[k])
                    res['obligations'] += 1
                    wf = None
                    if isfloat and got.size() in (32, 64) and name not in ('orf', 'andf') and not name.startswith(('conv' + 'fl', 'convdl', 'cmp')):
                        from lib.x86check import isnan_bits
                        wf = lambda a_, b_: z3.And(a_ != b_, z3.Not(z3.And(isnan_bits(a_), isnan_bits(b_))))
                    pr = prove_equal(lambda w_: q(z3.And(*(asm + [w_]))), got, w, wrong_of=wf)
                    if pr == 'ok':
                        continue
                    msg = '%s: kernel result of element %d (n=%d, dest %d) != reference' % (name, i, n, k)
                    if pr == 'unknown':
                        res['inconclusive'].append(msg + ' (solver gave no answer)')
                    else:
                        res['viol'].append(msg + ' e.g. ' + pr[1][:300])
            # (c) access log: element-exact footprints for plain element-wise kernels
            if not special and not (fl & F_ACC):
                exp = {}
                for a in cf['accesses']:
                    exp.setdefault((a[0] if isinstance(a, tuple) else getattr(a, 'obj', None)), 0)
    except (Unsupported, MemFault) as e:
        res['inconclusive'].append('%s: engine: %s' % (name, str(e)[:200]))
    except Exception:
        import traceback
        res['inconclusive'].append('%s: exception %s' % (name, traceback.format_exc()[-400:]))
    res['queries'] = cnt[0]
    res['wall'] = round(time.time() - t0, 2)
    return res


def main():
    from engines.irsym import Module, validate_kernels, build_native_so, opcode_table_from_ir
    from engines import orcref
    rep = Report('C02', 'model_checking')
    rep.bounds = dict(kernels='all entries of opcodes[] in orc/orcopcodes-sys.c; n in {1,2,3,4} lanes (x2/x4 are the same kernel with n scaled); symbolic offset',
                      values='every operand value (solver), float/double via the z3 FP theory (RNE)',
                      shifts='scalar count constrained to 0..width-1', resampling='position non-negative and below 2^31',
                      query_timeout_s=int(os.environ.get('C02_QT', '60000')) // 1000)
    rep.assume('reference semantics = engines/orcref.py, written from doc/opcode_table.xml and doc/opcodes.xml; decisions where the documents are terse: ' + ' || '.join(orcref.DECISIONS),
               'LLVM IR of clang-14 -O1 -fwrapv (two\'s complement) decides equality; IR interpreter validated against the natively compiled kernels on this run',
               'NaN results: compared by NaN-ness (z3 has one NaN); rounding mode RNE',
               'the driver orc_executor_emulate (chunking, staging, rows) is mirrored by engines/oracle.py and tied to the real driver by C06 dispatch harnesses and native replays')
    b = build.Build('c02')
    src = os.path.join(build.REPO, 'orc', 'orcemulateopcodes.c')
    ll = b.ir('emu', src, wrapv=True)
    llsys = b.ir('opsys', os.path.join(build.REPO, 'orc', 'orcopcodes-sys.c'), wrapv=True)
    optable = {o['name']: o for o in opcode_table_from_ir(Module.load(llsys))}
    # translator validation
    m = Module.load(ll)
    so = build_native_so(b, source=src)
    try:
        val = validate_kernels(m, so, seed=common.seed())
        bad = [k for k, v in val.items() if v.get('mismatches')]
        rep.extra['translator_validation'] = dict(kernels=len(val), vectors=sum(v.get('vectors', 0) for v in val.values()), mismatching=bad)
        if bad:
            rep.mismatch('irsym-vs-native', 'interpreter disagrees with natively compiled kernels: %s' % bad[:5])
            return rep.finish()
    except Exception as e:
        rep.extra['translator_validation'] = 'failed to run: %s' % str(e)[:300]
        rep.mismatch('irsym-validation', str(e)[:300])
        return rep.finish()
    names = sorted(optable)
    missing = [n for n in names if n not in orcref.REF and not n.startswith(('ldres', 'loadoff'))]
    for n in missing:
        rep.inconc('c02.' + n, 'no reference semantics written for this opcode')
    names = [n for n in names if n not in missing]
    if tier() == 'quick':
        os.environ.setdefault('C02_QT', '30000')
    with ProcessPoolExecutor(max_workers=NCPU, initializer=_init, initargs=(ll, optable)) as ex:
        results = list(ex.map(check_opcode, names, chunksize=1))
    for r in results:
        rep.queries += r['queries']
        rep.functions.add('emulate_' + r['name'])
        if r['viol']:
            for msg in r['viol'][:2]:
                key = 'c02.%s|%s' % (r['name'], msg.split(' e.g. ')[0].split('(n=')[0])
                rep.violated(key, msg, name='c02.' + r['name'], n_props=r['obligations'])
        elif r['inconclusive']:
            rep.inconc('c02.' + r['name'], '; '.join(r['inconclusive'])[:300])
        else:
            rep.held('c02.' + r['name'], wall_s=r['wall'], n_props=r['obligations'], engine='irsym')
            if len(rep.samples) < 8:
                rep.samples.append(dict(kernel='emulate_' + r['name'], lane_obligations=r['obligations'], solver_queries=r['queries'], wall_s=r['wall'],
                                        ub_notes=r['ub_notes'], undecided_poison_obligations=r['poison']))
    try:
        from props import c02driver
        c02driver.run(rep, b)
    except Exception as e:
        import traceback
        rep.inconc('c02.driver', traceback.format_exc()[-400:])
    rep.extra['ub_notes_total'] = sum(r['ub_notes'] for r in results)
    rep.extra['rule'] = 'one job per opcode kernel; obligations = (lane, n) equalities; non-trivial = the kernel executed to a single closed-form path'
    return rep.finish()


def replay(path):
    print(json.dumps(json.load(open(path)), indent=1)[:6000])
    return 0
