"""C09 - code memory stays consistent over any history of compiles and frees.
Inductive step of the real allocator (orc/orccodemem.c) from an arbitrary valid chunk-list pre-state."""
import os
from lib import build, cbmc, common
from lib.common import VERIF, Report, tier

H = os.path.join(VERIF, 'harness', 'c09', 'h_codemem.c')
FUNCS = ['orc_code_allocate_codemem', 'orc_code_region_get_free_chunk', 'orc_code_chunk_split', 'orc_code_chunk_merge',
         'orc_code_chunk_free', 'orc_code_region_new', 'orc_code_region_alloc', 'orc_code_region_allocate_codemem']


def jobs():
    t = tier()
    js = []
    confs = [(2, 4)] if t == 'quick' else [(1, 6), (2, 5), (3, 3)]
    for r, k in confs:
        d = ['R=%d' % r, 'K=%d' % k]
        for fn in ('h_alloc', 'h_free'):
            js.append(cbmc.Job('c09.%s.R%dK%d' % (fn, r, k), [H], fn, defs=d, unwind=k + 3, unwindset=['strlen.0:12'],
                               timeout=300 if t == 'quick' else 1500, mem_gb=12, funcs=FUNCS))
    hs = [2] if t == 'quick' else [3]
    for h in hs:
        js.append(cbmc.Job('c09.h_history.H%d' % h, [H], 'h_history', defs=['H=%d' % h, 'R=1', 'K=2'], unwind=h + 3,
                           unwindset=['strlen.0:12'], timeout=300 if t == 'quick' else 1800, mem_gb=24, funcs=FUNCS))
    return js


def main():
    rep = Report('C09', 'model_checking')
    rep.bounds = dict(regions_in_prestate='R<=3', chunks_per_region='K<=6 (quick: R=2,K=4)', request_size='[0,65536]',
                      history_depth='2 (quick) / 3 (thorough) from the empty allocator', unwinding_assertions=True)
    rep.assume('orc_global_mutex_lock/unlock replaced by a ghost depth counter (asserted: taken once, released)',
               'mmap is a stub that fails or returns a fresh 64 KiB object; file-backed mapping path disabled here (C06 covers it)',
               'malloc never returns NULL (--no-malloc-may-fail)', 'orc_debug_print empty', '_orc_codemem_alignment = 15 (x86)',
               'pre-state: any chunk list satisfying Inv (tiling from 0 to region size, sizes multiple of 16, links consistent, no two adjacent free chunks)',
               'placement independence of the emitted code is checked by C01 (code is executed at a symbolic address there)')
    b = build.Build('c09')
    cbmc.run_jobs(b, jobs(), rep)
    return rep.finish()


def replay(path):
    import json
    print(json.dumps(json.load(open(path)), indent=1)[:4000])
    return 0
