"""C05 - compilation always terminates, classifies its result, never corrupts memory.
Decomposed into the fixed-capacity tables and loops the property names:
  CBMC   loop-shift selection (termination + value), variable declaration limits at fill cap-1/cap, compile result
         classification through the real pipeline with a stub back end (shared harness with C06)
  irsym  the real front half of the compiler (orc_program_compile_full with no target: check_sizes, rewrite_insns,
         rewrite_vars, orc_code_new ...) executed from LLVM IR on programs at and beyond the expansion limits: no
         out-of-bounds access (object-level), result code classified, fatal => no code object, otherwise emulation data present."""
import os, json, time
import z3
from lib import build, cbmc, common
from lib.common import VERIF, REPO, Report, tier

HL = os.path.join(VERIF, 'harness', 'c05', 'h_loopshift.c')
HT = os.path.join(VERIF, 'harness', 'c05', 'h_tables.c')
HC = os.path.join(VERIF, 'harness', 'common', 'h_compile.c')
TUS_T = [HT] + [os.path.join(REPO, 'orc', x) for x in ('orcprogram.c', 'orcopcode.c', 'orcutils.c')]
TUS_C = [HC] + [os.path.join(REPO, 'orc', x) for x in 'orccompiler.c orcprogram.c orcopcode.c orcrule.c orctarget.c orccode.c orcexecutor.c orcutils.c'.split()]
CAPS = {0: 8, 1: 4, 2: 16, 3: 8, 4: 8, 5: 4, 6: 8, 7: 8}


def irsym_pipeline(rep, b):
    from engines.irsym import Module, Executor, MemFault, Unsupported
    import subprocess
    R = os.path.join(REPO, 'orc')
    tus = 'orccompiler.c orcprogram.c orcopcode.c orcopcodes-sys.c orcutils.c orccode.c orcexecutor.c orcemulateopcodes.c'.split()
    lls = [b.ir('c05_' + t[:-2].replace('-', '_'), os.path.join(R, t), wrapv=True, defs=['NVALGRIND']) for t in tus]
    m = Module.load(lls)
    src = os.path.join(b.dir, 'c05off.c')
    open(src, 'w').write('#include <stdio.h>\n#include <stddef.h>\n#include <orc/orc.h>\n#include <orc/orcinternal.h>\nint main(){printf("{\\"orccode\\":%zu,\\"n_insns\\":%zu,\\"code_n_insns\\":%zu,\\"code_insns\\":%zu,\\"code_vars\\":%zu,\\"code_exec\\":%zu}",'
                         'offsetof(OrcProgram,orccode),offsetof(OrcProgram,n_insns),offsetof(OrcCode,n_insns),offsetof(OrcCode,insns),offsetof(OrcCode,vars),offsetof(OrcProgram,code_exec));}')
    exe = os.path.join(b.dir, 'c05off')
    subprocess.check_call(['gcc'] + b.cflags + [src, '-o', exe])
    off = json.loads(subprocess.check_output([exe]))
    t = tier()
    cases = []
    for kind in (0, 1, 2, 3):
        ns = (1, 10, 20, 21, 22, 25, 26, 31, 32, 33, 34, 40, 63, 64, 99, 100, 101, 130) if t != 'quick' else (1, 21, 22, 25, 26, 32, 33, 40, 99, 100, 101)
        for n in ns:
            cases.append((kind, n))
    for kind, n in cases:
        name = 'c05.pipeline.kind%d.n%d' % (kind, n)
        t0 = time.time()
        try:
            ex = Executor(m, max_steps=8000000)
            strs = {}
            for w in ('d', 's', 't', 'c', 'x', 'p', 'addb', 'copyb', 'addw'):
                dd = w.encode() + b'\0'
                strs[w] = ex.alloc('s_' + w, len(dd), init=dd)
            st = ex.call('orc_opcode_sys_init', [])[0]

            def call(fn, args):
                nonlocal st
                r = ex.call(fn, args, from_path=st, on_fault='path')
                if len(r) != 1 or r[0].status != 'ok':
                    raise RuntimeError('%s: %d paths, status %s' % (fn, len(r), [q.status for q in r]))
                st = r[0]
                return st.ret
            P = call('orc_program_new', [])
            call('orc_program_add_destination', [P, 1, strs['d']])
            call('orc_program_add_source', [P, 1, strs['s']])
            call('orc_program_add_source', [P, 1, strs['t']])
            call('orc_program_add_constant', [P, 1, z3.BitVec('cval', 32), strs['c']])
            call('orc_program_add_temporary', [P, 1, strs['x']])
            call('orc_program_add_parameter', [P, 1, strs['p']])
            D1, S1, S2, C1, P1, T1 = 0, 4, 5, 16, 24, 32
            for i in range(n):
                if kind == 0:
                    call('orc_program_append', [P, strs['addb'], D1, S1, S2])
                elif kind == 1:
                    call('orc_program_append', [P, strs['addb'], D1, S1, C1])
                elif kind == 2:
                    call('orc_program_append', [P, strs['copyb'], T1, S1 if i == 0 else T1, 0])
                else:
                    call('orc_program_append', [P, strs['addb'], D1, S1, P1])
            r = ex.call('orc_program_compile_full', [P, 0, 0], from_path=st, on_fault='path')
            bad = None
            for q in r:
                if q.status != 'ok':
                    bad = 'compile ended with %s (%s)' % (q.status, str(getattr(q, 'fault', ''))[:200])
                    break
                res = q.ret if isinstance(q.ret, int) else None
                oc = q.read(P, off['orccode'], 8)
                if res is None or not isinstance(oc, int):
                    bad = 'symbolic result'
                    break
                fatal, ok = res >= 0x200, res < 0x100
                if fatal and oc != 0:
                    bad = 'fatal result %#x but a code object is attached' % res
                if not fatal:
                    if oc == 0:
                        bad = 'non-fatal result %#x without code object (not runnable by emulation)' % res
                    else:
                        ni = q.read(oc, off['code_n_insns'], 4)
                        if not isinstance(ni, int) or ni > 100 or q.read(oc, off['code_insns'], 8) == 0 or q.read(oc, off['code_vars'], 8) == 0:
                            bad = 'code object of a non-fatal result is not emulatable (n_insns=%s)' % ni
                if n <= 10 and fatal:
                    bad = 'a small valid program (%d instructions) is refused' % n
                if n > 100 and not fatal:
                    bad = 'more than 100 instructions accepted'
            if bad:
                key = 'c05.pipeline.kind%d|%s' % (kind, bad.split('(')[0][:80])
                rep.violated(key, '%s: %s' % (name, bad), name=name)
            else:
                rep.held(name, wall_s=round(time.time() - t0, 2), n_props=len(r), engine='irsym')
                if len(rep.samples) < 6:
                    rep.samples.append(dict(program='%d instructions of kind %d' % (n, kind), result=[hex(q.ret) if isinstance(q.ret, int) else str(q.ret) for q in r]))
        except (MemFault, RuntimeError) as e:
            rep.violated('c05.pipeline.kind%d|memory fault or abort' % kind, '%s: %s' % (name, str(e)[:300]), name=name)
        except Unsupported as e:
            rep.inconc(name, 'engine: %s' % str(e)[:200])
    rep.functions.update(['orc_program_compile_full', 'orc_compiler_compile_program', 'orc_compiler_check_sizes', 'orc_compiler_rewrite_insns', 'orc_compiler_new_temporary',
                          'orc_compiler_rewrite_vars', 'orc_compiler_dup_temporary', 'orc_program_append', 'orc_code_new'])


def main():
    rep = Report('C05', 'model_checking')
    t = tier()
    rep.bounds = dict(loop_shift='register_size in {8,16,32} x max_var_size in {1..32}', variables='every class at fill cap-1 and cap, symbolic size',
                      expansion='programs of 1..130 instructions of four operand-kind shapes through the real front half of the compiler (no target): limits of insns[100] and of the 64 compiler temporaries crossed',
                      classification='stub back end: success / back-end error / no rule / no executable memory / invalid program')
    rep.assume('whole back ends (x86 rule bodies for every program, NEON/MIPS/Altivec/c64x) are outside: only the family of C01 is compiled concretely with a watchdog there',
               'irsym detects out-of-bounds accesses per object (an overflow from one member into the next of the same struct is seen through the post-state invariants, not as a fault)',
               'formatting stubs (vasprintf) produce a fixed string')
    b = build.Build('c05')
    js = [cbmc.Job('c05.loopshift', [HL], 'h_loopshift', unwind=8, timeout=300, funcs=['orc_x86_compiler_max_loop_shift'])]
    for cls, cap in CAPS.items():
        for fill in (cap - 1, cap) if t == 'quick' else (0, cap - 1, cap, cap + 1):
            js.append(cbmc.Job('c05.add_var.class%d.fill%d' % (cls, fill), TUS_T, 'h_add_var', defs=['CLASS=%d' % cls, 'FILL=%d' % fill], unwind=70, timeout=600,
                               funcs=['orc_program_add_source', 'orc_program_add_destination', 'orc_program_add_temporary', 'orc_program_add_constant', 'orc_program_add_parameter',
                                      'orc_program_add_accumulator', 'orc_program_add_parameter_int64', 'orc_program_add_constant_int64']))
    for api in range(7):
        for fill in (99, 100) if t == 'quick' else (0, 98, 99, 100):
            js.append(cbmc.Job('c05.append.api%d.fill%d' % (api, fill), TUS_T, 'h_append', defs=['API=%d' % api, 'FILL=%d' % fill], unwind=104, unwindset=['memcmp.0:300'], timeout=900,
                               funcs=['orc_program_append', 'orc_program_append_2', 'orc_program_append_ds', 'orc_program_append_str', 'orc_program_append_str_2', 'orc_program_append_ds_str', 'orc_program_append_str_n']))
    for c in ([['CFG_PROG=3'], ['CFG_FAIL=1'], ['CFG_RULE=0', 'CFG_PROG=1'], ['CFG_CHUNK=2', 'CFG_PROG=2']] if t == 'quick' else
              [['CFG_PROG=%d' % p_] + e for p_ in (0, 1, 2, 3) for e in ([], ['CFG_FAIL=1'], ['CFG_FAIL=2'], ['CFG_RULE=0'], ['CFG_CHUNK=0'], ['CFG_CHUNK=2'], ['CFG_E=1'], ['CFG_T=0'])]):
        js.append(cbmc.Job('c05.classify.' + '_'.join(x.replace('CFG_', '').replace('=', '') for x in c), TUS_C, 'h_compile_classify', defs=c, unwind=130, timeout=1200, mem_gb=12,
                           funcs=['orc_compiler_compile_program', 'orc_compiler_check_sizes']))
    cbmc.run_jobs(b, js, rep)
    try:
        irsym_pipeline(rep, b)
    except Exception as e:
        import traceback
        rep.inconc('c05.pipeline', traceback.format_exc()[-400:])
    return rep.finish()


def replay(path):
    print(json.dumps(json.load(open(path)), indent=1)[:6000])
    return 0
