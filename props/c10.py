"""C10 - generated functions honour the SysV AMD64 calling convention (callee-saved registers, rsp, caller stack, DF, MXCSR, MMX state, store targets)."""
from lib import x86run
from lib.common import Report, tier
from props import x86common


def flagsets():
    # the frame-pointer flag (bit 7) changes the prologue/epilogue of every program: checked on a sample (every 6th program of
    # the family, rotating with the seed, plus all structural extras) in both tiers
    return {t: [('default', 'default'), ('frame-pointer', 'default|0x80')] for t in ('sse', 'avx', 'mmx')}


def main():
    rep = Report('C10', 'translation_validation')
    rep.bounds = dict(n='symbolic, 0..2*elements_per_vector+3 (avx capped at 36 in the quick tier); every head/tail length and <=2 main-loop iterations are feasible paths',
                      alignment='base pointers symbolic (every residue allowed by the element size)', m='1..2 rows for 2-D programs, n<=9',
                      programs='quick: every opcode once (operand kind rotates with VERIF_SEED) + every 4th x2/x4 form + structural extras; thorough: whole single-opcode family',
                      targets='sse, avx, mmx (64-bit code)', flags='default flags for every program; default|frame-pointer for every 6th program and all structural extras')
    rep.assume(*x86common.ASSUME)
    results, info = x86run.run(('C01', 'C03', 'C10', 'C11'), flagsets=flagsets(), quick_frac=6, quick_frac_from=1, frac_always=True)
    x86common.fold('C10', 'translation_validation', results, info, rep, '')
    return rep.finish()


def replay(path):
    import json
    print(json.dumps(json.load(open(path)), indent=1)[:8000])
    return 0
