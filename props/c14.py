"""C14 - the .orc parser is total: unit steps of orcparse.c from symbolic states."""
import os
from lib import build, cbmc
from lib.common import VERIF, REPO, Report, tier

H = os.path.join(VERIF, 'harness', 'c14', 'h_parse.c')
TUS = [H] + [os.path.join(REPO, 'orc', x) for x in ('orcutils.c', 'orcprogram.c')]
UB = [r'_strtoll\|arithmetic overflow on signed']       # val*base / -val: wrap-around on the host (UB-NOTE)
DIRS = ['.function', '.backup', '.init', '.flags', '.n', '.m', '.source', '.dest', '.accumulator', '.const', '.temp', '.param',
        '.longparam', '.floatparam', '.doubleparam', '.bogus']
FILLS = {'.source': ('FILL_SRC', 8), '.dest': ('FILL_DEST', 4), '.accumulator': ('FILL_ACC', 4), '.const': ('FILL_CONST', 8), '.temp': ('FILL_TEMP', 16),
         '.param': ('FILL_PARAM', 8), '.longparam': ('FILL_PARAM', 8), '.floatparam': ('FILL_PARAM', 8), '.doubleparam': ('FILL_PARAM', 8)}


def q(s):
    return '"%s"' % s


def jobs():
    t = tier()
    quick = t == 'quick'
    to = 600 if quick else 2400
    J = cbmc.Job
    js = [J('c14.get_line.L%d' % l, TUS, 'h_get_line', defs=['L=%d' % l, '__NO_CTYPE'], unwind=l + 4, timeout=to,
            funcs=['orc_parse_init', 'orc_parse_get_line', 'orc_parse_find_line_length', 'orc_parse_copy_line', 'orc_parse_advance', '_strndup'])
          for l in ((6,) if quick else (6, 8))]
    js.append(J('c14.tokens.L%d' % (5 if quick else 6), TUS, 'h_tokens', defs=['L=%d' % (5 if quick else 6), '__NO_CTYPE'], unwind=18, timeout=to,
                funcs=['orc_line_parse_tokens', 'orc_line_add_token', 'orc_line_advance', 'orc_line_skip_blanks']))
    js.append(J('c14.strtoll', TUS, 'h_strtoll', defs=['__NO_CTYPE'], unwind=10, timeout=to, ub_notes=UB, funcs=['_strtoll']))
    for nerr in ((1, 2, 32) if quick else (1, 2, 31, 32, 33, 64)):
        js.append(J('c14.error_vector.n%d' % nerr, TUS, 'h_error_vector', defs=['NERR=%d' % nerr, '__NO_CTYPE'], unwind=nerr + 6, timeout=to, object_bits=12,
                    funcs=['orc_parse_add_error', 'orc_parse_add_error_valist', 'orc_parse_error_new', 'orc_vector_append', 'orc_vector_extend', 'orc_parse_error_freev', 'orc_parse_error_free']))
    for fill in ((0, 7, 8) if not quick else (7, 8)):
        js.append(J('c14.constant_str.fill%d' % fill, TUS, 'h_constant_str', defs=['FILL_CONST=%d' % fill, '__NO_CTYPE'], unwind=70, timeout=to, mem_gb=12,
                    ub_notes=UB, funcs=['orc_program_add_constant_str', '_strtoll']))
    js.append(J('c14.sanity', TUS, 'h_sanity', defs=['FILL_SRC=1', 'FILL_DEST=1', '__NO_CTYPE'], unwind=70, timeout=to, funcs=['orc_parse_sanity_check']))
    # directive lines through the dispatcher: token vectors with one (thorough: up to two) arbitrary token(s)
    def vectors(d):
        # A symbolic token in a position that the handler compares against keywords (and then skips a token) makes the
        # loop index symbolic and CBMC unwinds the token loop to its bound; such positions are symbolic only when they are
        # the last token, and are otherwise enumerated concretely (keyword / non-keyword "zz").
        v = [[d], [d, None], [d, None, 'x'], [d, '1', None]]
        if d in ('.source', '.dest'):
            v += [[d, '1', 'x', 'align', None], [d, '1', 'x', 'zz', 't'], [d, '1', 'x', 'align'], [d, '1', 'x', None], [d, '1', 'x', 'align', '4', None]]
        if d == '.n':
            v = [[d], [d, None], [d, 'mult', None], [d, 'zz', '4'], [d, 'min', '1', 'max', None], [d, 'mult'], [d, 'max', None, '7'], [d, 'min', None]]
        if d == '.const':
            v += [[d, '4', 'c', None], [d, None, 'c', '1'], [d, '4', None, '1']]
        if d == '.accumulator':
            v += [[d, '2', 'a', None]]
        if d == '.flags':
            v += [[d, '2d', None]]
        if not quick and d != '.n':
            v += [[d, None, None], [d, None, None, 'x'], [d, '1', None, None]]
        return v
    for d in DIRS:
        for prog in (0, 1):
            for vec in vectors(d):
                if prog == 0 and quick and len(vec) not in (1, 3):
                    continue
                ntok = len(vec)
                sympos = sum(1 << i for i, x in enumerate(vec) if x is None)
                conc = ','.join(q(x if x is not None else 'z') for x in vec)
                defs = ['DIRECTIVE=' + q(d), 'HAVE_PROGRAM=%d' % prog, 'NTOK=%d' % ntok, 'TL=3', 'SYMPOS=%d' % sympos, 'CONCRETE_TOKENS=' + conc,
                        'NEEDS_PROGRAM=%d' % (0 if d in ('.init', '.function', '.bogus') else 1), '__NO_CTYPE']
                fills = [None]
                if prog and d in FILLS:
                    name, cap = FILLS[d]
                    fills = [0, cap - 1, cap] if not quick else [cap - 1, cap]
                for f in fills:
                    dd = list(defs)
                    nm = 'c14.directive%s.prog%d.%s' % (d, prog, '_'.join('SYM' if x is None else x for x in vec[1:]) or 'bare')
                    if f is not None:
                        dd.append('%s=%d' % (FILLS[d][0], f)); nm += '.fill%d' % f
                    js.append(J(nm, TUS, 'h_directive', defs=dd, unwind=70, timeout=to, depth=6000 if not prog else None, ub_notes=UB, object_bits=10,
                                funcs=['orc_parse_handle_directive', 'orc_parse_handle_' + d.strip('.') if d != '.bogus' else 'orc_parse_handle_directive']))
    # opcode lines
    ops = {'addb': 3, 'copyb': 2, 'splitwb': 3, 'ldresl': 4}
    decl = ['FILL_SRC=2', 'FILL_DEST=2']
    names = ['da', 'sa', 'sb', 'sa']
    for op, nargs in ops.items():
        for prefix in (0, 1, 2):
            base = (['x2'] if prefix == 1 else ['x4'] if prefix == 2 else []) + [op]
            ntoks = [len(base) + nargs] if quick else [len(base), len(base) + nargs - 1, len(base) + nargs, len(base) + nargs + 1]
            for ntok in ntoks:
                poss = list(range(len(base), ntok))
                if quick:
                    poss = poss[-1:] if prefix == 0 else poss[:1]
                    if op not in ('addb', 'splitwb') and prefix:
                        continue
                for pos in poss or [None]:
                    toks = base + names[:max(0, ntok - len(base))] + ['sa'] * 4
                    toks = toks[:max(ntok, 1)]
                    defs = ['OPNAME=' + q(op), 'PREFIX=%d' % prefix, 'NTOK=%d' % ntok, 'TL=2', 'SYMPOS=%d' % ((1 << pos) if pos is not None else 0),
                            'CONCRETE_TOKENS=' + ','.join(q(x) for x in toks), '__NO_CTYPE'] + decl
                    js.append(J('c14.opcode.%s.x%d.ntok%d.sym%s' % (op, prefix, ntok, pos), TUS, 'h_opcode', defs=defs, unwind=70, timeout=to, mem_gb=12, ub_notes=UB,
                                funcs=['orc_parse_handle_opcode', 'orc_parse_find_opcode', 'opcode_n_args', 'opcode_arg_size', 'orc_program_add_constant_str',
                                       'orc_program_append_str_n', 'orc_program_find_var_by_name']))
    js.append(J('c14.opcode.addb.noprogram', TUS, 'h_opcode', defs=['NTOK=4', 'HAVE_PROGRAM=0', 'SYMPOS=8', 'TL=2', '__NO_CTYPE'], unwind=70, timeout=to, depth=6000,
                funcs=['orc_parse_handle_opcode']))
    for fill in ((99, 100) if quick else (0, 1, 98, 99, 100)):
        js.append(J('c14.opcode.addb.insns%d' % fill, TUS, 'h_opcode', defs=['NTOK=4', 'FILL_INSNS=%d' % fill, 'SYMPOS=0', 'CONCRETE_TOKENS="addb","x","x","x"', '__NO_CTYPE'],
                    unwind=110, timeout=1200 if quick else 3000, mem_gb=12, funcs=['orc_parse_handle_opcode', 'orc_program_append_str_n', 'orc_program_has_insn_space']))
    return js


def main():
    rep = Report('C14', 'model_checking')
    rep.bounds = dict(text='line splitter: any text of <=6 (thorough 8) arbitrary bytes, any start position', line='tokenizer: any line of <=5 (thorough 6) bytes from any intermediate tokenizer state with 0..16 tokens already stored',
                      tokens='handlers: token vectors of 1..6 tokens; symbolic tokens are arbitrary strings of <=3 bytes (<=2 for opcode operands, one symbolic operand at a time)',
                      parser_state='program NULL or a valid program; the directive-relevant table at fill level cap-1 and cap (thorough: 0 too); instruction table at 99/100',
                      strtoll='any string of <=6 bytes, base 0/8/10/16', error_vector='1..64 records', unwinding_assertions=True,
                      composition='whole-file behaviour follows by induction over lines: every line is handled from an arbitrary parser state within these bounds')
    rep.assume('strtod/strtol are stubs: arbitrary value, end pointer anywhere inside the string (no conversion when the first byte cannot start a number)',
               'vasprintf/snprintf are stubs producing a short string; formatting is not the subject',
               'opcode table replaced by a 4-entry table with the same shapes (1 dest/2 src, 1/1, 2 dest/1 src, 1 dest/3 src)',
               'malloc does not fail', 'signed overflow inside _strtoll (val*base, -val) wraps on the host: UB-NOTE',
               'returned programs compile and free safely: the parse-error flag makes compilation return a PARSE-class result (C05/C16 take over)')
    b = build.Build('c14')
    cbmc.run_jobs(b, jobs(), rep)
    return rep.finish()


def replay(path):
    import json
    print(json.dumps(json.load(open(path)), indent=1)[:6000])
    return 0
