"""C12 - the assembly listing and the machine code are the same program.
For every compiled program: the listing orc_program_get_asm_code() returns is assembled with the standard assembler
(as --64), both byte strings are decoded (objdump) into instruction sequences and compared pairwise.  Textually equal
decodings (same mnemonic, registers, memory operands, immediates; branch targets as instruction indices) are equal; a pair
that differs is executed by the x86 engine from one fully symbolic machine state and the solver must refute any
difference in the successor state."""
import os, re, json, subprocess, hashlib
import z3
from lib import build, common
from lib.common import Report, tier, VERIF, NCPU, pool_map, seed


# programs that reach encoder paths no single-opcode program reaches (listing comparison only; they are not executed here):
# memory displacements around the disp8/disp32 boundary (loadoff with a constant offset) and the constant-offset form of the
# resampling loads with enough arrays that the offset register is one of r8-r15 (mov-immediate with REX.B)
ENCODING_EXTRAS = [
    ('c12_loadoffl_%d' % k, 'var dest 4 d1\nvar src 4 s1\nvar temp 4 t1\nvar const 4 c1 %x\ninsn loadoffl 0 t1 s1 c1\ninsn copyl 0 d1 t1\n' % k) for k in (28, 31, 32, 33, 64)
] + [
    ('c12_loadoffb_%d' % k, 'var dest 1 d1\nvar src 1 s1\nvar temp 1 t1\nvar const 4 c1 %x\ninsn loadoffb 0 t1 s1 c1\ninsn copyb 0 d1 t1\n' % k) for k in (112, 127, 128)
] + [
    ('c12_ldresnearl_const_2d', 'var dest 4 d1\nvar dest 4 d2\nvar src 4 s1\nvar temp 4 t1\nvar const 4 c1 3e8\nvar const 4 c2 10000\ninsn ldresnearl 0 t1 s1 c1 c2\ninsn copyl 0 d1 t1\ninsn copyl 0 d2 t1\n'),
    ('c12_ldresnearl_const_3d', 'var dest 4 d1\nvar dest 4 d2\nvar dest 4 d3\nvar src 4 s1\nvar temp 4 t1\nvar const 4 c1 3e8\nvar const 4 c2 10000\ninsn ldresnearl 0 t1 s1 c1 c2\ninsn copyl 0 d1 t1\ninsn copyl 0 d2 t1\ninsn copyl 0 d3 t1\n'),
    ('c12_ldreslinl_const_2d', 'var dest 4 d1\nvar dest 4 d2\nvar src 4 s1\nvar temp 4 t1\nvar const 4 c1 3e8\nvar const 4 c2 10000\ninsn ldreslinl 0 t1 s1 c1 c2\ninsn copyl 0 d1 t1\ninsn copyl 0 d2 t1\n'),
]


def assemble(asm_text, workdir, tag):
    s = os.path.join(workdir, tag + '.s')
    o = os.path.join(workdir, tag + '.o')
    binf = os.path.join(workdir, tag + '.bin')
    open(s, 'w').write(asm_text + '\n')
    r = subprocess.run(['as', '--64', '-o', o, s], capture_output=True, text=True)
    if r.returncode != 0:
        return None, r.stderr
    r2 = subprocess.run(['objcopy', '-O', 'binary', '-j', '.text', o, binf], capture_output=True, text=True)
    if r2.returncode != 0:
        return None, r2.stderr
    return open(binf, 'rb').read(), r.stderr


def norm_ops(insn, addr2idx):
    """operands with branch targets replaced by instruction indices"""
    ops = []
    for o in insn.ops:
        if insn.mnem.startswith('j') and re.match(r'^0x[0-9a-f]+$', o):
            ops.append('@%s' % addr2idx.get(int(o, 16), o))
        else:
            ops.append(o)
    return ops


def semantically_equal(a, b):
    """two single instructions from the same fully symbolic machine state: compare successor states with the solver"""
    from engines.x86sym import step, Machine, Memory, Region, Unmodelled, Fault
    try:
        def mk():
            mem = Memory()
            # one window region per general register that may serve as a base: addresses resolve syntactically
            m = Machine(mem)
            for g in list(m.gpr):
                mem.add(Region('M_' + g, m.gpr[g], None, True))
            return m
        ma, mb = mk(), mk()
        sa, sb = step(ma, a), step(mb, b)
        if len(sa) != 1 or len(sb) != 1:
            return None, 'forking instruction'
        x, y = sa[0], sb[0]
        diffs = []
        ta, tb = x.state_terms(), y.state_terms()
        for k in ta:
            if k in ('rip',):
                continue
            if not z3.eq(z3.simplify(ta[k]), z3.simplify(tb[k])):
                diffs.append(ta[k] != tb[k] if not z3.is_bool(ta[k]) else ta[k] != tb[k])
        wa = {(ac.region, str(ac.offset), ac.nbytes): None for ac in x.mem.log if ac.kind == 'W'}
        wb = {(ac.region, str(ac.offset), ac.nbytes): None for ac in y.mem.log if ac.kind == 'W'}
        if set(wa) != set(wb):
            return False, 'different memory writes %s vs %s' % (sorted(wa)[:2], sorted(wb)[:2])
        for r_ in x.mem.regions:
            ry = y.mem.region(r_.name)
            for off, val in r_.bytes.items():
                vy = ry.bytes.get(off)
                if vy is None or not z3.eq(z3.simplify(val), z3.simplify(vy)):
                    diffs.append(val != (vy if vy is not None else z3.BitVec('unwritten', 8)))
        if not diffs:
            return True, ''
        s = z3.Solver(); s.set('timeout', 20000)
        s.add(z3.Or(*diffs))
        r = s.check()
        if r == z3.unsat:
            return True, ''
        if r == z3.sat:
            return False, 'successor states differ, e.g. %s' % str(s.model())[:200]
        return None, 'solver unknown'
    except (Unmodelled, Fault, Exception) as e:
        return None, 'engine: %s' % str(e)[:120]


def check_one(args):
    prog, workdir = args
    from engines.x86sym import decode
    name = '%s/%s/%#x' % (prog['name'], prog['target'], prog['flags'])
    res = dict(name=name, viol=[], inconclusive=[], insns=0, pairs_solver=0, recipe=prog.get('recipe'))
    code = bytes.fromhex(prog['orccode']['code'])
    tag = hashlib.sha1((name).encode()).hexdigest()[:12]
    lst, err = assemble(prog['asm'], workdir, tag)
    if lst is None:
        bad = sorted(set(re.sub(r'^\S+:\d+: ', '', l) for l in err.splitlines() if 'Error' in l))
        lines = prog['asm'].splitlines()
        ex = []
        for l in err.splitlines():
            m = re.match(r'^\S+:(\d+): Error: (.*)$', l)
            if m and int(m.group(1)) - 1 < len(lines):
                ex.append('%s  <<%s>>' % (m.group(2), lines[int(m.group(1)) - 1].strip()))
        for e in sorted(set(ex))[:4]:
            res['viol'].append('listing rejected by the assembler: ' + e)
        return res
    try:
        M = decode(code)
        L = decode(lst[:len(lst)])
    except Exception as e:
        # the assembled listing may carry alignment padding at the end
        try:
            L = decode(lst.rstrip(b'\x90\x00'))
            M = decode(code)
        except Exception as e2:
            res['inconclusive'].append('decode: %s' % str(e2)[:100])
            return res
    # alignment padding: the listing says .p2align, the emitted code contains the nops Orc chose; the assembler picks its
    # own (multi-byte) nops.  Both sequences are compared modulo padding; a branch to a padding byte means "next instruction".
    def strip(seq):
        isnop = lambda i: 'nop' in i.mnem.split() or any(w.startswith('nop') for w in i.mnem.split()) or (i.mnem == 'xchg' and ','.join(i.ops) == '%ax,%ax')
        keep, a2i = [], {}
        for i in seq:
            if isnop(i):
                a2i[i.addr] = len(keep)
            else:
                a2i[i.addr] = len(keep)
                keep.append(i)
        return keep, a2i
    L, a2i_l = strip(L)
    M, a2i_m = strip(M)
    res['insns'] = len(M)
    if len(L) != len(M):
        res['viol'].append('listing assembles to %d instructions, emitted code has %d' % (len(L), len(M)))
    for k, (a, b) in enumerate(zip(L, M)):
        oa, ob = norm_ops(a, a2i_l), norm_ops(b, a2i_m)
        if a.mnem == b.mnem and oa == ob:
            continue
        if a.mnem.startswith('j') or b.mnem.startswith('j'):
            if a.mnem == b.mnem:
                res['viol'].append('branch destination differs: listing %s %s, code %s %s' % (a.mnem, oa, b.mnem, ob))
            else:
                res['viol'].append('branch differs: listing %s, code %s' % (a.mnem, b.mnem))
            continue
        res['pairs_solver'] += 1
        eq, why = semantically_equal(a, b)
        if eq is True:
            continue
        msg = 'instruction %d: listing assembles to <%s %s>, emitted code is <%s %s>' % (k, a.mnem, ','.join(a.ops), b.mnem, ','.join(b.ops))
        if eq is None and a.mnem == b.mnem:
            res['inconclusive'].append(msg + ' (' + why + ')')
        elif eq is None:
            # different mnemonics whose equivalence cannot be established: the listing names another instruction
            res['viol'].append(msg + ' [different mnemonic; equivalence not established: ' + why + ']')
        else:
            res['viol'].append(msg + ' [' + why + ']')
    return res


def main():
    from engines.x86sym import family
    from lib import x86run
    rep = Report('C12', 'translation_validation')
    rep.bounds = dict(programs='the program family of C01 (quick: one form per opcode + extras) + encoder-path programs (loadoff with constant offsets around the disp8 boundary, constant-offset resampling loads with several destinations) on sse, avx, mmx, default flags (thorough: reduced flag sets, short jumps, frame pointer)',
                      comparison='instruction by instruction after decoding both byte strings; differing decodings compared semantically from a fully symbolic machine state')
    rep.assume('GNU as (binutils) is the standard assembler, objdump the decoder', '64-bit listings only (32-bit: outside)', 'NEON/MIPS/Altivec listings: no cross assembler in the image (outside)')
    t = tier()
    b = build.Build('c12')
    exe = b.native_prog('orcdump', [os.path.join(VERIF, 'native', 'orcdump.c')])
    ops = family.load_opcodes(exe)
    optable = {o['name']: o for o in ops}
    dflt = family.default_flags(exe)
    work = os.path.join(b.dir, 'asm')
    os.makedirs(work, exist_ok=True)
    jobs = []
    for target in ('sse', 'avx', 'mmx'):
        fam = [(n, x) for n, x in x86run.select(family.family(ops, target), t, target)] + [(n, 'program %s\n%send\n' % (n, body)) for n, body in ENCODING_EXTRAS]
        sets = [('default', dflt[target])]
        if t != 'quick':
            sets = family.reduced_flag_sets(target, dflt[target])
        for label, fl in sets:
            res = family.compile_family(exe, target, fl, recipes=fam, cwd=b.dir, emitasm=True)
            for p in res:
                if p.get('orccode') and p['orccode'].get('code') and p.get('asm'):
                    jobs.append((p, work))
    results = common.proc_map(check_one, jobs, NCPU)
    for r in results:
        rep.queries += r['pairs_solver']
        if r['viol']:
            seen = set()
            for msg in r['viol']:
                # key: target + normalised message (registers / immediates / offsets abstracted)
                k = '%s|%s' % (r['name'].split('/', 1)[1], re.sub(r'%[a-z0-9]+|\$-?0x[0-9a-f]+|\$-?\d+|-?0x[0-9a-f]+|\d+', '#', msg))
                if k in seen:
                    continue
                seen.add(k)
                replay = rep.write_replay(k + r['name'], dict(key=k, what=msg, program=r['name'], recipe=r['recipe'], kind='listing-vs-bytes'))
                rep.violated(k, '%s: %s' % (r['name'], msg), replay=replay, name=r['name'], n_props=r['insns'])
        elif r['inconclusive']:
            rep.inconc(r['name'], '; '.join(r['inconclusive'])[:300])
        else:
            rep.held(r['name'], n_props=max(1, r['insns']), engine='as+objdump+x86sym')
            if len(rep.samples) < 8:
                rep.samples.append(dict(program=r['name'], instructions=r['insns'], pairs_decided_by_solver=r['pairs_solver'], recipe=r['recipe']))
    rep.extra['programs'] = len(results)
    rep.extra['rule'] = 'one job per (program, target, flags); obligations = instruction pairs'
    rep.functions.update(['orc_x86_insn_output_asm', 'orc_x86_insn_output_opcode/modrm/immediate', 'orc_vex_insn_codegen'])
    return rep.finish()


def replay(path):
    print(json.dumps(json.load(open(path)), indent=1)[:6000])
    return 0
