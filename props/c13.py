"""C13 - bytecode round trip preserves the program.
The real orc_program_* construction API, orc_bytecode_from_program, orc_bytecode_parse_function and a second
orc_bytecode_from_program are executed symbolically from LLVM IR (engines/irsym, path forking with solver-pruned branches)
on bounded arbitrary valid programs; the reconstructed program is compared field by field and the re-encoded bytes byte
by byte, for every value of the symbolic fields."""
import os, time, json
from concurrent.futures import ProcessPoolExecutor
import z3
from lib import build, common
from lib.common import Report, tier, NCPU

_G = {}


def _init():
    from engines.irsym import roundtrip as RT
    b = build.Build('c13')
    _G['b'] = b
    _G['S'] = RT.get_setup(b)


def recipes(optable, t):
    """(name, recipe) list.  Shapes: operand-shape classes of the real opcode table; fields symbolic inside the format's range."""
    R = []
    S16 = ('sym', 0, 65534)
    base_vars = [dict(kind='dest', size=('sym', 1, 8), name='d1', alignment=('sym', 0, 64)),
                 dict(kind='src', size=('sym', 1, 8), name='s1', alignment=('sym', 0, 64)),
                 dict(kind='src', size=2, name='s2')]
    R.append(('props', dict(name='f', props=dict(constant_n=S16, n_multiple=S16, n_minimum=S16, n_maximum=S16, is_2d=True, constant_m=S16),
                            vars=[dict(kind='dest', size=2, name='d1'), dict(kind='src', size=2, name='s1'), dict(kind='src', size=2, name='s2')],
                            insns=[dict(op='addw', flags=0, args=['d1', 's1', 's2'])])))
    for fld in ('constant_n', 'n_multiple', 'n_minimum', 'n_maximum', 'constant_m'):
        pr = {fld: S16}
        if fld == 'constant_m':
            pr['is_2d'] = True
        R.append(('prop.' + fld, dict(name='f', props=pr, vars=[dict(kind='dest', size=2, name='d1'), dict(kind='src', size=2, name='s1'), dict(kind='src', size=2, name='s2')],
                                      insns=[dict(op='addw', flags=0, args=['d1', 's1', 's2'])])))
    R.append(('vars', dict(name='g', props={}, vars=base_vars + [dict(kind='temp', size=('sym', 1, 8), name='t1'), dict(kind='accum', size=('sym', 1, 8), name='a1')],
                           insns=[dict(op='copyw', flags=('sym', 0, 2), args=['t1', 's2']), dict(op='accw', flags=0, args=['a1', 't1'])])))
    R.append(('consts', dict(name='h', props={}, vars=[dict(kind='dest', size=4, name='d1'), dict(kind='src', size=4, name='s1'),
                                                       dict(kind='const', size=('sym', 1, 4), name='c1', value='sym'),
                                                       dict(kind='const64', size=8, name='c2', value='sym'),
                                                       dict(kind='dest', size=8, name='d2'), dict(kind='src', size=8, name='s2')],
                             insns=[dict(op='addl', flags=0, args=['d1', 's1', 'c1']), dict(op='addq', flags=0, args=['d2', 's2', 'c2'])])))
    R.append(('params', dict(name='k', props={}, vars=[dict(kind='dest', size=4, name='d1'), dict(kind='src', size=4, name='s1'),
                                                       dict(kind='param', size=('sym', 1, 4), name='p1'), dict(kind='paramf', size=4, name='p2'),
                                                       dict(kind='param64', size=8, name='p3'), dict(kind='paramd', size=8, name='p4'),
                                                       dict(kind='dest', size=8, name='d2'), dict(kind='src', size=8, name='s2')],
                             insns=[dict(op='addl', flags=0, args=['d1', 's1', 'p1']), dict(op='mulf', flags=0, args=['d1', 'd1', 'p2']),
                                    dict(op='addq', flags=0, args=['d2', 's2', 'p3']), dict(op='addd', flags=0, args=['d2', 'd2', 'p4'])])))
    # every opcode (quick: one representative per operand shape + first/last) in a one-instruction program with symbolic flags
    names = [o['name'] for o in optable]
    shapes = {}
    for o in optable:
        key = (tuple(bool(x) for x in o['dest']), tuple(bool(x) for x in o['src']), o['flags'] & (1 | 8 | 16 | 32))
        shapes.setdefault(key, o['name'])
    chosen = names if t != 'quick' else sorted(set(list(shapes.values()) + [names[0], names[-1]]))
    byname = {o['name']: o for o in optable}
    for nm in chosen:
        o = byname[nm]
        vs, args = [], []
        for k, d in enumerate(o['dest']):
            if d:
                vs.append(dict(kind='accum' if (o['flags'] & 1) else 'dest', size=d, name='d%d' % k)); args.append('d%d' % k)
        for k, s_ in enumerate(o['src']):
            if s_:
                if k > 0 and (o['flags'] & 8):
                    vs.append(dict(kind='param', size=s_, name='p%d' % k)); args.append('p%d' % k)
                elif nm.startswith('loadp'):
                    vs.append(dict(kind='const' if s_ < 8 else 'const64', size=s_, name='c%d' % k, value='sym')); args.append('c%d' % k)
                else:
                    vs.append(dict(kind='src', size=s_, name='s%d' % k)); args.append('s%d' % k)
        R.append(('op.' + nm, dict(name='o', props={}, vars=vs, insns=[dict(op=nm, flags=('sym', 0, 2), args=args)])))
    # capacity boundaries: 100 instructions; every variable slot of every class
    R.append(('cap.insns100', dict(name='big', props={}, vars=[dict(kind='dest', size=1, name='d1'), dict(kind='src', size=1, name='s1'), dict(kind='temp', size=1, name='t1')],
                                   insns=[dict(op='copyb', flags=0, args=['t1', 's1'])] + [dict(op='addb', flags=('sym', 0, 0) if i != 50 else ('sym', 0, 2), args=['t1', 't1', 's1']) for i in range(98)]
                                   + [dict(op='copyb', flags=0, args=['d1', 't1'])])))
    allv = [dict(kind='dest', size=2, name='d%d' % i) for i in range(4)] + [dict(kind='src', size=2, name='s%d' % i) for i in range(8)] + \
           [dict(kind='accum', size=2, name='a%d' % i) for i in range(4)] + [dict(kind='const', size=2, name='c%d' % i, value='sym' if i == 7 else i) for i in range(8)] + \
           [dict(kind='param', size=2, name='p%d' % i) for i in range(8)] + [dict(kind='temp', size=2, name='t%d' % i) for i in range(16)]
    R.append(('cap.allvars', dict(name='all', props={}, vars=allv, insns=[dict(op='addw', flags=0, args=['d3', 's7', 'c7']), dict(op='addw', flags=0, args=['t15', 's0', 'p7']), dict(op='accw', flags=0, args=['a3', 't15'])])))
    return R


def run_recipe(args):
    name, recipe = args
    from engines.irsym import roundtrip as RT
    t0 = time.time()
    res = dict(name=name, viol=[], inconclusive=[], paths=0, queries=0)
    try:
        paths = RT.run_roundtrip(recipe, setup=_G['S'], max_paths=4096)
        st = getattr(RT.run_roundtrip, 'last_stats', {})
        res['queries'] = st.get('solver_checks', 0)
        res['paths'] = len(paths)
        for p in paths:
            if p.status != 'ok' or p.rt.get('stage') != 'reencode':
                s = z3.Solver(); s.set('timeout', 20000); s.add(*p.cond)
                r = s.check()
                if r == z3.sat:
                    md = s.model()
                    res['viol'].append('%s: valid program makes stage %s end with status %s, e.g. %s' % (name, p.rt.get('stage'), p.status, {str(d): md[d].as_long() for d in md.decls()}))
                elif r != z3.unsat:
                    res['inconclusive'].append('%s: path feasibility unknown' % name)
                continue
            for f, x, y, m in RT.differences(p):
                if f.endswith('.value'):
                    # constant values are compared modulo the variable size (the format stores size bytes)
                    vi = f.split('[')[1].split(']')[0]
                    sz = p.rt['p1']['vars'][int(vi)]['size']
                    if isinstance(sz, int) and sz < 8 and z3.is_expr(x) or isinstance(x, int):
                        xs = x if z3.is_expr(x) else z3.BitVecVal(x, 64)
                        ys = y if z3.is_expr(y) else z3.BitVecVal(y, 64)
                        if isinstance(sz, int):
                            s = z3.Solver(); s.set('timeout', 20000); s.add(*p.cond)
                            s.add(z3.Extract(8 * sz - 1, 0, xs) != z3.Extract(8 * sz - 1, 0, ys))
                            if s.check() == z3.unsat:
                                continue
                res['viol'].append('%s: field %s differs after decode(encode(P)): %s -> %s with %s' % (name, f, str(x)[:40], str(y)[:40], m))
            b1, b2 = p.rt.get('bytecode'), p.rt.get('bytecode2')
            if b1 is None or b2 is None or len(b1) != len(b2):
                res['viol'].append('%s: re-encoded length differs (%s vs %s)' % (name, b1 and len(b1), (b2 and len(b2)) or p.rt.get('bytecode2_len')))
            else:
                diff = [i for i, (u, v) in enumerate(zip(b1, b2)) if not ((isinstance(u, int) and isinstance(v, int) and u == v) or (z3.is_expr(u) and z3.is_expr(v) and z3.eq(u, v)))]
                for i in diff:
                    u, v = b1[i], b2[i]
                    u = u if z3.is_expr(u) else z3.BitVecVal(u, 8)
                    v = v if z3.is_expr(v) else z3.BitVecVal(v, 8)
                    s = z3.Solver(); s.set('timeout', 20000); s.add(*p.cond); s.add(u != v)
                    r = s.check()
                    if r == z3.sat:
                        md = s.model()
                        res['viol'].append('%s: re-encoded byte %d differs, e.g. %s' % (name, i, {str(d): md[d].as_long() for d in md.decls()}))
                        break
                    elif r != z3.unsat:
                        res['inconclusive'].append('%s: byte %d equality unknown' % (name, i))
    except Exception as e:
        import traceback
        from engines.irsym import MemFault
        if isinstance(e, MemFault):
            res['viol'].append('%s: encoding/decoding a valid program makes the real code access memory out of bounds: %s' % (name, str(e)[:200]))
        else:
            res['inconclusive'].append('%s: exception %s' % (name, traceback.format_exc()[-500:]))
    res['wall'] = round(time.time() - t0, 2)
    return res


def main():
    from engines.irsym import roundtrip as RT
    rep = Report('C13', 'model_checking')
    rep.bounds = dict(programs='bounded arbitrary valid programs: per recipe the listed fields are symbolic (sizes 1..8, alignments 0..64 on arrays, 32/64-bit constant values, parameter classes, 2-D and fixed-size settings in 0..65534 incl. 254/255/65534, x2/x4 flags); one instruction per real opcode (quick: one per operand-shape class, first and last entry); 100 instructions; all 48 variable slots',
                      engine='path forking with solver feasibility checks; every path has a concrete byte layout', not_symbolic='names, variable kinds, instruction count, opcode choice (enumerated)')
    rep.assume('libc is stubbed by contracts (malloc never fails, realloc copies)', 'values above 65534 in integer fields are outside the format (asserted by the encoder) and outside the claim',
               'alignment is carried for source/destination arrays only; constant values are compared modulo the variable size', 'irsym interpreter cross-checked natively (engines/irsym validate_roundtrip) on concrete recipes')
    _init()
    S = _G['S']
    # native gate on a few concrete recipes
    gate_bad = []
    try:
        import random
        rnd = random.Random(common.seed())
        recs = [RT.random_recipe(rnd, S.optable) for _ in range(6 if tier() == 'quick' else 30)]
        v = RT.validate_roundtrip(_G['b'], S, recs)
        bad = [x for x in v if not x[1]]
        rep.extra['native_gate'] = dict(recipes=len(recs), disagreements=len(bad))
        rep.extra['traces_validated'] = len(recs)
        gate_bad = bad
    except Exception as e:
        rep.extra['native_gate'] = 'not run: %s' % str(e)[:200]
    rs = recipes(S.optable, tier())
    with ProcessPoolExecutor(max_workers=NCPU, initializer=_init) as ex:
        results = list(ex.map(run_recipe, rs, chunksize=1))
    for r in results:
        rep.queries += r['queries']
        if r['viol']:
            for msg in r['viol'][:3]:
                key = 'c13.%s|%s' % (r['name'], msg.split(' with ')[0].split(', e.g.')[0][:160])
                rep.violated(key, msg, name='c13.' + r['name'], n_props=max(1, r['paths']))
        elif r['inconclusive']:
            rep.inconc('c13.' + r['name'], '; '.join(r['inconclusive'])[:300])
        else:
            rep.held('c13.' + r['name'], wall_s=r['wall'], n_props=max(1, r['paths']), engine='irsym')
            if len(rep.samples) < 8:
                rep.samples.append(dict(recipe=r['name'], paths=r['paths'], solver_checks=r['queries'], wall_s=r['wall']))
    if gate_bad and not rep.violations:
        # interpreter and native build disagree on a concrete round trip and the symbolic run found nothing: the encoder is suspect
        rep.mismatch('irsym-vs-native-roundtrip', str(gate_bad[:2])[:400])
    rep.functions.update(['orc_bytecode_from_program', 'orc_bytecode_parse_function', 'bytecode_append_int', 'bytecode_append_uint32', 'bytecode_append_uint64',
                          'bytecode_append_string', 'orc_bytecode_parse_get_int', 'orc_program_new', 'orc_program_add_*', 'orc_program_append_2', 'orc_program_set_*'])
    rep.extra['rule'] = 'one job per recipe; states = feasible paths (distinct byte layouts); non-trivial = at least one path reached the re-encode stage'
    return rep.finish()


def replay(path):
    print(json.dumps(json.load(open(path)), indent=1)[:6000])
    return 0
