"""C03 - executing a program touches only the array elements it is entitled to (every load/store of every feasible path).
(a) machine code: every load/store of every feasible path of the x86-64 code (shared runner);
(b) emulation: every real emulator kernel (LLVM IR of orc/orcemulateopcodes.c, engines/irsym) is run on operand objects that
    have exactly the entitled size (n elements; loadupdb ceil(n/2); loadupib n/2+1) - any access outside them is a fault path."""
import os
from concurrent.futures import ProcessPoolExecutor
from lib import x86run, build
from lib.common import NCPU
from lib.common import Report, tier
from props import x86common


def flagsets():
    return None


def main():
    rep = Report('C03', 'translation_validation')
    rep.bounds = dict(n='symbolic, 0..2*elements_per_vector+3 (avx capped at 36 in the quick tier); every head/tail length and <=2 main-loop iterations are feasible paths',
                      alignment='base pointers symbolic (every residue allowed by the element size)', m='1..2 rows for 2-D programs, n<=9',
                      programs='quick: every opcode once (operand kind rotates with VERIF_SEED) + every 4th x2/x4 form + structural extras; thorough: whole single-opcode family',
                      targets='sse, avx, mmx (64-bit code)')
    rep.assume(*x86common.ASSUME)
    results, info = x86run.run(('C01', 'C03', 'C10', 'C11'), flagsets=flagsets())
    x86common.fold('C03', 'translation_validation', results, info, rep, '')
    emulator_frame(rep)
    return rep.finish()


_G = {}


def _init(ll, optable):
    from engines.irsym import Module
    _G['m'] = Module.load(ll)
    _G['ops'] = optable


def _frame_job(name):
    """Run emulate_<name> for n = 1..5 on exactly-sized operand objects; returns (name, runs, faults, undecided)."""
    from engines.irsym import kernel_closed_form, Unsupported, MemFault
    m, op = _G['m'], _G['ops'][name]
    runs, faults, undecided = 0, [], []
    for n in (1, 2, 3, 4, 5):
        se = None
        if name == 'loadupdb':
            se = {0: (n + 1) // 2}
        elif name == 'loadupib':
            se = {0: n // 2 + 1}
        try:
            kernel_closed_form(m, op, n, offset_term=0, simplify=False, src_elems=se)
            runs += 1
        except MemFault as e:
            faults.append('emulate_%s (n=%d): access outside the entitled operand bytes: %s' % (name, n, str(e)[:160]))
        except Unsupported as e:
            undecided.append('n=%d: %s' % (n, str(e)[:160]))
        except Exception as e:
            undecided.append('n=%d: %s: %s' % (n, type(e).__name__, str(e)[:160]))
    return name, runs, faults, undecided


def emulator_frame(rep):
    from engines.irsym import Module, opcode_table_from_ir
    b = build.Build('c03emu')
    # -O0: every load/store written in the source is present in the IR (at -O1 clang sinks or removes loads whose value is
    # unused on some path, which would hide an over-read that the shipped gcc build performs)
    ll = b.ir('emu0', os.path.join(build.REPO, 'orc', 'orcemulateopcodes.c'), wrapv=True, opt='-O0')
    llsys = b.ir('opsys', os.path.join(build.REPO, 'orc', 'orcopcodes-sys.c'), wrapv=True)
    optable = {o['name']: o for o in opcode_table_from_ir(Module.load(llsys))}
    # the resampling/offset loads index a window whose entitled range depends on the parameter values: outside this part
    names = [n for n in sorted(optable) if not n.startswith(('ldres', 'loadoff'))]
    with ProcessPoolExecutor(max_workers=NCPU, initializer=_init, initargs=(ll, optable)) as ex:
        out = list(ex.map(_frame_job, names, chunksize=4))
    for name, runs, faults, undecided in out:
        rep.functions.add('emulate_' + name)
        if faults:
            rep.violated('c03.emu.%s' % name, faults[0], name='c03.emu.' + name, n_props=5)
        elif undecided:
            rep.inconc('c03.emu.' + name, '; '.join(undecided)[:300])
        else:
            rep.held('c03.emu.' + name, n_props=runs, engine='irsym')
    rep.extra['emulator_frame'] = dict(kernels=len(names), n='1..5', rule='operand objects have exactly the entitled size; every load/store of the kernel must fall inside one of them (irsym per-object faults)',
                                       outside='ldres*/loadoff* kernels (window depends on parameter values; their index arithmetic is C02)')


def replay(path):
    import json
    print(json.dumps(json.load(open(path)), indent=1)[:8000])
    return 0
