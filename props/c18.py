"""C18 - float opcodes: IEEE results with flush-to-zero, identical on every path.
(a) emulator float/double kernels == reference IEEE-with-flush semantics (irsym + z3 FP theory with congruence abstraction);
(b) machine code of the float programs == emulation oracle bit for bit (NaN-ness for NaN results, either zero for min/max of
    zeros), on every feasible path, under the MXCSR value the code itself installs (x86sym)."""
import os, json
from concurrent.futures import ProcessPoolExecutor
from lib import build, common, x86run
from lib.common import Report, tier, NCPU, REPO
from props import c02, x86common


def main():
    from engines.irsym import Module, opcode_table_from_ir
    from engines import orcref
    rep = Report('C18', 'translation_validation')
    rep.bounds = dict(kernels='all float/double kernels, n in 1..4, every bit pattern (NaN, denormal, +-0, inf included)',
                      machine_code='float/double programs of the family on sse and avx (mmx has no float rules); symbolic n (<= 2 vectors + 3), data, alignment',
                      quick_tier_not_claimed='bit equality of mul/div/sqrt and float->int conversion results between machine code and emulation (FP query not decided in the quick budget); their control flow, accesses and NaN handling paths are still executed')
    rep.assume('thorough tier: programs doing mul/div/sqrt/conversions on full-width symbolic operands whose data equivalence z3 does not decide within 1500 s are listed under coverage.skipped (not decided, not claimed); a disagreement inside the flush-to-zero boundary class whose complement query is undecided is reported as an instance of the known finding')
    rep.assume('rounding mode at entry = nearest even; exceptions masked', 'z3 has one NaN: NaN results are compared by NaN-ness (the property only asks for that)',
               'sqrtf reference = float(sqrt(double)) (double-rounding theorem)', *x86common.ASSUME[:4])
    b = build.Build('c18')
    ll = b.ir('emu', os.path.join(REPO, 'orc', 'orcemulateopcodes.c'), wrapv=True)
    llsys = b.ir('opsys', os.path.join(REPO, 'orc', 'orcopcodes-sys.c'), wrapv=True)
    optable = {o['name']: o for o in opcode_table_from_ir(Module.load(llsys))}
    fops = sorted(n for n in optable if n in orcref.FLOAT_OPS or n in ('orf', 'andf'))
    with ProcessPoolExecutor(max_workers=NCPU, initializer=c02._init, initargs=(ll, optable)) as ex:
        kres = list(ex.map(c02.check_opcode, fops, chunksize=1))
    for r in kres:
        rep.queries += r['queries']
        rep.functions.add('emulate_' + r['name'])
        if r['viol']:
            for msg in r['viol'][:2]:
                rep.violated('c18.kernel.%s|%s' % (r['name'], msg.split(' e.g. ')[0].split('(n=')[0]), msg, name='c18.kernel.' + r['name'])
        elif r['inconclusive']:
            rep.inconc('c18.kernel.' + r['name'], '; '.join(r['inconclusive'])[:300])
        else:
            rep.held('c18.kernel.' + r['name'], wall_s=r['wall'], n_props=r['obligations'], engine='irsym')
    results, info = x86run.run(('C01',), targets=('sse', 'avx'), fp_data='quick' if tier() == 'quick' else True, only_float=True, job_timeout=900 if tier() == 'quick' else 1500)
    HARD = ('muld', 'divd', 'sqrtd', 'sqrtf', 'mulf', 'divf', 'convfd', 'convdf', 'convld', 'convlf', 'convfl', 'convdl')
    for r in results:
        # multiplication / division / square root / conversions on full-width symbolic operands: z3's FP decision procedure may not
        # finish; such programs are listed as not decided (outside the claim), never counted as held
        if r['status'] == 'timeout' and r['name'].split('_')[0] in HARD:
            r['status'] = 'skipped'
            r.setdefault('notes', []).append('data equivalence of %s not decided within %d s (listed, not claimed)' % (r['name'].split('_')[0], 1500))
    for r in results:
        r['viol']['C18'] = r['viol'].get('C01', [])
        for c in r.get('counterexamples', []):
            if c.get('prop') == 'C01':
                c['prop'] = 'C18'
    x86common.fold('C18', 'translation_validation', results, info, rep, '')
    return rep.finish()


def replay(path):
    print(json.dumps(json.load(open(path)), indent=1)[:6000])
    return 0
