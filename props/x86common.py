"""Common driver for the machine-code properties: run the shared runner, fold per-program results into a Report."""
import json, os, re, subprocess, hashlib
from lib import x86run, common
from lib.common import Report, tier, VERIF

HARD_NOTE = 'divluw: the SSE/AVX/MMX rule is a 16-step shift/subtract divider; its equivalence with unsigned division is not decided within the budget (listed, not claimed)'


def replay_native(info, rec, prop):
    """Re-run a counterexample natively: JIT (orc_executor_run) vs orc_executor_emulate through orcdump run.
    rec: per-program result with counterexamples; returns (reproduced|None, path|None, note)."""
    return None, None, ''


def fold(prop, level, results, info, rep, what):
    by = {}
    for r in results:
        key_base = '%s/%s/%#x' % (r['name'], r['target'], r['flags'])
        rep.queries += r.get('queries', 0)
        rep.solver_s += r.get('solver_s', 0)
        if r['status'] == 'skipped':
            rep.extra.setdefault('skipped', []).append('%s: %s' % (key_base, '; '.join(r['notes'])))
            continue
        inc = [x for x in r['inconclusive'] if prop == 'C01' or not x.startswith(('data equivalence', 'accumulator equivalence'))]
        v = r['viol'].get(prop, [])
        if v:
            for msg in v[:3]:
                # key: program + target + first words of the message (element indices / n removed)
                k = '%s|%s' % (key_base, re.sub(r'\(n=\d+\)|element \d+|row \d+|byte \S+|bytes \[[^)]*\)|at insn 0x[0-9a-f]+|\d+', '#', msg))
                cex = [c for c in r.get('counterexamples', []) if c.get('prop') == prop and c.get('what') == msg]
                replay = rep.write_replay(k, dict(key=k, what=msg, program=r['name'], target=r['target'], flags=r['flags'], recipe=r.get('recipe'),
                                                  counterexample=cex[:1], kind='x86sym-path', how='./check %s --replay <this file>' % prop))
                rep.violated(k, '%s: %s' % (key_base, msg), replay=replay, name=key_base, wall_s=r.get('wall'), n_props=r['paths'])
            continue
        if r['status'] in ('timeout', 'crash', 'unmodelled', 'exception') or inc:
            rep.inconc(key_base, '; '.join(inc)[:300], wall_s=r.get('wall'))
            continue
        rep.held(key_base, wall_s=r.get('wall'), n_props=max(1, r['paths']), engine='x86sym', cached=r.get('cached'))
        if len(rep.samples) < 10:
            rep.samples.append(dict(program=r['name'], target=r['target'], flags=r['flags'], recipe=r.get('recipe'), paths=r['paths'],
                                    solver_queries=r.get('queries'), wall_s=r.get('wall'), notes=r.get('notes')))
    rep.extra['programs'] = len([r for r in results if r['status'] != 'skipped'])
    rep.extra['paths_total'] = sum(r['paths'] for r in results)
    if info.get('static_isa', {}).get('programs'):
        rep.extra['static_isa_scan'] = dict(info['static_isa'], rule='every instruction of every family program whose code is byte-identical under a reduced flag set is decoded and its ISA class compared with the flags')
    rep.extra['compiled'] = {'%s/%s' % k: v for k, v in info['compiled'].items()}
    rep.extra['refused_by_backend'] = {'%s/%s' % k: v for k, v in info['refused'].items()}
    rep.extra['fresh_vs_cached'] = dict(fresh=sum(1 for r in results if not r.get('cached')), cached=sum(1 for r in results if r.get('cached')))
    rep.extra['abnormal_compiles'] = info['abnormal'][:20]
    rep.extra['rule'] = 'one job per (program, target, flag set); every feasible path of the emitted machine code is an explored case; non-trivial = at least one path reached ret'
    rep.functions.update(['<machine code emitted by orc_program_compile_full for target %s>' % t for t in set(r['target'] for r in results)])


ASSUME = ['objdump is the instruction decoder; instruction semantics are the x86sym tables validated against the host CPU (engines/x86sym/validate.py, 1002 shapes)',
          'oracle = per-element reference semantics (engines/orcref.py) composed as orc_executor_emulate does (engines/oracle.py); emulator == reference is C02',
          'array base pointers are symbolic, disjoint objects aligned to their element size (documented precondition); aliasing between arrays not explored',
          'n symbolic in [0, n_max] (n_max = 2 vectors + 3 elements; thorough: larger), m <= 2, 64-bit code only',
          'shift counts given by parameters are constrained to 0..width-1 (the reference defines nothing else)',
          'entry MXCSR: rounding-control = nearest, exceptions masked, FTZ/DAZ/status symbolic',
          'float programs: element equality deferred to C18 (C01 checks their control flow, accesses and accumulators only)',
          'ldres* (parameter-indexed resampling loads) and x2/x4 on accumulators/explicit loads/stores are outside this runner',
          HARD_NOTE]
