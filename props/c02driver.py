"""C02(b): the real emulation driver orc_executor_emulate (orc/orcexecutor.c) executed symbolically (irsym) on code
objects built from real compiled programs, with symbolic array contents and parameters, compared element by element with the
composition oracle (engines/oracle.py over the reference semantics).  This is what ties the oracle used by C01/C03/C18 to the
real driver: chunking by 16, staging of constants and 32/64-bit parameters, x2/x4 lane scaling, accumulators, rows."""
import os, json, subprocess, time
import z3

PROGRAMS = [
    # (name, recipe body, n, m)
    ('addq_param64', 'var dest 8 d1\nvar src 8 s1\nvar param64 8 p1\ninsn addq 0 d1 s1 p1\n', 19, 1),
    ('xorq_paramd', 'var dest 8 d1\nvar src 8 s1\nvar paramd 8 p1\ninsn xorq 0 d1 s1 p1\n', 3, 1),
    ('addw_param', 'var dest 2 d1\nvar src 2 s1\nvar param 2 p1\ninsn addw 0 d1 s1 p1\n', 19, 1),
    ('addl_const', 'var dest 4 d1\nvar src 4 s1\nvar const 4 c1 80000001\ninsn addl 0 d1 s1 c1\n', 17, 1),
    ('x2_addw_param', 'var dest 4 d1\nvar src 4 s1\nvar param 4 p1\ninsn addw 1 d1 s1 p1\n', 18, 1),
    ('x4_subb', 'var dest 4 d1\nvar src 4 s1\nvar src 4 s2\ninsn subb 2 d1 s1 s2\n', 5, 1),
    ('temp_chain', 'var dest 2 d1\nvar src 1 s1\nvar src 1 s2\nvar temp 2 t1\nvar temp 2 t2\nvar const 2 c1 80\ninsn convubw 0 t1 s1\ninsn convubw 0 t2 s2\ninsn mullw 0 t1 t1 t2\ninsn addw 0 t1 t1 c1\ninsn div255w 0 d1 t1\n', 17, 1),
    ('acc_two', 'var accum 4 a1\nvar accum 2 a2\nvar src 1 s1\nvar src 1 s2\nvar src 2 s3\ninsn accsadubl 0 a1 s1 s2\ninsn accw 0 a2 s3\n', 6, 1),
    ('acc_four', 'var accum 2 a1\nvar accum 4 a2\nvar accum 4 a3\nvar accum 4 a4\nvar src 1 s1\nvar src 1 s2\nvar src 2 s3\nvar temp 4 t1\ninsn accw 0 a1 s3\ninsn convswl 0 t1 s3\ninsn accl 0 a2 t1\ninsn accsadubl 0 a3 s1 s2\ninsn accl 0 a4 t1\n', 6, 1),
    ('2d_addw', '2d\nvar dest 2 d1\nvar src 2 s1\nvar src 2 s2\ninsn addw 0 d1 s1 s2\n', 5, 2),
    ('shlw_param', 'var dest 2 d1\nvar src 2 s1\nvar param 2 p1\ninsn shlw 0 d1 s1 p1\n', 4, 1),
    ('inplace', 'var dest 1 d1\nvar src 1 s1\ninsn addb 0 d1 d1 s1\n', 17, 1),
    ('loadupdb', 'var dest 1 d1\nvar src 1 s1\nvar temp 1 t1\ninsn loadupdb 0 t1 s1\ninsn copyb 0 d1 t1\n', 18, 1),
]

OFFSETS_C = r'''#include <stdio.h>
#include <stddef.h>
#include <orc/orc.h>
#include <orc/orcinternal.h>
#define O(T,f) printf("\"%s.%s\":%zu,", #T, #f, offsetof(T,f))
int main(){printf("{");O(OrcCode,n_insns);O(OrcCode,insns);O(OrcCode,vars);O(OrcCode,is_2d);O(OrcCode,constant_n);O(OrcCode,constant_m);
O(OrcInstruction,opcode);O(OrcInstruction,dest_args);O(OrcInstruction,src_args);O(OrcInstruction,flags);
O(OrcCodeVariable,vartype);O(OrcCodeVariable,size);O(OrcCodeVariable,value);
O(OrcExecutor,program);O(OrcExecutor,n);O(OrcExecutor,arrays);O(OrcExecutor,params);O(OrcExecutor,accumulators);
printf("\"sizeof_code\":%zu,\"sizeof_insn\":%zu,\"sizeof_cvar\":%zu,\"sizeof_ex\":%zu,\"sizeof_opcode\":%zu,\"A1\":%d,\"A2\":%d,\"T1\":%d,\"P1\":%d,\"NCV\":%d}",sizeof(OrcCode),sizeof(OrcInstruction),sizeof(OrcCodeVariable),sizeof(OrcExecutor),sizeof(OrcStaticOpcode),ORC_VAR_A1,ORC_VAR_A2,ORC_VAR_T1,ORC_VAR_P1,ORC_N_COMPILER_VARIABLES);}'''


def run(rep, b):
    from lib.common import REPO, VERIF
    from engines.irsym import Module, Executor, MemFault, Unsupported
    from engines.x86sym import family
    from engines import orcref, oracle as O
    from lib.x86check import prove_equal
    R = os.path.join(REPO, 'orc')
    tus = 'orcexecutor.c orcemulateopcodes.c orcopcodes-sys.c orcopcode.c orcutils.c'.split()
    lls = [b.ir('drv_' + t[:-2].replace('-', '_'), os.path.join(R, t), wrapv=True) for t in tus]
    m = Module.load(lls)
    exe = b.native_prog('orcdump', [os.path.join(VERIF, 'native', 'orcdump.c')])
    ops = family.load_opcodes(exe)
    optable = {o['name']: o for o in ops}
    src = os.path.join(b.dir, 'drvoff.c')
    open(src, 'w').write(OFFSETS_C)
    oe = os.path.join(b.dir, 'drvoff')
    subprocess.check_call(['gcc'] + b.cflags + [src, '-o', oe])
    off = json.loads(subprocess.check_output([oe]))
    recipes = [(n, 'program %s\n%send\n' % (n, body)) for n, body, _, _ in PROGRAMS]
    compiled = family.compile_family(exe, 'sse', 'default', recipes=recipes, cwd=b.dir)
    gname = [g for g in m.globals if g.split('$')[0] == 'opcodes'][0]
    for (name, body, n, rows), prog in zip(PROGRAMS, compiled):
        job = 'c02.driver.' + name
        t0 = time.time()
        code = prog.get('orccode')
        if not code or not code.get('insns'):
            rep.inconc(job, 'program did not get a code object: %s' % prog.get('error'))
            continue
        try:
            ex = Executor(m, max_steps=6000000)
            opbase = ex.gaddr[gname]
            ins = code['insns']
            cvars = {v['i']: v for v in code['vars']}
            pv = {v['i']: v for v in prog['prog_vars']}
            # OrcCode, instructions, variables
            C = ex.alloc('code', off['sizeof_code'], init='zero')
            I = ex.alloc('insns', off['sizeof_insn'] * len(ins), init='zero')
            V = ex.alloc('cvars', off['sizeof_cvar'] * off['NCV'], init='zero')
            ex.write(C, off['OrcCode.n_insns'], len(ins), 4); ex.write(C, off['OrcCode.insns'], I, 8); ex.write(C, off['OrcCode.vars'], V, 8)
            ex.write(C, off['OrcCode.is_2d'], 1 if code['is_2d'] else 0, 4)
            for j, insn in enumerate(ins):
                a = j * off['sizeof_insn']
                ex.write(I, a + off['OrcInstruction.opcode'], opbase + optable[insn['op']]['index'] * off['sizeof_opcode'], 8)
                for k in range(2):
                    ex.write(I, a + off['OrcInstruction.dest_args'] + 4 * k, insn['d'][k] & 0xffffffff, 4)
                for k in range(4):
                    ex.write(I, a + off['OrcInstruction.src_args'] + 4 * k, insn['s'][k] & 0xffffffff, 4)
                ex.write(I, a + off['OrcInstruction.flags'], insn['flags'], 4)
            for i, v in cvars.items():
                a = i * off['sizeof_cvar']
                ex.write(V, a + off['OrcCodeVariable.vartype'], v['vartype'], 4)
                ex.write(V, a + off['OrcCodeVariable.size'], v['size'], 4)
                ex.write(V, a + off['OrcCodeVariable.value'], int(v['value'], 16), 8)
            # executor
            E = ex.alloc('executor', off['sizeof_ex'], init='zero')
            ex.write(E, off['OrcExecutor.n'], n, 4)
            for k_ in range(4):      # whatever an earlier run (or an uncleared caller-allocated executor) left behind
                ex.write(E, off['OrcExecutor.accumulators'] + 4 * k_, z3.BitVec('acc_left_over_%d' % k_, 32), 4)
            ex.write(E, off['OrcExecutor.arrays'] + 8 * off['A2'], C, 8)
            ex.write(E, off['OrcExecutor.params'] + 4 * off['A1'], rows, 4)
            arrays, params = {}, {}
            stride_gap = 6
            for i, v in pv.items():
                if v['vartype'] in (1, 2):
                    rowbytes = v['size'] * (n + 2) + stride_gap
                    A = ex.alloc('arr_%s' % v['name'], rowbytes * rows, init='zero')
                    syms = {}
                    for r_ in range(rows):
                        for e in range(n + 2):
                            t = z3.BitVec('%s_r%d_e%d' % (v['name'], r_, e), 8 * v['size'])
                            syms[(r_, e)] = t
                            ex.write(A, r_ * rowbytes + e * v['size'], t, v['size'])
                    arrays[i] = dict(addr=A, size=v['size'], syms=syms, rowbytes=rowbytes, writable=v['vartype'] == 2, name=v['name'])
                    ex.write(E, off['OrcExecutor.arrays'] + 8 * i, A, 8)
                    ex.write(E, off['OrcExecutor.params'] + 4 * i, rowbytes, 4)
                elif v['vartype'] == 4:
                    lo = z3.BitVec('p_%s' % v['name'], 32)
                    hi = z3.BitVec('p_%s_hi' % v['name'], 32)
                    params[i] = (lo, hi, v['size'])
                    ex.write(E, off['OrcExecutor.params'] + 4 * i, lo, 4)
                    ex.write(E, off['OrcExecutor.params'] + 4 * (i + off['T1'] - off['P1']), hi, 4)
            asm = []
            for insn in ins:
                if insn['op'][:3] in ('shl', 'shr') and insn['s'][1] in params:
                    asm.append(z3.ULT(params[insn['s'][1]][0], 8 * optable[insn['op']]['src'][0]))
            for a_ in asm:
                ex.assume(a_)
            paths = ex.call('orc_executor_emulate', [E], on_fault='path')
            if len(paths) != 1 or paths[0].status != 'ok':
                rep.violated('c02.driver.%s|emulation does not complete' % name, '%s: orc_executor_emulate ended with %s' % (job, [(p.status) for p in paths][:3]), name=job)
                continue
            p = paths[0]
            orc = O.Oracle(prog, optable, orcref.REF)

            def elem(var, row, idx, size):
                return arrays[var]['syms'][(row, idx)]

            def param(var):
                lo, hi, sz = params[var]
                return lo, hi
            out = orc.run(n, rows, elem, param)
            s = z3.Solver(); s.set('timeout', 30000)
            for a_ in asm:
                s.add(a_)

            def q(w):
                s.push(); s.add(w); r = s.check(); md = s.model() if r == z3.sat else None; s.pop(); rep.queries += 1; return r, md
            bad = []
            nobl = 0
            for i, a in arrays.items():
                if not a['writable']:
                    continue
                for r_ in range(rows):
                    for e in range(n + 2):
                        got = p.read(a['addr'], r_ * a['rowbytes'] + e * a['size'], a['size'])
                        want = out['stores'].get((i, r_, e), a['syms'][(r_, e)]) if e < n else a['syms'][(r_, e)]
                        got = got if z3.is_expr(got) else z3.BitVecVal(got, 8 * a['size'])
                        nobl += 1
                        pr = prove_equal(q, z3.simplify(got), z3.simplify(want))
                        if pr != 'ok':
                            bad.append(('%s row %d element %d' % (a['name'], r_, e), pr))
            for i, v in pv.items():
                if v['vartype'] == 5:
                    slot = i - off['A1']
                    got = p.read(E, off['OrcExecutor.accumulators'] + 4 * slot, 4)
                    got = got if z3.is_expr(got) else z3.BitVecVal(got, 32)
                    want = out['acc'][slot]
                    nobl += 1
                    pr = prove_equal(q, z3.simplify(got), z3.simplify(want))
                    if pr != 'ok':
                        bad.append(('accumulator %s' % v['name'], pr))
            if bad:
                unk = [x for x in bad if x[1] == 'unknown']
                real = [x for x in bad if x[1] != 'unknown']
                if real:
                    rep.violated('c02.driver.%s|%s' % (name, real[0][0].split(' row')[0]), '%s: real orc_executor_emulate result of %s differs from the composed reference, e.g. %s' % (job, real[0][0], str(real[0][1][1])[:300]), name=job, n_props=nobl)
                else:
                    rep.inconc(job, 'equivalence unknown for %s' % unk[0][0])
            else:
                rep.held(job, wall_s=round(time.time() - t0, 2), n_props=nobl, engine='irsym')
        except (MemFault, Unsupported, Exception) as e:
            import traceback
            rep.inconc(job, 'engine: %s' % traceback.format_exc()[-300:])
    rep.functions.update(['orc_executor_emulate', 'load_constant'])
