"""C15 - a program written as .orc text is the program built through the API.
Unit contracts on the real parser functions (CBMC): each declaration directive leaves the program in exactly the state the
corresponding orc_program_add_* call produces (two-program equivalence, symbolic size/alignment), numeric literals denote
their value (symbolic digits), opcode lines keep prefix and operand order, and the token/line sequences are independent of
extra blanks, trailing comments and CR LF.  The end-to-end statement follows by composition over lines."""
import os
from lib import build, cbmc
from lib.common import VERIF, REPO, Report, tier

H = os.path.join(VERIF, 'harness', 'c14', 'h_parse.c')
TUS = [H] + [os.path.join(REPO, 'orc', x) for x in ('orcutils.c', 'orcprogram.c')]
UB = [r'_strtoll\|arithmetic overflow on signed']


def main():
    rep = Report('C15', 'model_checking')
    t = tier()
    rep.bounds = dict(directives='.source .dest .temp .param .longparam .floatparam .doubleparam .accumulator, with align and type tokens; size/alignment values arbitrary (strtol result symbolic)',
                      literals='decimal (3 digits), negative, hex (2 digits, either case), octal, L suffix: digits symbolic', opcode_lines='x1/x2/x4 x two opcode shapes x both operand orders',
                      formatting='lines of <= 5 (thorough 6) bytes: an extra blank/tab at any position next to a separator, a trailing comment; texts of <= 5 bytes with LF vs CR LF')
    rep.assume('composition argument: a file is a sequence of lines, each handled from the parser state the previous ones left (C14 induction); the unit contracts give the per-line equality',
               'float literals: value is strtod\'s (libc, trusted); strtol stubbed as an arbitrary value that the API twin receives as well', '4-entry opcode table with the real operand shapes')
    b = build.Build('c15')
    J = cbmc.Job
    to = 900 if t == 'quick' else 3000
    js = [J('c15.directive_equiv.kind%d' % k, TUS, 'h_dir_equiv', defs=['DKIND=%d' % k, '__NO_CTYPE'], unwind=70, timeout=to, mem_gb=12, ub_notes=UB,
            funcs=['orc_parse_handle_directive', 'orc_parse_handle_source', 'orc_parse_handle_dest', 'orc_program_add_source', 'orc_program_add_destination', 'orc_program_set_var_alignment', 'orc_program_set_type_name'])
          for k in range(10)]
    js += [J('c15.dotn.kind%d' % k, TUS, 'h_dotn', defs=['NKIND=%d' % k, 'STRTOL_FUNCTIONAL', '__NO_CTYPE'], unwind=70, timeout=to, mem_gb=12, ub_notes=UB,
             funcs=['orc_parse_handle_directive', 'orc_parse_handle_dotn', 'orc_parse_handle_dotm', 'orc_parse_handle_flags', 'orc_program_set_constant_n', 'orc_program_set_n_multiple', 'orc_program_set_n_minimum', 'orc_program_set_n_maximum', 'orc_program_set_constant_m', 'orc_program_set_2d'])
           for k in range(10)]
    js += [J('c15.literal.kind%d' % k, TUS, 'h_literal', defs=['LKIND=%d' % k, '__NO_CTYPE'], unwind=70, timeout=to, ub_notes=UB, funcs=['orc_program_add_constant_str', '_strtoll'])
           for k in range(8)]
    js += [J('c15.opcode_order.x%d.op%d.swap%d' % (a, w, sw), TUS, 'h_opcode_order', defs=['OPRE=%d' % a, 'OWHICH=%d' % w, 'OSWAP=%d' % sw, '__NO_CTYPE'], unwind=70, timeout=to, mem_gb=12,
             ub_notes=UB, funcs=['orc_parse_handle_opcode', 'orc_program_append_str_n']) for a in (0, 1, 2) for w in (0, 1) for sw in (0, 1)]
    js.append(J('c15.format_tokens', TUS, 'h_format_tokens', defs=['FL=%d' % (5 if t == 'quick' else 6), '__NO_CTYPE'], unwind=20, timeout=to, mem_gb=12,
                funcs=['orc_line_parse_tokens', 'orc_line_skip_blanks', 'orc_line_add_token']))
    js.append(J('c15.format_lines', TUS, 'h_format_lines', defs=['__NO_CTYPE'], unwind=12, timeout=to, funcs=['orc_parse_get_line', 'orc_parse_advance', 'orc_parse_find_line_length']))
    only = os.environ.get('C15_ONLY')
    if only:
        js = [j for j in js if any(o in j.name for o in only.split(','))]
    cbmc.run_jobs(b, js, rep)
    return rep.finish()


def replay(path):
    import json
    print(json.dumps(json.load(open(path)), indent=1)[:6000])
    return 0
